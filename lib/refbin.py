#!/usr/bin/env python3
"""Independent reference codec for the Roblox binary model format (rbxm/rbxl).

Written from /repo/docs/binary.md only (plus FORMAT.md / REFCODEC_API.md for the
shape of the Python data).  Python 3.11, stdlib only, LZ4/Zstandard through ctypes.

Public API: RefError, ERRATA, VARIANTS, decode, encode, dump_from_model, model_from_dump.
"""
import ctypes
import hashlib
import struct
import sys

__all__ = ["RefError", "ERRATA", "VARIANTS", "decode", "encode",
           "dump_from_model", "model_from_dump"]


class RefError(Exception):
    pass


ERRATA = [
    "E01 chunk order: the 'File Structure' list (META, SSTR, INST*, PROP*, PRNT, END) is enforced as phases "
    "META < SSTR < {INST,PROP} < PRNT < END; inside the INST/PROP phase any interleaving is accepted as long as a PROP "
    "chunk comes after the INST chunk declaring its class id ('as defined in a preceding INST chunk'). Chunks with names "
    "not in the document are accepted anywhere before END and ignored for ordering.",
    "E02 every 'should' of the document is treated as a requirement by decode: at most one META, at most one SSTR, exactly one "
    "PRNT, exactly one END (last, uncompressed, payload '</roblox>'), header class count == number of INST chunks, header "
    "instance count == sum of INST instance counts == PRNT instance count, unique class ids, one PROP per (class, name), "
    "SSTR version 0, PRNT version 0, service markers all equal to 1, object format 0 or 1, Bool bytes 0/1, "
    "PhysicalProperties flag 0/1, unique META keys are NOT enforced ('should be unique' is about a map; duplicates kept in order).",
    "E03 the document does not say that referents in INST chunks must be unique or non-negative; decode requires both "
    "(a referent 'represents a specific Instance'; -1 is the null referent). PRNT children must be exactly the declared referents, "
    "each once; PRNT parents must be -1 or a declared referent; parent cycles are rejected. The document gives no ordering rule "
    "for PRNT rows (children-before-parents is NOT stated), so any row order is accepted and model_from_dump emits any order; "
    "sibling order is defined as PRNT row order.",
    "E04 referent accumulation: the document says 'read value plus the preceding one' without defining overflow; default is "
    "exact integer addition and a RefError if the running value leaves the i32 range; variant {'referent_overflow':'wrap'} wraps modulo 2^32 (decode and encode). Consequence of the literal reading: the sequence "
    "null (-1) followed by referent 2147483647 needs a delta of 2^31 which no Int32 can hold, so it is unencodable (encode raises) "
    "unless the wrap variant is used; model_from_dump therefore never assigns referent 2147483647 (max is 2147483646).",
    "E05 CFrame special ids: matrices are derived from the table as M = Ry(y)*Rx(x)*Rz(z) (angles (x,y,z) in degrees; this is the only "
    "order consistent with the OptionalCoordinateFrame worked example and with all 24 ids being distinct); zero entries are +0.0. "
    "An id that is neither 00 nor in the table is a RefError. Writing id 00 with a full matrix for an axis-aligned rotation is "
    "considered conformant (the document does not forbid it). PROP bodies of type CFrame/OptionalCFrame carry an extra key "
    "'rot_ids' (the id byte of every value) so that encode is an exact inverse; when absent encode picks the special id iff the nine "
    "floats match a table matrix bit-for-bit (with +0.0 zeros).",
    "E06 CFrame worked example: the Position bytes given decode to Y=1.1360581 (7f22d4b2 rotated) for the second value, not 5 as the "
    "prose 'CFrame.new(4, 5, 6)' says; the bytes are taken as authoritative for the self-test (X=4 and Z=6 do match).",
    "E07 Vector3int16 worked example '00 01 00 02 00 03 FF FF FE FF FD FF': the first value is written big-endian and the second "
    "little-endian; the text says little-endian, which is what is implemented (first value of the example decodes as 256,512,768).",
    "E08 Faces: the text lists the low six bits as 'Front, Bottom, Left, Back, Top, Right, in that order' and the example '01 18 26' "
    "implies Front=1,Bottom=2,Left=4,Back=8,Top=16,Right=32, which is the opposite of FORMAT.md (Right=1..Front=32). The wire value is "
    "the raw byte (0..255, the two meaningless bits are preserved) and no interpretation is done here.",
    "E09 Bytecode (type 0x1d) is in the document but not in REFCODEC_API's WIRETYPE list; it is decoded as {'t':'Bytecode','v':hex} "
    "with the String layout.",
    "E10 SecurityCapabilities (type 0x21) is NOT described in the document; it is assumed to have the Int64 layout (interleaved, "
    "big-endian, zig-zag) and the payload is the value modulo 2^64 (u64). Variants: {'securitycapabilities':'u64be'} = interleaved "
    "big-endian u64 without zig-zag; {'securitycapabilities':'unknown'} = treat 0x21 as an undocumented type (values None).",
    "E11 UniqueId: literal reading = 16-byte struct index:u32, time:u32, random:i64 in that order, little-endian ('integers are "
    "little endian unless otherwise specified'), 'no modifications', array interleaved with width 16 -> variant name "
    "'interleaved_le' (default). Alternatives via {'uniqueid': '<layout>_<endian>[_rotated|_zigzag][_rti]'} with layout in "
    "{interleaved, sequential}, endian in {le, be}; 'rotated' = random stored rotated left by one bit (sign bit last, like the Roblox "
    "float format), 'zigzag' = random stored with the integer transformation, 'rti' = field order random,time,index. "
    "E.g. 'interleaved_be_rotated', 'interleaved_be', 'interleaved_le_rotated', 'sequential_le'.",
    "E12 Font: the document does not say how arrays of Font are stored; values are written one after another, each as "
    "Family(String) Weight(u16 LE) Style(u8) CachedFaceId(String). An empty CachedFaceId maps to 'cached': null (and null/'' both "
    "encode to an empty string), so ''/null are not distinguishable. Weight/Style ranges are not checked. Strings must be UTF-8.",
    "E13 Content: SourceTypes 'Array(Enum)' is read literally as an Enum array (interleaved big-endian u32, no zig-zag), one per "
    "instance; variant {'content_sourcetypes':'zigzag'} reads it as an Int32 array (interleaved, zig-zag). UriCount/ObjectCount/"
    "ExternalObjectCount are plain little-endian u32. Uris are plain Strings in sequence (must be UTF-8), ObjectRefs and "
    "ExternalObjectRefs are accumulated referent arrays. decode requires count(type==1)==UriCount and count(type==2)==ObjectCount and "
    "source types in {0,1,2}; Uris/ObjectRefs are assigned to the Uri/Object items in order. External refs have no place in the "
    "wire value; if ExternalObjectCount != 0 they are kept in the PROP body as extra key 'content_external_refs'.",
    "E14 OptionalCoordinateFrame: a value whose Bool is 0 decodes to null and the CFrame stored for it is dropped (its id is still in "
    "'rot_ids'); encode writes id 02 (or the id in 'rot_ids' if it is a non-zero table id) and position 0,0,0 for null values. The inner "
    "type bytes must be exactly 10 and 02.",
    "E15 strings that the model exposes as str (class names, property names, META keys/values, Font strings, Content URIs) must be "
    "valid UTF-8 ('String values are UTF-8 encoded'), otherwise RefError; String/Bytecode property values are hex and may hold any bytes.",
    "E16 PROP chunk for a type id not in the document: 'values' is None, the undecoded rest is kept as extra key 'raw_values' (hex) and "
    "'trailing' is 0. A PROP chunk that ends right after the name has type_id None. Unconsumed bytes after a decoded value array are "
    "reported in 'trailing' and kept in extra key 'trailing_hex' (only when trailing > 0). Type ids 0x0f and 0x11 are not in the document.",
    "E17 dump_from_model: PROP chunks with values None are omitted from 'props'; an instance without a String 'Name' PROP gets name '' "
    "(a 'Name' PROP of another type is left in props under the key 'Name'); "
    "a non-null referent that is not declared by any INST chunk raises RefError unless dangling='null' is passed.",
    "E18 compression: the document does not restrict which chunks may be compressed except END; a compressed length of 0 means "
    "uncompressed, so an LZ4/ZSTD block is never empty. LZ4 = raw block format. For ZSTD the whole compressed body must be consumed "
    "by the frame decoder. The document does not say that Compressed Length must be smaller than Uncompressed Length (Studio writes "
    "META with 0x24 > 0x22).",
    "E19 SSTR: the MD5 field is not verified by decode ('isn't used by Roblox Studio'); model_from_dump writes the real MD5 of the "
    "content. SharedString indices must be < Shared String Count of an SSTR chunk that precedes the PROP chunk.",
    "E20 Float64 worked examples are absent; Float64 is read as plain little-endian IEEE-754, not interleaved, as the text says.",
]

VARIANTS = {
    "uniqueid": "interleaved_le",
    "content_sourcetypes": "enum",       # or "zigzag"
    "securitycapabilities": "int64",     # or "u64be", "unknown"
    "referent_overflow": "error",        # or "wrap"
    "bool": "strict",                    # or "nonzero" (any non-zero byte is true)
}


def _variant(v):
    out = dict(VARIANTS)
    if v:
        for k, val in v.items():
            if k not in VARIANTS:
                raise ValueError("unknown variant key %r" % (k,))
            out[k] = val
    _uid_spec(out["uniqueid"])
    if out["content_sourcetypes"] not in ("enum", "zigzag"):
        raise ValueError("bad content_sourcetypes variant")
    if out["securitycapabilities"] not in ("int64", "u64be", "unknown"):
        raise ValueError("bad securitycapabilities variant")
    if out["referent_overflow"] not in ("error", "wrap"):
        raise ValueError("bad referent_overflow variant")
    if out["bool"] not in ("strict", "nonzero"):
        raise ValueError("bad bool variant")
    return out


def _uid_spec(name):
    parts = name.split("_")
    if len(parts) < 2 or parts[0] not in ("interleaved", "sequential") or parts[1] not in ("le", "be"):
        raise ValueError("bad uniqueid variant %r" % (name,))
    transform, order = "none", "itr"
    for p in parts[2:]:
        if p in ("rotated", "zigzag"):
            transform = p
        elif p == "rti":
            order = "rti"
        else:
            raise ValueError("bad uniqueid variant %r" % (name,))
    return parts[0], parts[1], transform, order


# ----------------------------------------------------------------------------
# compression (ctypes)
# ----------------------------------------------------------------------------
_ZSTD_MAGIC = b"\x28\xb5\x2f\xfd"
_libs = {}


def _lz4():
    lib = _libs.get("lz4")
    if lib is None:
        lib = ctypes.CDLL("liblz4.so.1")
        lib.LZ4_decompress_safe.argtypes = [ctypes.c_char_p, ctypes.c_char_p, ctypes.c_int, ctypes.c_int]
        lib.LZ4_decompress_safe.restype = ctypes.c_int
        lib.LZ4_compress_default.argtypes = [ctypes.c_char_p, ctypes.c_char_p, ctypes.c_int, ctypes.c_int]
        lib.LZ4_compress_default.restype = ctypes.c_int
        lib.LZ4_compressBound.argtypes = [ctypes.c_int]
        lib.LZ4_compressBound.restype = ctypes.c_int
        _libs["lz4"] = lib
    return lib


def _zstd():
    lib = _libs.get("zstd")
    if lib is None:
        lib = ctypes.CDLL("libzstd.so.1")
        lib.ZSTD_decompress.argtypes = [ctypes.c_char_p, ctypes.c_size_t, ctypes.c_char_p, ctypes.c_size_t]
        lib.ZSTD_decompress.restype = ctypes.c_size_t
        lib.ZSTD_compress.argtypes = [ctypes.c_char_p, ctypes.c_size_t, ctypes.c_char_p, ctypes.c_size_t, ctypes.c_int]
        lib.ZSTD_compress.restype = ctypes.c_size_t
        lib.ZSTD_compressBound.argtypes = [ctypes.c_size_t]
        lib.ZSTD_compressBound.restype = ctypes.c_size_t
        lib.ZSTD_isError.argtypes = [ctypes.c_size_t]
        lib.ZSTD_isError.restype = ctypes.c_uint
        lib.ZSTD_getFrameContentSize.argtypes = [ctypes.c_char_p, ctypes.c_size_t]
        lib.ZSTD_getFrameContentSize.restype = ctypes.c_ulonglong
        try:
            lib.ZSTD_decompressBound.argtypes = [ctypes.c_char_p, ctypes.c_size_t]
            lib.ZSTD_decompressBound.restype = ctypes.c_ulonglong
            lib._has_bound = True
        except AttributeError:  # pragma: no cover - zstd < 1.4.0
            lib._has_bound = False
        _libs["zstd"] = lib
    return lib


def _compress(kind, payload):
    if kind == "none":
        return payload
    if kind == "lz4":
        lib = _lz4()
        cap = lib.LZ4_compressBound(len(payload)) + 16
        dst = ctypes.create_string_buffer(cap)
        n = lib.LZ4_compress_default(payload, dst, len(payload), cap)
        if n <= 0:
            raise RefError("LZ4 compression failed")
        return dst.raw[:n]
    if kind == "zstd":
        lib = _zstd()
        cap = lib.ZSTD_compressBound(len(payload)) + 16
        dst = ctypes.create_string_buffer(cap)
        n = lib.ZSTD_compress(dst, cap, payload, len(payload), 3)
        if lib.ZSTD_isError(n):
            raise RefError("ZSTD compression failed")
        return dst.raw[:n]
    if kind == "zstd-nosize":
        # one frame whose header omits the optional Frame_Content_Size field (what streaming encoders that are not
        # told the input size up front produce): still "a ZSTD frame following the magic number"
        lib = _zstd()
        lib.ZSTD_createCCtx.restype = ctypes.c_void_p
        lib.ZSTD_freeCCtx.argtypes = [ctypes.c_void_p]
        lib.ZSTD_CCtx_setParameter.argtypes = [ctypes.c_void_p, ctypes.c_int, ctypes.c_int]
        lib.ZSTD_CCtx_setParameter.restype = ctypes.c_size_t
        lib.ZSTD_compress2.argtypes = [ctypes.c_void_p, ctypes.c_char_p, ctypes.c_size_t, ctypes.c_char_p, ctypes.c_size_t]
        lib.ZSTD_compress2.restype = ctypes.c_size_t
        cctx = lib.ZSTD_createCCtx()
        try:
            if lib.ZSTD_isError(lib.ZSTD_CCtx_setParameter(cctx, 200, 0)):  # ZSTD_c_contentSizeFlag
                raise RefError("ZSTD: cannot clear the content size flag")
            cap = lib.ZSTD_compressBound(len(payload)) + 16
            dst = ctypes.create_string_buffer(cap)
            n = lib.ZSTD_compress2(cctx, dst, cap, payload, len(payload))
            if lib.ZSTD_isError(n):
                raise RefError("ZSTD compression failed")
            out = dst.raw[:n]
        finally:
            lib.ZSTD_freeCCtx(cctx)
        if lib.ZSTD_getFrameContentSize(out, len(out)) != 0xFFFFFFFFFFFFFFFF:  # ZSTD_CONTENTSIZE_UNKNOWN
            raise RefError("ZSTD: frame still carries a content size")
        return out
    raise RefError("unknown compression %r" % (kind,))


def _decompress(comp, ulen, what):
    """returns (kind, data)"""
    if comp[:4] == _ZSTD_MAGIC:
        lib = _zstd()
        fcs = lib.ZSTD_getFrameContentSize(comp, len(comp))
        if fcs == 0xFFFFFFFFFFFFFFFE:
            raise RefError("%s: invalid ZSTD frame header" % what)
        if fcs == 0xFFFFFFFFFFFFFFFF:
            if ulen > (1 << 24) and not lib._has_bound:
                raise RefError("%s: ZSTD frame of unknown size with uncompressed length %d; refusing" % (what, ulen))
        elif fcs > ulen:
            raise RefError("%s: ZSTD frame content size %d exceeds uncompressed length %d" % (what, fcs, ulen))
        if lib._has_bound:
            bound = lib.ZSTD_decompressBound(comp, len(comp))
            if bound == 0xFFFFFFFFFFFFFFFE:
                raise RefError("%s: invalid ZSTD frame" % what)
            if ulen > bound:
                raise RefError("%s: ZSTD data expands to at most %d bytes, uncompressed length says %d" % (what, bound, ulen))
        elif fcs != ulen and ulen > (1 << 24):
            raise RefError("%s: ZSTD first frame holds %d bytes, uncompressed length says %d; refusing" % (what, fcs, ulen))
        dst = ctypes.create_string_buffer(max(ulen, 1))
        n = lib.ZSTD_decompress(dst, ulen, comp, len(comp))
        if lib.ZSTD_isError(n):
            raise RefError("%s: ZSTD decompression failed" % what)
        if n != ulen:
            raise RefError("%s: ZSTD data expands to %d bytes, uncompressed length says %d" % (what, n, ulen))
        return "zstd", dst.raw[:ulen]
    if ulen > len(comp) * 255 + 64:
        raise RefError("%s: uncompressed length %d impossible for %d bytes of LZ4 data" % (what, ulen, len(comp)))
    lib = _lz4()
    dst = ctypes.create_string_buffer(max(ulen, 1))
    n = lib.LZ4_decompress_safe(comp, dst, len(comp), ulen)
    if n < 0:
        raise RefError("%s: LZ4 decompression failed" % what)
    if n != ulen:
        raise RefError("%s: LZ4 data expands to %d bytes, uncompressed length says %d" % (what, n, ulen))
    return "lz4", dst.raw[:ulen]


# ----------------------------------------------------------------------------
# primitive helpers
# ----------------------------------------------------------------------------
_U32 = 0xFFFFFFFF
_U64 = 0xFFFFFFFFFFFFFFFF


def _interleave(rows, w):
    """rows: n values of w bytes each, row-major -> column-major"""
    return b"".join(rows[k::w] for k in range(w))


def _zz32(x):
    if not -0x80000000 <= x <= 0x7FFFFFFF:
        raise RefError("value %r does not fit in i32" % (x,))
    return ((x << 1) ^ (x >> 31)) & _U32


def _zz64(x):
    if not -(1 << 63) <= x < (1 << 63):
        raise RefError("value %r does not fit in i64" % (x,))
    return ((x << 1) ^ (x >> 63)) & _U64


def _f32bits(h):
    if not isinstance(h, str) or len(h) != 8:
        raise RefError("bad f32 hex %r" % (h,))
    return int(h, 16)


def _f64bits(h):
    if not isinstance(h, str) or len(h) != 16:
        raise RefError("bad f64 hex %r" % (h,))
    return int(h, 16)


def _utf8(b, what):
    try:
        return b.decode("utf-8")
    except UnicodeDecodeError:
        raise RefError("%s: not valid UTF-8" % what) from None


def _pstr(b):
    return struct.pack("<I", len(b)) + b


class _R:
    """bounds-checked reader over bytes"""
    __slots__ = ("b", "p", "e", "v")

    def __init__(self, b, v):
        self.b = b
        self.p = 0
        self.e = len(b)
        self.v = v

    def rem(self):
        return self.e - self.p

    def take(self, n, what):
        p = self.p
        if n < 0 or self.e - p < n:
            raise RefError("%s: need %d bytes, only %d left" % (what, n, self.e - p))
        self.p = p + n
        return self.b[p:p + n]

    def u8(self, what):
        return self.take(1, what)[0]

    def u32(self, what):
        return struct.unpack("<I", self.take(4, what))[0]

    def string(self, what):
        n = self.u32(what + " length")
        return self.take(n, what + " data")

    def rows(self, n, w, what):
        """de-interleave n values of width w; returns row-major bytes"""
        raw = self.take(n * w, what)
        out = bytearray(n * w)
        for k in range(w):
            out[k::w] = raw[k * n:(k + 1) * n]
        return bytes(out)

    def u32be(self, n, what):
        return struct.unpack(">%dI" % n, self.rows(n, 4, what))

    def i32(self, n, what):
        return [(x >> 1) ^ -(x & 1) for x in self.u32be(n, what)]

    def f32(self, n, what):
        return ["%08x" % ((w >> 1) | ((w & 1) << 31)) for w in self.u32be(n, what)]

    def f32le(self, n, what):
        return ["%08x" % x for x in struct.unpack("<%dI" % n, self.take(4 * n, what))]

    def refs(self, n, what):
        out = []
        acc = 0
        wrap = self.v["referent_overflow"] == "wrap"
        for d in self.i32(n, what):
            acc += d
            if not -0x80000000 <= acc <= 0x7FFFFFFF:
                if not wrap:
                    raise RefError("%s: accumulated referent %d leaves the i32 range" % (what, acc))
                acc = ((acc + 0x80000000) & _U32) - 0x80000000
            out.append(acc)
        return out


def _enc_u32be(vals):
    return _interleave(struct.pack(">%dI" % len(vals), *vals), 4)


def _enc_i32(vals):
    return _enc_u32be([_zz32(x) for x in vals])


def _enc_f32(vals):
    ws = []
    for h in vals:
        b = _f32bits(h)
        ws.append(((b << 1) & _U32) | (b >> 31))
    return _enc_u32be(ws)


def _enc_f32le(vals):
    return struct.pack("<%dI" % len(vals), *[_f32bits(h) for h in vals])


def _enc_refs(vals, v=None):
    out = []
    prev = 0
    for x in vals:
        if not -0x80000000 <= x <= 0x7FFFFFFF:
            raise RefError("referent %r does not fit in i32" % (x,))
        d = x - prev
        if not -0x80000000 <= d <= 0x7FFFFFFF:
            # only reachable with negative referents, e.g. -1 followed by 2147483647 (see E04)
            if v is None or v["referent_overflow"] != "wrap":
                raise RefError("referent delta %d (from %d to %d) does not fit in an Int32; "
                               "only encodable with variant referent_overflow=wrap" % (d, prev, x))
            d = ((d + 0x80000000) & _U32) - 0x80000000
        out.append(d)
        prev = x
    return _enc_i32(out)


# ----------------------------------------------------------------------------
# CFrame special rotations, derived from the document's table
# ----------------------------------------------------------------------------
_ROT_ANGLES = {
    0x02: (0, 0, 0), 0x14: (0, 180, 0),
    0x03: (90, 0, 0), 0x15: (-90, -180, 0),
    0x05: (0, 180, 180), 0x17: (0, 0, 180),
    0x06: (-90, 0, 0), 0x18: (90, 180, 0),
    0x07: (0, 180, 90), 0x19: (0, 0, -90),
    0x09: (0, 90, 90), 0x1b: (0, -90, -90),
    0x0a: (0, 0, 90), 0x1c: (0, -180, -90),
    0x0c: (0, -90, 90), 0x1e: (0, 90, -90),
    0x0d: (-90, -90, 0), 0x1f: (90, 90, 0),
    0x0e: (0, -90, 0), 0x20: (0, 90, 0),
    0x10: (90, -90, 0), 0x22: (-90, 90, 0),
    0x11: (0, 90, 180), 0x23: (0, -90, 180),
}


def _build_rot_table():
    cos = {0: 1, 90: 0, 180: -1, 270: 0}
    sin = {0: 0, 90: 1, 180: 0, 270: -1}

    def mul(a, b):
        return [[sum(a[i][k] * b[k][j] for k in range(3)) for j in range(3)] for i in range(3)]

    hexes = {1: "3f800000", -1: "bf800000", 0: "00000000"}
    table = {}
    for rid, (ax, ay, az) in _ROT_ANGLES.items():
        cx, sx = cos[ax % 360], sin[ax % 360]
        cy, sy = cos[ay % 360], sin[ay % 360]
        cz, sz = cos[az % 360], sin[az % 360]
        rx = [[1, 0, 0], [0, cx, -sx], [0, sx, cx]]
        ry = [[cy, 0, sy], [0, 1, 0], [-sy, 0, cy]]
        rz = [[cz, -sz, 0], [sz, cz, 0], [0, 0, 1]]
        m = mul(mul(ry, rx), rz)
        table[rid] = tuple(hexes[m[i][j]] for i in range(3) for j in range(3))
    return table


_ROT_BY_ID = _build_rot_table()
_ID_BY_ROT = {rot: rid for rid, rot in _ROT_BY_ID.items()}


# ----------------------------------------------------------------------------
# value type codecs.  dec(r, n, body) -> list of payloads ; enc(vals, body, v) -> bytes
# ----------------------------------------------------------------------------
def _dec_string(r, n, body):
    return [r.string("String value").hex() for _ in range(n)]


def _enc_string(vals, body, v):
    return b"".join(_pstr(bytes.fromhex(s)) for s in vals)


def _dec_bool(r, n, body):
    raw = r.take(n, "Bool array")
    if r.v["bool"] == "strict":
        for i, b in enumerate(raw):
            if b > 1:
                raise RefError("Bool value #%d: byte 0x%02x is neither 00 nor 01" % (i, b))
    return [b != 0 for b in raw]


def _enc_bool(vals, body, v):
    for x in vals:
        if not isinstance(x, bool):
            raise RefError("Bool payload must be a JSON bool, got %r" % (x,))
    return bytes(1 if x else 0 for x in vals)


def _dec_int32(r, n, body):
    return r.i32(n, "Int32 array")


def _enc_int32(vals, body, v):
    return _enc_i32(vals)


def _dec_float32(r, n, body):
    return r.f32(n, "Float32 array")


def _enc_float32(vals, body, v):
    return _enc_f32(vals)


def _dec_float64(r, n, body):
    return ["%016x" % x for x in struct.unpack("<%dQ" % n, r.take(8 * n, "Float64 array"))]


def _enc_float64(vals, body, v):
    return struct.pack("<%dQ" % len(vals), *[_f64bits(h) for h in vals])


def _dec_udim(r, n, body):
    s = r.f32(n, "UDim Scale array")
    o = r.i32(n, "UDim Offset array")
    return [[s[i], o[i]] for i in range(n)]


def _enc_udim(vals, body, v):
    return _enc_f32([x[0] for x in vals]) + _enc_i32([x[1] for x in vals])


def _dec_udim2(r, n, body):
    xs = r.f32(n, "UDim2 X.Scale array")
    ys = r.f32(n, "UDim2 Y.Scale array")
    xo = r.i32(n, "UDim2 X.Offset array")
    yo = r.i32(n, "UDim2 Y.Offset array")
    return [[[xs[i], xo[i]], [ys[i], yo[i]]] for i in range(n)]


def _enc_udim2(vals, body, v):
    return (_enc_f32([x[0][0] for x in vals]) + _enc_f32([x[1][0] for x in vals]) +
            _enc_i32([x[0][1] for x in vals]) + _enc_i32([x[1][1] for x in vals]))


def _dec_ray(r, n, body):
    f = r.f32le(6 * n, "Ray array")
    return [f[6 * i:6 * i + 6] for i in range(n)]


def _enc_ray(vals, body, v):
    for x in vals:
        if len(x) != 6:
            raise RefError("Ray payload needs 6 floats")
    return _enc_f32le([h for x in vals for h in x])


def _dec_bytes(label):
    def dec(r, n, body):
        return list(r.take(n, label + " array"))
    return dec


def _enc_bytes(vals, body, v):
    for x in vals:
        if not isinstance(x, int) or not 0 <= x <= 255:
            raise RefError("byte payload out of range: %r" % (x,))
    return bytes(vals)


def _dec_u32be(label):
    def dec(r, n, body):
        return list(r.u32be(n, label + " array"))
    return dec


def _enc_u32(vals, body, v):
    for x in vals:
        if not isinstance(x, int) or not 0 <= x <= _U32:
            raise RefError("u32 payload out of range: %r" % (x,))
    return _enc_u32be(vals)


def _dec_fvec(k, label):
    def dec(r, n, body):
        cols = [r.f32(n, "%s component %d array" % (label, j)) for j in range(k)]
        return [[c[i] for c in cols] for i in range(n)]
    return dec


def _enc_fvec(k):
    def enc(vals, body, v):
        for x in vals:
            if len(x) != k:
                raise RefError("payload needs %d floats, got %r" % (k, x))
        return b"".join(_enc_f32([x[j] for x in vals]) for j in range(k))
    return enc


def _dec_cframe_core(r, n):
    ids = []
    rots = []
    for i in range(n):
        rid = r.u8("CFrame #%d id" % i)
        ids.append(rid)
        if rid == 0:
            rots.append(r.f32le(9, "CFrame #%d orientation" % i))
        else:
            rot = _ROT_BY_ID.get(rid)
            if rot is None:
                raise RefError("CFrame #%d: id 0x%02x is not 00 and not in the special-case table" % (i, rid))
            rots.append(list(rot))
    xs = r.f32(n, "CFrame Position.X array")
    ys = r.f32(n, "CFrame Position.Y array")
    zs = r.f32(n, "CFrame Position.Z array")
    return ids, [{"pos": [xs[i], ys[i], zs[i]], "rot": rots[i]} for i in range(n)]


def _enc_cframe_core(vals, ids):
    if ids is not None and len(ids) != len(vals):
        raise RefError("rot_ids length %d != number of values %d" % (len(ids), len(vals)))
    out = []
    for i, cf in enumerate(vals):
        rot = cf["rot"]
        if len(rot) != 9 or len(cf["pos"]) != 3:
            raise RefError("CFrame payload needs 9 rot and 3 pos floats")
        if ids is None:
            rid = _ID_BY_ROT.get(tuple(rot), 0)
        else:
            rid = ids[i]
            if rid != 0 and _ROT_BY_ID.get(rid) != tuple(rot):
                raise RefError("CFrame #%d: rot_ids entry 0x%02x does not denote the given rotation" % (i, rid))
        out.append(bytes([rid]))
        if rid == 0:
            out.append(_enc_f32le(rot))
    for j in range(3):
        out.append(_enc_f32([cf["pos"][j] for cf in vals]))
    return b"".join(out)


def _dec_cframe(r, n, body):
    ids, vals = _dec_cframe_core(r, n)
    body["rot_ids"] = ids
    return vals


def _enc_cframe(vals, body, v):
    return _enc_cframe_core(vals, body.get("rot_ids"))


_IDENT = {"pos": ["00000000"] * 3, "rot": list(_ROT_BY_ID[0x02])}


def _dec_optcframe(r, n, body):
    t = r.u8("OptionalCoordinateFrame inner CFrame type id")
    if t != 0x10:
        raise RefError("OptionalCoordinateFrame: inner type id is 0x%02x, expected 0x10" % t)
    ids, vals = _dec_cframe_core(r, n)
    t = r.u8("OptionalCoordinateFrame inner Bool type id")
    if t != 0x02:
        raise RefError("OptionalCoordinateFrame: presence type id is 0x%02x, expected 0x02" % t)
    flags = _dec_bool(r, n, body)
    body["rot_ids"] = ids
    return [vals[i] if flags[i] else None for i in range(n)]


def _enc_optcframe(vals, body, v):
    ids = body.get("rot_ids")
    if ids is not None:
        if len(ids) != len(vals):
            raise RefError("rot_ids length %d != number of values %d" % (len(ids), len(vals)))
        ids = list(ids)
    cfs = []
    for i, x in enumerate(vals):
        if x is None:
            rid = 0x02
            if ids is not None:
                if ids[i] in _ROT_BY_ID:
                    rid = ids[i]
                else:
                    ids[i] = rid
            cfs.append({"pos": ["00000000"] * 3, "rot": list(_ROT_BY_ID[rid])})
        else:
            cfs.append(x)
    return (b"\x10" + _enc_cframe_core(cfs, ids) + b"\x02" +
            bytes(0 if x is None else 1 for x in vals))


def _dec_refs(r, n, body):
    return r.refs(n, "Referent array")


def _enc_refs_t(vals, body, v):
    return _enc_refs(vals, v)


def _dec_v3i16(r, n, body):
    f = struct.unpack("<%dh" % (3 * n), r.take(6 * n, "Vector3int16 array"))
    return [list(f[3 * i:3 * i + 3]) for i in range(n)]


def _enc_v3i16(vals, body, v):
    for x in vals:
        if len(x) != 3:
            raise RefError("Vector3int16 payload needs 3 integers")
    return struct.pack("<%dh" % (3 * len(vals)), *[c for x in vals for c in x])


def _dec_seq(k, label):
    def dec(r, n, body):
        out = []
        for i in range(n):
            cnt = r.u32("%s #%d keypoint count" % (label, i))
            f = r.f32le(cnt * k, "%s #%d keypoints" % (label, i))
            out.append([f[k * j:k * j + k] for j in range(cnt)])
        return out
    return dec


def _enc_seq(k):
    def enc(vals, body, v):
        out = []
        for seq in vals:
            out.append(struct.pack("<I", len(seq)))
            for kp in seq:
                if len(kp) != k:
                    raise RefError("keypoint needs %d floats, got %r" % (k, kp))
            out.append(_enc_f32le([h for kp in seq for h in kp]))
        return b"".join(out)
    return enc


def _dec_numberrange(r, n, body):
    f = r.f32le(2 * n, "NumberRange array")
    return [f[2 * i:2 * i + 2] for i in range(n)]


def _enc_numberrange(vals, body, v):
    for x in vals:
        if len(x) != 2:
            raise RefError("NumberRange payload needs 2 floats")
    return _enc_f32le([h for x in vals for h in x])


def _dec_physprops(r, n, body):
    out = []
    for i in range(n):
        flag = r.u8("PhysicalProperties #%d flag" % i)
        if flag == 0:
            out.append(None)
        elif flag == 1:
            out.append(r.f32le(5, "PhysicalProperties #%d custom values" % i))
        else:
            raise RefError("PhysicalProperties #%d: flag byte 0x%02x is neither 00 nor 01" % (i, flag))
    return out


def _enc_physprops(vals, body, v):
    out = []
    for x in vals:
        if x is None:
            out.append(b"\x00")
        else:
            if len(x) != 5:
                raise RefError("PhysicalProperties payload needs 5 floats")
            out.append(b"\x01" + _enc_f32le(x))
    return b"".join(out)


def _dec_color3u8(r, n, body):
    rr = r.take(n, "Color3uint8 R array")
    gg = r.take(n, "Color3uint8 G array")
    bb = r.take(n, "Color3uint8 B array")
    return [[rr[i], gg[i], bb[i]] for i in range(n)]


def _enc_color3u8(vals, body, v):
    for x in vals:
        if len(x) != 3 or any((not isinstance(c, int)) or not 0 <= c <= 255 for c in x):
            raise RefError("Color3uint8 payload out of range: %r" % (x,))
    return bytes(x[0] for x in vals) + bytes(x[1] for x in vals) + bytes(x[2] for x in vals)


def _dec_int64(r, n, body):
    return [(x >> 1) ^ -(x & 1) for x in struct.unpack(">%dQ" % n, r.rows(n, 8, "Int64 array"))]


def _enc_int64(vals, body, v):
    return _interleave(struct.pack(">%dQ" % len(vals), *[_zz64(x) for x in vals]), 8)


def _dec_seccap(r, n, body):
    if r.v["securitycapabilities"] == "u64be":
        return list(struct.unpack(">%dQ" % n, r.rows(n, 8, "SecurityCapabilities array")))
    return [x & _U64 for x in _dec_int64(r, n, body)]


def _enc_seccap(vals, body, v):
    for x in vals:
        if not isinstance(x, int) or not 0 <= x <= _U64:
            raise RefError("SecurityCapabilities payload out of range: %r" % (x,))
    if v["securitycapabilities"] == "u64be":
        return _interleave(struct.pack(">%dQ" % len(vals), *vals), 8)
    return _enc_int64([x - (1 << 64) if x >> 63 else x for x in vals], body, v)


def _dec_uniqueid(r, n, body):
    layout, endian, transform, order = _uid_spec(r.v["uniqueid"])
    if layout == "interleaved":
        rows = r.rows(n, 16, "UniqueId array")
    else:
        rows = r.take(16 * n, "UniqueId array")
    e = "<" if endian == "le" else ">"
    fmt = e + ("IIQ" if order == "itr" else "QII") * n
    f = struct.unpack(fmt, rows)
    out = []
    for i in range(n):
        if order == "itr":
            idx, tm, rnd = f[3 * i:3 * i + 3]
        else:
            rnd, tm, idx = f[3 * i:3 * i + 3]
        if transform == "rotated":
            rnd = (rnd >> 1) | ((rnd & 1) << 63)
        elif transform == "zigzag":
            rnd = ((rnd >> 1) ^ -(rnd & 1)) & _U64
        if rnd >> 63:
            rnd -= 1 << 64
        out.append({"index": idx, "time": tm, "random": rnd})
    return out


def _enc_uniqueid(vals, body, v):
    layout, endian, transform, order = _uid_spec(v["uniqueid"])
    flat = []
    for u in vals:
        rnd = u["random"]
        if not -(1 << 63) <= rnd < (1 << 63):
            raise RefError("UniqueId random out of i64 range")
        if transform == "zigzag":
            rnd = _zz64(rnd)
        else:
            rnd &= _U64
            if transform == "rotated":
                rnd = ((rnd << 1) & _U64) | (rnd >> 63)
        if order == "itr":
            flat += [u["index"], u["time"], rnd]
        else:
            flat += [rnd, u["time"], u["index"]]
    e = "<" if endian == "le" else ">"
    rows = struct.pack(e + ("IIQ" if order == "itr" else "QII") * len(vals), *flat)
    return _interleave(rows, 16) if layout == "interleaved" else rows


def _dec_font(r, n, body):
    out = []
    for i in range(n):
        fam = _utf8(r.string("Font #%d Family" % i), "Font #%d Family" % i)
        weight, style = struct.unpack("<HB", r.take(3, "Font #%d Weight/Style" % i))
        cached = _utf8(r.string("Font #%d CachedFaceId" % i), "Font #%d CachedFaceId" % i)
        out.append({"family": fam, "weight": weight, "style": style, "cached": cached if cached else None})
    return out


def _enc_font(vals, body, v):
    out = []
    for f in vals:
        out.append(_pstr(f["family"].encode("utf-8")))
        out.append(struct.pack("<HB", f["weight"], f["style"]))
        out.append(_pstr((f.get("cached") or "").encode("utf-8")))
    return b"".join(out)


def _dec_content(r, n, body):
    if r.v["content_sourcetypes"] == "zigzag":
        st = r.i32(n, "Content SourceTypes array")
    else:
        st = r.u32be(n, "Content SourceTypes array")
    uc = r.u32("Content UriCount")
    uris = []
    for i in range(uc):
        uris.append(_utf8(r.string("Content Uri #%d" % i), "Content Uri #%d" % i))
    oc = r.u32("Content ObjectCount")
    objs = r.refs(oc, "Content ObjectRefs")
    ec = r.u32("Content ExternalObjectCount")
    exts = r.refs(ec, "Content ExternalObjectRefs")
    for i, t in enumerate(st):
        if t not in (0, 1, 2):
            raise RefError("Content #%d: SourceType %d is not None(0), Uri(1) or Object(2)" % (i, t))
    if sum(1 for t in st if t == 1) != uc:
        raise RefError("Content: UriCount %d != number of Uri source types %d" % (uc, sum(1 for t in st if t == 1)))
    if sum(1 for t in st if t == 2) != oc:
        raise RefError("Content: ObjectCount %d != number of Object source types %d" % (oc, sum(1 for t in st if t == 2)))
    out = []
    ui = oi = 0
    for t in st:
        if t == 0:
            out.append({"k": "None"})
        elif t == 1:
            out.append({"k": "Uri", "uri": uris[ui]})
            ui += 1
        else:
            out.append({"k": "Object", "ref": objs[oi]})
            oi += 1
    if ec:
        body["content_external_refs"] = exts
    return out


def _enc_content(vals, body, v):
    st, uris, objs = [], [], []
    for c in vals:
        k = c["k"]
        if k == "None":
            st.append(0)
        elif k == "Uri":
            st.append(1)
            uris.append(c["uri"].encode("utf-8"))
        elif k == "Object":
            st.append(2)
            objs.append(c["ref"])
        else:
            raise RefError("Content payload kind %r" % (k,))
    exts = body.get("content_external_refs") or []
    out = [_enc_i32(st) if v["content_sourcetypes"] == "zigzag" else _enc_u32be(st)]
    out.append(struct.pack("<I", len(uris)))
    out += [_pstr(u) for u in uris]
    out.append(struct.pack("<I", len(objs)))
    out.append(_enc_refs(objs, v))
    out.append(struct.pack("<I", len(exts)))
    out.append(_enc_refs(exts, v))
    return b"".join(out)


# type id -> (WIRETYPE, dec, enc)
_TYPES = {
    0x01: ("String", _dec_string, _enc_string),
    0x02: ("Bool", _dec_bool, _enc_bool),
    0x03: ("Int32", _dec_int32, _enc_int32),
    0x04: ("Float32", _dec_float32, _enc_float32),
    0x05: ("Float64", _dec_float64, _enc_float64),
    0x06: ("UDim", _dec_udim, _enc_udim),
    0x07: ("UDim2", _dec_udim2, _enc_udim2),
    0x08: ("Ray", _dec_ray, _enc_ray),
    0x09: ("Faces", _dec_bytes("Faces"), _enc_bytes),
    0x0a: ("Axes", _dec_bytes("Axes"), _enc_bytes),
    0x0b: ("BrickColor", _dec_u32be("BrickColor"), _enc_u32),
    0x0c: ("Color3", _dec_fvec(3, "Color3"), _enc_fvec(3)),
    0x0d: ("Vector2", _dec_fvec(2, "Vector2"), _enc_fvec(2)),
    0x0e: ("Vector3", _dec_fvec(3, "Vector3"), _enc_fvec(3)),
    0x10: ("CFrame", _dec_cframe, _enc_cframe),
    0x12: ("Enum", _dec_u32be("Enum"), _enc_u32),
    0x13: ("Ref", _dec_refs, _enc_refs_t),
    0x14: ("Vector3int16", _dec_v3i16, _enc_v3i16),
    0x15: ("NumberSequence", _dec_seq(3, "NumberSequence"), _enc_seq(3)),
    0x16: ("ColorSequence", _dec_seq(5, "ColorSequence"), _enc_seq(5)),
    0x17: ("NumberRange", _dec_numberrange, _enc_numberrange),
    0x18: ("Rect", _dec_fvec(4, "Rect"), _enc_fvec(4)),
    0x19: ("PhysicalProperties", _dec_physprops, _enc_physprops),
    0x1a: ("Color3uint8", _dec_color3u8, _enc_color3u8),
    0x1b: ("Int64", _dec_int64, _enc_int64),
    0x1c: ("SharedString", _dec_u32be("SharedString"), _enc_u32),
    0x1d: ("Bytecode", _dec_string, _enc_string),
    0x1e: ("OptionalCFrame", _dec_optcframe, _enc_optcframe),
    0x1f: ("UniqueId", _dec_uniqueid, _enc_uniqueid),
    0x20: ("Font", _dec_font, _enc_font),
    0x21: ("SecurityCapabilities", _dec_seccap, _enc_seccap),
    0x22: ("Content", _dec_content, _enc_content),
}
_TYPE_ID = {name: tid for tid, (name, _d, _e) in _TYPES.items()}


def _decode_values(tid, data, n, body, v):
    """decode n values of type tid from data; returns (values|None, trailing)"""
    ent = _TYPES.get(tid)
    if ent is None or (tid == 0x21 and v["securitycapabilities"] == "unknown"):
        return None, None
    r = _R(data, v)
    try:
        vals = ent[1](r, n, body)
    except struct.error as e:  # pragma: no cover - defensive
        raise RefError("value array: %s" % e) from None
    name = ent[0]
    return [{"t": name, "v": x} for x in vals], r.rem()


def _encode_values(tid, values, body, v):
    ent = _TYPES.get(tid)
    if ent is None:
        raise RefError("cannot encode values of undocumented type id %r" % (tid,))
    name = ent[0]
    payloads = []
    for i, wv in enumerate(values):
        if wv.get("t") != name:
            raise RefError("PROP %r value #%d has type %r, chunk type is %s" % (body.get("name"), i, wv.get("t"), name))
        payloads.append(wv["v"])
    return ent[2](payloads, body, v)


# ----------------------------------------------------------------------------
# file level: decode
# ----------------------------------------------------------------------------
_MAGIC = b"<roblox!"
_SIGNATURE = b"\x89\xff\x0d\x0a\x1a\x0a"
_END_PAYLOAD = b"</roblox>"
_PHASE = {"META": 0, "SSTR": 1, "INST": 2, "PROP": 2, "PRNT": 3, "END\x00": 4}


def _dec_meta(data, v):
    r = _R(data, v)
    n = r.u32("META entry count")
    entries = []
    for i in range(n):
        k = _utf8(r.string("META entry #%d key" % i), "META entry #%d key" % i)
        val = _utf8(r.string("META entry #%d value" % i), "META entry #%d value" % i)
        entries.append([k, val])
    if r.rem():
        raise RefError("META: %d bytes left after %d entries" % (r.rem(), n))
    return {"entries": entries}


def _dec_sstr(data, v):
    r = _R(data, v)
    ver = r.u32("SSTR version")
    if ver != 0:
        raise RefError("SSTR version is %d, expected 0" % ver)
    n = r.u32("SSTR string count")
    strings = []
    for i in range(n):
        h = r.take(16, "SSTR entry #%d MD5 hash" % i)
        s = r.string("SSTR entry #%d string" % i)
        strings.append({"hash": h.hex(), "data": s.hex()})
    if r.rem():
        raise RefError("SSTR: %d bytes left after %d strings" % (r.rem(), n))
    return {"version": ver, "strings": strings}


def _dec_inst(data, v):
    r = _R(data, v)
    cid = r.u32("INST class id")
    cname = _utf8(r.string("INST class name"), "INST class name")
    fmt = r.u8("INST object format")
    if fmt not in (0, 1):
        raise RefError("INST %r: object format %d is neither 0 nor 1" % (cname, fmt))
    n = r.u32("INST instance count")
    if n * 4 > r.rem():
        raise RefError("INST %r: instance count %d needs %d referent bytes, only %d left" % (cname, n, 4 * n, r.rem()))
    refs = r.refs(n, "INST %r referents" % cname)
    markers = None
    if fmt == 1:
        markers = list(r.take(n, "INST %r service markers" % cname))
        for i, m in enumerate(markers):
            if m != 1:
                raise RefError("INST %r: service marker #%d is %d, expected 1" % (cname, i, m))
    if r.rem():
        raise RefError("INST %r: %d bytes left at end of chunk" % (cname, r.rem()))
    return {"class_id": cid, "class_name": cname, "format": fmt, "referents": refs, "markers": markers}


def _dec_prop(data, classes, sstr_count, v):
    r = _R(data, v)
    cid = r.u32("PROP class id")
    cls = classes.get(cid)
    if cls is None:
        raise RefError("PROP class id %d is not declared by a preceding INST chunk" % cid)
    name = _utf8(r.string("PROP property name"), "PROP property name")
    body = {"class_id": cid, "name": name, "type_id": None, "values": None, "trailing": 0}
    if r.rem() == 0:
        return body
    tid = r.u8("PROP type id")
    body["type_id"] = tid
    rest = data[r.p:]
    try:
        vals, trailing = _decode_values(tid, rest, len(cls["referents"]), body, v)
    except RefError as e:
        raise RefError("PROP %s.%s (type 0x%02x): %s" % (cls["class_name"], name, tid, e)) from None
    if vals is None:
        body["raw_values"] = rest.hex()
        return body
    body["values"] = vals
    body["trailing"] = trailing
    if trailing:
        body["trailing_hex"] = rest[len(rest) - trailing:].hex()
    if tid == 0x1c:
        for i, wv in enumerate(vals):
            if sstr_count is None:
                raise RefError("PROP %s.%s: SharedString value but no preceding SSTR chunk" % (cls["class_name"], name))
            if wv["v"] >= sstr_count:
                raise RefError("PROP %s.%s: SharedString index %d (value #%d) >= SSTR count %d"
                               % (cls["class_name"], name, wv["v"], i, sstr_count))
    return body


def _dec_prnt(data, v):
    r = _R(data, v)
    ver = r.u8("PRNT version")
    if ver != 0:
        raise RefError("PRNT version is %d, expected 0" % ver)
    n = r.u32("PRNT instance count")
    if n * 8 > r.rem():
        raise RefError("PRNT: instance count %d needs %d bytes, only %d left" % (n, 8 * n, r.rem()))
    children = r.refs(n, "PRNT child referents")
    parents = r.refs(n, "PRNT parent referents")
    if r.rem():
        raise RefError("PRNT: %d bytes left at end of chunk" % r.rem())
    return {"version": ver, "children": children, "parents": parents}


def _check_hierarchy(insts, prnt, num_instances):
    declared = set()
    for b in insts:
        for x in b["referents"]:
            declared.add(x)
    children, parents = prnt["children"], prnt["parents"]
    if len(children) != num_instances:
        raise RefError("PRNT instance count %d != header instance count %d" % (len(children), num_instances))
    parent_of = {}
    for c, p in zip(children, parents):
        if c not in declared:
            raise RefError("PRNT child referent %d is not declared by any INST chunk" % c)
        if c in parent_of:
            raise RefError("PRNT child referent %d appears more than once" % c)
        if p != -1 and p not in declared:
            raise RefError("PRNT parent referent %d (of child %d) is not declared by any INST chunk" % (p, c))
        parent_of[c] = p
    if len(parent_of) != len(declared):
        raise RefError("PRNT describes %d instances, INST chunks declare %d" % (len(parent_of), len(declared)))
    # cycles
    state = {}
    for start in parent_of:
        if start in state:
            continue
        path = []
        x = start
        while x != -1 and x not in state:
            state[x] = 1
            path.append(x)
            x = parent_of[x]
        if x != -1 and state[x] == 1:
            raise RefError("PRNT: parent cycle through referent %d" % x)
        for y in path:
            state[y] = 2


def decode(data, variant=None):
    """bytes -> wire model (strict).  `variant`: dict of alternative readings, see VARIANTS / ERRATA."""
    v = _variant(variant)
    data = bytes(data)
    if len(data) < 32:
        raise RefError("file header: only %d bytes, need 32" % len(data))
    if data[:8] != _MAGIC:
        raise RefError("file header: magic number is %r, expected %r" % (data[:8], _MAGIC))
    if data[8:14] != _SIGNATURE:
        raise RefError("file header: signature is %s, expected 89ff0d0a1a0a" % data[8:14].hex())
    version, ncls, ninst = struct.unpack("<Hii", data[14:24])
    if version != 0:
        raise RefError("file header: version is %d, expected 0" % version)
    if ncls < 0:
        raise RefError("file header: class count %d is negative" % ncls)
    if ninst < 0:
        raise RefError("file header: instance count %d is negative" % ninst)
    if data[24:32] != b"\0" * 8:
        raise RefError("file header: reserved bytes are %s, expected zeros" % data[24:32].hex())

    chunks = []
    classes = {}      # class id -> INST body
    insts = []
    referents = set()
    props_seen = set()
    sstr_count = None
    counts = {"META": 0, "SSTR": 0, "PRNT": 0}
    prnt = None
    phase = -1
    phase_name = None
    pos = 32
    total = len(data)
    while True:
        idx = len(chunks)
        if pos == total:
            raise RefError("file ends after chunk #%d without an END chunk" % (idx - 1))
        if total - pos < 16:
            raise RefError("chunk #%d: header truncated (%d bytes left)" % (idx, total - pos))
        rawname = data[pos:pos + 4]
        clen, ulen = struct.unpack("<II", data[pos + 4:pos + 12])
        reserved = struct.unpack("<I", data[pos + 12:pos + 16])[0]
        name = rawname.decode("latin-1")
        what = "chunk #%d (%r)" % (idx, name)
        if reserved != 0:
            raise RefError("%s: reserved field is 0x%08x, expected 0" % (what, reserved))
        pos += 16
        if clen == 0:
            if total - pos < ulen:
                raise RefError("%s: uncompressed length %d exceeds the %d bytes left in the file" % (what, ulen, total - pos))
            payload = data[pos:pos + ulen]
            pos += ulen
            comp = "none"
        else:
            if total - pos < clen:
                raise RefError("%s: compressed length %d exceeds the %d bytes left in the file" % (what, clen, total - pos))
            comp, payload = _decompress(data[pos:pos + clen], ulen, what)
            pos += clen
        ph = _PHASE.get(name)
        if ph is not None:
            if ph < phase:
                raise RefError("%s: chunk order violation, %s chunk after %s chunk" % (what, name.rstrip("\0"), phase_name))
            if ph > phase:
                phase, phase_name = ph, name.rstrip("\0")
        try:
            if name == "META":
                counts["META"] += 1
                if counts["META"] > 1:
                    raise RefError("more than one META chunk")
                body = _dec_meta(payload, v)
            elif name == "SSTR":
                counts["SSTR"] += 1
                if counts["SSTR"] > 1:
                    raise RefError("more than one SSTR chunk")
                body = _dec_sstr(payload, v)
                sstr_count = len(body["strings"])
            elif name == "INST":
                body = _dec_inst(payload, v)
                if body["class_id"] in classes:
                    raise RefError("INST class id %d declared twice" % body["class_id"])
                for x in body["referents"]:
                    if x < 0:
                        raise RefError("INST %r: referent %d is negative" % (body["class_name"], x))
                    if x in referents:
                        raise RefError("INST %r: referent %d declared twice" % (body["class_name"], x))
                    referents.add(x)
                classes[body["class_id"]] = body
                insts.append(body)
            elif name == "PROP":
                body = _dec_prop(payload, classes, sstr_count, v)
                key = (body["class_id"], body["name"])
                if key in props_seen:
                    raise RefError("PROP %s.%s appears more than once"
                                   % (classes[body["class_id"]]["class_name"], body["name"]))
                props_seen.add(key)
            elif name == "PRNT":
                counts["PRNT"] += 1
                if counts["PRNT"] > 1:
                    raise RefError("more than one PRNT chunk")
                body = _dec_prnt(payload, v)
                prnt = body
            elif name == "END\x00":
                if clen != 0:
                    raise RefError("END chunk is compressed (compressed length %d)" % clen)
                if payload != _END_PAYLOAD:
                    raise RefError("END chunk payload is %r, expected %r" % (payload, _END_PAYLOAD))
                body = {"payload": payload.hex()}
            else:
                body = {"raw": payload.hex()}
        except RefError as e:
            msg = str(e)
            if not msg.startswith("chunk #"):
                msg = "%s: %s" % (what, msg)
            raise RefError(msg) from None
        chunks.append({"name": name, "compression": comp, "compressed_len": clen, "len": ulen,
                       "reserved": reserved, "body": body})
        if name == "END\x00":
            break
    if pos != total:
        raise RefError("%d bytes after the END chunk" % (total - pos))
    if len(insts) != ncls:
        raise RefError("file header: class count %d != number of INST chunks %d" % (ncls, len(insts)))
    if len(referents) != ninst:
        raise RefError("file header: instance count %d != instances declared by INST chunks %d" % (ninst, len(referents)))
    if prnt is None:
        raise RefError("no PRNT chunk")
    _check_hierarchy(insts, prnt, ninst)
    return {"num_classes": ncls, "num_instances": ninst, "chunks": chunks}


# ----------------------------------------------------------------------------
# file level: encode
# ----------------------------------------------------------------------------
def _enc_body(ch, v):
    name = ch["name"]
    b = ch["body"]
    if "raw" in b:
        return bytes.fromhex(b["raw"])
    if name == "META":
        out = [struct.pack("<I", len(b["entries"]))]
        for k, val in b["entries"]:
            out.append(_pstr(k.encode("utf-8")))
            out.append(_pstr(val.encode("utf-8")))
        return b"".join(out)
    if name == "SSTR":
        out = [struct.pack("<II", b["version"], len(b["strings"]))]
        for s in b["strings"]:
            h = bytes.fromhex(s["hash"])
            if len(h) != 16:
                raise RefError("SSTR hash must be 16 bytes")
            out.append(h)
            out.append(_pstr(bytes.fromhex(s["data"])))
        return b"".join(out)
    if name == "INST":
        out = [struct.pack("<I", b["class_id"]), _pstr(b["class_name"].encode("utf-8")),
               struct.pack("<BI", b["format"], len(b["referents"])), _enc_refs(b["referents"], v)]
        if b.get("markers") is not None:
            out.append(bytes(b["markers"]))
        return b"".join(out)
    if name == "PROP":
        out = [struct.pack("<I", b["class_id"]), _pstr(b["name"].encode("utf-8"))]
        if b.get("type_id") is None:
            return b"".join(out)
        out.append(bytes([b["type_id"]]))
        if b.get("values") is None:
            out.append(bytes.fromhex(b.get("raw_values", "")))
        else:
            out.append(_encode_values(b["type_id"], b["values"], b, v))
            if b.get("trailing_hex"):
                out.append(bytes.fromhex(b["trailing_hex"]))
        return b"".join(out)
    if name == "PRNT":
        if len(b["children"]) != len(b["parents"]):
            raise RefError("PRNT children/parents length mismatch")
        return (struct.pack("<BI", b["version"], len(b["children"])) +
                _enc_refs(b["children"], v) + _enc_refs(b["parents"], v))
    if name == "END\x00":
        return bytes.fromhex(b["payload"])
    raise RefError("chunk %r: body has no 'raw' key" % (name,))


def _enc_chunk(ch, v, update=False):
    name = ch["name"].encode("latin-1")
    if len(name) != 4:
        raise RefError("chunk name %r is not 4 bytes" % (ch["name"],))
    payload = _enc_body(ch, v)
    wire = bytes.fromhex(ch["raw_payload"]) if "raw_payload" in ch else _compress("zstd-nosize" if ch.get("compression") == "zstd" and ch.get("zstd_form") == "nosize" else ch.get("compression", "none"), payload)
    if ch.get("raw_header"):
        clen, ulen, reserved = ch["compressed_len"], ch["len"], ch["reserved"]
    else:
        clen = 0 if ch.get("compression", "none") == "none" else len(wire)
        ulen = len(payload)
        reserved = 0
        if update:
            ch["compressed_len"], ch["len"], ch["reserved"] = clen, ulen, reserved
    return name + struct.pack("<III", clen, ulen, reserved) + wire


def encode(model, variant=None):
    """wire model -> bytes.  Chunk header lengths are recomputed unless the chunk carries "raw_header": true
    (then compressed_len/len/reserved are written verbatim); "raw_payload": hex overrides the on-wire chunk data;
    a body {"raw": hex} is accepted for every chunk name."""
    v = _variant(variant)
    try:
        out = [_MAGIC, _SIGNATURE, struct.pack("<Hii", 0, model["num_classes"], model["num_instances"]), b"\0" * 8]
        for ch in model["chunks"]:
            out.append(_enc_chunk(ch, v))
        return b"".join(out)
    except (struct.error, KeyError, TypeError, ValueError, IndexError, AttributeError) as e:
        raise RefError("encode: invalid model: %s: %s" % (type(e).__name__, e)) from None


# ----------------------------------------------------------------------------
# dump view
# ----------------------------------------------------------------------------
def _cp(x):
    if isinstance(x, dict):
        return {k: _cp(val) for k, val in x.items()}
    if isinstance(x, list):
        return [_cp(val) for val in x]
    return x


def dump_from_model(model, dangling="error"):
    """wire model -> wire-level dump (FORMAT.md).  dangling: "error" | "null" for referents not declared by any INST."""
    sstr = None
    insts = []
    props = []
    prnt = None
    for ch in model["chunks"]:
        n = ch["name"]
        if n == "SSTR":
            sstr = ch["body"]["strings"]
        elif n == "INST":
            insts.append(ch["body"])
        elif n == "PROP":
            props.append(ch["body"])
        elif n == "PRNT":
            if prnt is not None:
                raise RefError("dump_from_model: more than one PRNT chunk")
            prnt = ch["body"]
    if prnt is None:
        raise RefError("dump_from_model: no PRNT chunk")
    nodes = {}
    classes = {}
    for b in insts:
        if b["class_id"] in classes:
            raise RefError("dump_from_model: class id %d declared twice" % b["class_id"])
        classes[b["class_id"]] = b
        for x in b["referents"]:
            if x in nodes:
                raise RefError("dump_from_model: referent %d declared twice" % x)
            nodes[x] = {"class": b["class_name"], "name": "", "props": {}, "children": []}
    # hierarchy
    roots = []
    placed = set()
    for c, p in zip(prnt["children"], prnt["parents"]):
        if c not in nodes:
            raise RefError("dump_from_model: PRNT child %d not declared" % c)
        if c in placed:
            raise RefError("dump_from_model: PRNT child %d appears twice" % c)
        placed.add(c)
        if p == -1:
            roots.append(c)
        elif p in nodes:
            nodes[p]["children"].append(c)
        else:
            raise RefError("dump_from_model: PRNT parent %d not declared" % p)
    if len(placed) != len(nodes):
        raise RefError("dump_from_model: %d instances have no PRNT row" % (len(nodes) - len(placed)))
    paths = {}
    stack = [(r, [i]) for i, r in enumerate(roots)]
    while stack:
        x, path = stack.pop()
        paths[x] = path
        for i, c in enumerate(nodes[x]["children"]):
            stack.append((c, path + [i]))
    if len(paths) != len(nodes):
        raise RefError("dump_from_model: %d instances are not reachable from a root (parent cycle)" % (len(nodes) - len(paths)))

    def ref_path(x, what):
        if x == -1:
            return None
        p = paths.get(x)
        if p is None:
            if dangling == "null":
                return None
            raise RefError("dump_from_model: %s refers to undeclared referent %d" % (what, x))
        return list(p)

    seen = set()
    for b in props:
        cls = classes.get(b["class_id"])
        if cls is None:
            raise RefError("dump_from_model: PROP %r for undeclared class id %d" % (b["name"], b["class_id"]))
        key = (b["class_id"], b["name"])
        if key in seen:
            raise RefError("dump_from_model: PROP %s.%s appears twice" % (cls["class_name"], b["name"]))
        seen.add(key)
        vals = b.get("values")
        if vals is None:
            continue
        refs = cls["referents"]
        if len(vals) != len(refs):
            raise RefError("dump_from_model: PROP %s.%s has %d values for %d instances"
                           % (cls["class_name"], b["name"], len(vals), len(refs)))
        pname = b["name"]
        what = "%s.%s" % (cls["class_name"], pname)
        for x, wv in zip(refs, vals):
            t = wv["t"]
            node = nodes[x]
            if pname == "Name" and t == "String":
                node["name"] = bytes.fromhex(wv["v"]).decode("utf-8", errors="replace")
                continue
            if t == "Ref":
                out = {"t": "Ref", "v": ref_path(wv["v"], what)}
            elif t == "SharedString":
                if sstr is None or not 0 <= wv["v"] < len(sstr):
                    raise RefError("dump_from_model: %s SharedString index %r out of range" % (what, wv["v"]))
                out = {"t": "SharedString", "v": sstr[wv["v"]]["data"]}
            elif t == "Content" and wv["v"].get("k") == "Object":
                out = {"t": "Content", "v": {"k": "Object", "ref": ref_path(wv["v"]["ref"], what)}}
            else:
                out = {"t": t, "v": _cp(wv["v"])}
            node["props"][pname] = out

    def build(x):
        # iterative to survive deep trees
        root = nodes[x]
        stack = [root]
        while stack:
            nd = stack.pop()
            kids = [nodes[c] for c in nd["children"]]
            nd["children"] = kids
            stack.extend(kids)
        return root

    return {"roots": [build(r) for r in roots]}


# ----------------------------------------------------------------------------
# model_from_dump
# ----------------------------------------------------------------------------
_KNOWN_NAMES = {"META", "SSTR", "INST", "PROP", "PRNT", "END\x00"}


def model_from_dump(dump, rng, opts=None):
    """wire-level dump -> conformant wire model, randomising every freedom with rng (random.Random).

    opts: {"services": [class names written as format-1 INST chunks],
           "force": {"compression": "none"|"lz4"|"zstd",
                     "class_ids": "dense"|"shuffled"|"sparse",
                     "referents": "dense"|"shuffled"|"sparse",
                     "chunk_order": "grouped"|"interleaved",
                     "prnt_order": "random"|"preorder"|"postorder",
                     "meta": bool, "extra_chunks": bool,
                     "cframe_ids": "special"|"full"|"random"}}
    """
    opts = opts or {}
    force = opts.get("force") or {}
    services = set(opts.get("services") or ())
    v = _variant(None)

    # flatten (preorder, iterative)
    flat = []        # (node, parent index)
    path_index = {}
    stack = [(nd, -1, (i,)) for i, nd in reversed(list(enumerate(dump["roots"])))]
    while stack:
        nd, par, path = stack.pop()
        idx = len(flat)
        flat.append((nd, par))
        path_index[path] = idx
        for i, c in reversed(list(enumerate(nd["children"]))):
            stack.append((c, idx, path + (i,)))
    n = len(flat)

    # referents
    mode = force.get("referents") or rng.choice(["dense", "shuffled", "sparse", "sparse"])
    if mode == "dense":
        referents = list(range(n))
    elif mode == "shuffled":
        base = rng.randrange(0, 1000)
        referents = list(range(base, base + n))
        rng.shuffle(referents)
    elif mode == "sparse":
        hi = rng.choice([1 << 10, 1 << 20, 1 << 31])
        hi = max(hi, 4 * n + 4)
        top = (1 << 31) - 2   # 2^31-1 is avoided: the delta from a null referent (-1) to it does not fit in an Int32 (E04)
        referents = rng.sample(range(min(hi, top + 1)), n)
        if n and rng.random() < 0.3:
            if top not in referents:
                referents[rng.randrange(n)] = top
    else:
        raise ValueError("bad force.referents %r" % (mode,))

    def ref_of(path, what):
        if path is None:
            return -1
        idx = path_index.get(tuple(path))
        if idx is None:
            raise RefError("model_from_dump: %s: path %r does not designate an instance" % (what, path))
        return referents[idx]

    # classes
    by_class = {}
    for idx, (nd, _par) in enumerate(flat):
        by_class.setdefault(nd["class"], []).append(idx)
    class_names = list(by_class)
    rng.shuffle(class_names)
    k = len(class_names)
    mode = force.get("class_ids") or rng.choice(["dense", "shuffled", "sparse"])
    if mode == "dense":
        class_ids = list(range(k))
    elif mode == "shuffled":
        class_ids = list(range(k))
        rng.shuffle(class_ids)
    elif mode == "sparse":
        class_ids = rng.sample(range(1 << 32), k)
        if k and rng.random() < 0.2:
            if _U32 not in class_ids:
                class_ids[rng.randrange(k)] = _U32
    else:
        raise ValueError("bad force.class_ids %r" % (mode,))

    # shared strings
    sstr_index = {}
    for nd, _par in flat:
        for pv in nd["props"].values():
            if pv["t"] == "SharedString" and pv["v"] not in sstr_index:
                sstr_index[pv["v"]] = None
    sstr_list = list(sstr_index)
    rng.shuffle(sstr_list)
    for i, h in enumerate(sstr_list):
        sstr_index[h] = i

    def comp():
        return force.get("compression") or rng.choice(["none", "lz4", "zstd"])

    def chunk(name, body, compression=None):
        return {"name": name, "compression": compression or comp(), "compressed_len": 0, "len": 0,
                "reserved": 0, "body": body}

    cf_mode = force.get("cframe_ids") or "random"
    if cf_mode not in ("special", "full", "random"):
        raise ValueError("bad force.cframe_ids %r" % (cf_mode,))

    def pick_rot_id(cf):
        if cf is None:
            return 0x02
        rid = _ID_BY_ROT.get(tuple(cf["rot"]), 0)
        if rid and (cf_mode == "full" or (cf_mode == "random" and rng.random() < 0.25)):
            rid = 0
        return rid

    inst_chunks = []
    prop_chunks = {}   # class id -> [chunk]
    for cname, cid in zip(class_names, class_ids):
        members = list(by_class[cname])
        rng.shuffle(members)
        is_service = cname in services
        inst_chunks.append(chunk("INST", {
            "class_id": cid, "class_name": cname, "format": 1 if is_service else 0,
            "referents": [referents[i] for i in members],
            "markers": [1] * len(members) if is_service else None}))
        first = flat[members[0]][0]
        pnames = list(first["props"])
        schema = {p: first["props"][p]["t"] for p in pnames}
        if "Name" in schema:
            raise RefError("model_from_dump: 'Name' must not be a key of props (class %s)" % cname)
        for i in members:
            nd = flat[i][0]
            if set(nd["props"]) != set(pnames):
                raise RefError("model_from_dump: instances of class %s carry different property sets" % cname)
            for p in pnames:
                if nd["props"][p]["t"] != schema[p]:
                    raise RefError("model_from_dump: %s.%s has differing types %s/%s"
                                   % (cname, p, schema[p], nd["props"][p]["t"]))
        pnames.append("Name")
        rng.shuffle(pnames)
        plist = []
        for p in pnames:
            if p == "Name":
                body = {"class_id": cid, "name": "Name", "type_id": 0x01,
                        "values": [{"t": "String", "v": flat[i][0]["name"].encode("utf-8").hex()} for i in members],
                        "trailing": 0}
                plist.append(chunk("PROP", body))
                continue
            t = schema[p]
            tid = _TYPE_ID.get(t)
            if tid is None:
                raise RefError("model_from_dump: %s.%s: %r is not a wire type" % (cname, p, t))
            what = "%s.%s" % (cname, p)
            vals = []
            for i in members:
                pv = flat[i][0]["props"][p]["v"]
                if t == "Ref":
                    vals.append({"t": t, "v": ref_of(pv, what)})
                elif t == "SharedString":
                    vals.append({"t": t, "v": sstr_index[pv]})
                elif t == "Content" and pv.get("k") == "Object":
                    vals.append({"t": t, "v": {"k": "Object", "ref": ref_of(pv["ref"], what)}})
                else:
                    vals.append({"t": t, "v": _cp(pv)})
            body = {"class_id": cid, "name": p, "type_id": tid, "values": vals, "trailing": 0}
            if t in ("CFrame", "OptionalCFrame"):
                body["rot_ids"] = [pick_rot_id(wv["v"]) for wv in vals]
            plist.append(chunk("PROP", body))
        prop_chunks[cid] = plist

    # INST / PROP ordering
    mode = force.get("chunk_order") or rng.choice(["grouped", "interleaved", "interleaved"])
    if mode == "grouped":
        seq = list(inst_chunks)
        for ch in inst_chunks:
            seq.extend(prop_chunks[ch["body"]["class_id"]])
        if rng.random() < 0.5:
            tail = seq[len(inst_chunks):]
            rng.shuffle(tail)
            seq[len(inst_chunks):] = tail
    elif mode == "interleaved":
        seq = list(inst_chunks)
        allprops = [pc for lst in prop_chunks.values() for pc in lst]
        rng.shuffle(allprops)
        for pc in allprops:
            cid = pc["body"]["class_id"]
            at = next(i for i, ch in enumerate(seq) if ch["name"] == "INST" and ch["body"]["class_id"] == cid)
            seq.insert(rng.randint(at + 1, len(seq)), pc)
    else:
        raise ValueError("bad force.chunk_order %r" % (mode,))

    # PRNT
    mode = force.get("prnt_order") or rng.choice(["random", "random", "preorder", "postorder"])
    parent_idx = [par for _nd, par in flat]
    if mode == "preorder":
        order = list(range(n))
    elif mode == "postorder":
        kids = [[] for _ in range(n)]
        top = []
        for i, par in enumerate(parent_idx):
            (top if par < 0 else kids[par]).append(i)
        order = []
        stack = [(r, False) for r in reversed(top)]
        while stack:
            x, done = stack.pop()
            if done:
                order.append(x)
            else:
                stack.append((x, True))
                for c in reversed(kids[x]):
                    stack.append((c, False))
    elif mode == "random":
        order = list(range(n))
        rng.shuffle(order)
        slots = {}
        for pos, i in enumerate(order):
            slots.setdefault(parent_idx[i], []).append(pos)
        for poss in slots.values():
            sibs = sorted(order[p] for p in poss)
            for p, s in zip(poss, sibs):
                order[p] = s
    else:
        raise ValueError("bad force.prnt_order %r" % (mode,))
    prnt = chunk("PRNT", {"version": 0,
                          "children": [referents[i] for i in order],
                          "parents": [referents[parent_idx[i]] if parent_idx[i] >= 0 else -1 for i in order]})

    chunks = []
    want_meta = force["meta"] if "meta" in force else rng.random() < 0.6
    if want_meta:
        entries = [["ExplicitAutoJoints", rng.choice(["true", "false"])]]
        for j in range(rng.randrange(0, 3)):
            entries.append(["Key%dé" % j, "".join(rng.choice("abc 中xyz") for _ in range(rng.randrange(0, 6)))])
        rng.shuffle(entries)
        chunks.append(chunk("META", {"entries": entries}))
    if sstr_list:
        # the 16-byte hash field "isn't used by Roblox Studio when loading the file" (E19): besides the real MD5 a
        # writer may leave zeros, one placeholder for every entry, or anything else there, and entries with DIFFERENT
        # contents may then carry EQUAL hash fields - a reader must go by the index alone
        hm = force.get("sstr_hash") or rng.choice(["md5", "md5", "md5", "zeros", "placeholder", "placeholder", "random", "pairs"])
        def _h(k, h):
            if hm == "zeros":
                return "00" * 16
            if hm == "placeholder":
                return "a5" * 16
            if hm == "random":
                return "%032x" % rng.getrandbits(128)
            if hm == "pairs":
                return "%032x" % (0x1234 + k // 2)
            return hashlib.md5(bytes.fromhex(h)).hexdigest()
        chunks.append(chunk("SSTR", {"version": 0, "strings": [
            {"hash": _h(k, h), "data": h} for k, h in enumerate(sstr_list)]}))
    chunks.extend(seq)
    chunks.append(prnt)
    want_extra = force["extra_chunks"] if "extra_chunks" in force else rng.random() < 0.3
    if want_extra:
        for _ in range(rng.randrange(1, 3)):
            while True:
                nm = "".join(rng.choice("ABCDEFGHIJKLMNOPQRSTUVWXYZabcdefghijklmnopqrstuvwxyz0123456789") for _ in range(4))
                if nm not in _KNOWN_NAMES and nm != "END\x00":
                    break
            raw = bytes(rng.randrange(256) for _ in range(rng.randrange(0, 40)))
            chunks.insert(rng.randint(0, len(chunks)), chunk(nm, {"raw": raw.hex()}))
    chunks.append(chunk("END\x00", {"payload": _END_PAYLOAD.hex()}, compression="none"))
    for ch in chunks:
        _enc_chunk(ch, v, update=True)
    return {"num_classes": len(inst_chunks), "num_instances": n, "chunks": chunks}


# ----------------------------------------------------------------------------
# self-test
# ----------------------------------------------------------------------------
def _hx(s):
    return bytes.fromhex(s.replace(" ", ""))


def _f(x):
    """python float -> f32 hex"""
    return struct.pack(">f", x).hex()


def _st_values(tid, data, n, variant=None):
    v = _variant(variant)
    body = {}
    vals, trailing = _decode_values(tid, data, n, body, v)
    assert trailing == 0, ("trailing", tid, trailing)
    payloads = [wv["v"] for wv in vals]
    back = _encode_values(tid, vals, body, v)
    assert back == data, ("re-encode mismatch", hex(tid), back.hex(), data.hex())
    return payloads, body


def _selftest_examples():
    cnt = 0

    def ck(tid, hexs, n, expect, variant=None):
        nonlocal cnt
        got, body = _st_values(tid, _hx(hexs), n, variant)
        assert got == expect, (hex(tid), got, expect)
        cnt += 1
        return body

    # UDim
    ck(0x06, "7f 80 00 80 00 00 00 00 00 00 00 00 00 00 04 08", 2, [[_f(1.0), 2], [_f(3.0), 4]])
    # UDim2
    ck(0x07, "7e 80 00 00 7f 80 00 01 00 00 00 3b 00 00 00 78", 1, [[[_f(0.75), -30], [_f(-1.5), 60]]])
    # Faces / Axes (raw bytes, see E08)
    ck(0x09, "01 18 26", 3, [0x01, 0x18, 0x26])
    ck(0x0a, "01 03 05", 3, [1, 3, 5])
    # BrickColor
    ck(0x0b, "00 00 00 00 00 00 03 00 03 EC 25 F2", 3, [1004, 37, 1010])
    # Color3
    ck(0x0c, "7f 00 00 00 7e 69 69 6a 7b 41 41 42", 1, [[_f(1.0), _f(180 / 255), _f(20 / 255)]])
    # Vector2
    ck(0x0d, "85 86 93 91 33 19 35 9a 86 85 91 93 19 33 9a 35", 2,
       [[_f(-100.80), _f(200.55)], [_f(200.55), _f(-100.80)]])
    # Vector3
    ck(0x0e, "7F 7F 00 00 00 00 00 01 80 80 00 00 00 00 00 01 80 80 80 80 00 00 00 01", 2,
       [[_f(1), _f(2), _f(3)], [_f(-1), _f(-2), _f(-3)]])
    # CFrame (bytes authoritative, see E06)
    cf_hex = ("02 00 4B C0 07 3E 08 9C 75 3D 95 46 7D 3F 1D 25 90 BE 58 6C 74 BF 84 C5 C3 3D 1E 4A 73 3F 6F 19 95 BE "
              "9F A6 E0 BD 7F 81 00 00 00 00 00 00 80 7F 00 22 00 D4 00 B2 80 81 80 80 00 00 00 00")
    got, body = _st_values(0x10, _hx(cf_hex), 2)
    assert body["rot_ids"] == [2, 0]
    assert got[0] == {"pos": [_f(1), _f(2), _f(3)], "rot": [_f(1), _f(0), _f(0), _f(0), _f(1), _f(0), _f(0), _f(0), _f(1)]}
    assert got[1]["pos"][0] == _f(4) and got[1]["pos"][2] == _f(6) and got[1]["pos"][1] == "3f916a59"
    assert got[1]["rot"] == ["%08x" % x for x in struct.unpack("<9I", _hx(cf_hex)[2:38])]
    cnt += 1
    # Vector3int16: second value of the example is little-endian as the text says; first value is not (E07)
    ck(0x14, "00 01 00 02 00 03 FF FF FE FF FD FF", 2, [[256, 512, 768], [-1, -2, -3]])
    ck(0x14, "01 00 02 00 03 00 FF FF FE FF FD FF", 2, [[1, 2, 3], [-1, -2, -3]])
    # NumberSequence
    z, h, o = _f(0), _f(0.5), _f(1)
    ck(0x15, "03 00 00 00 00 00 00 00 00 00 00 00 00 00 00 00 00 00 00 3f 00 00 80 3f 00 00 00 00 00 00 80 3f 00 00 80 3f "
             "00 00 00 3f 03 00 00 00 00 00 00 00 00 00 80 3f 00 00 00 00 00 00 00 3f 00 00 00 3f 00 00 00 3f 00 00 80 3f "
             "00 00 00 3f 00 00 00 00", 2,
       [[[z, z, z], [h, o, z], [o, o, h]], [[z, o, z], [h, h, h], [o, h, z]]])
    # ColorSequence
    ck(0x16, "03 00 00 00 00 00 00 00 00 00 80 3f 00 00 80 3f 00 00 80 3f 00 00 00 00 00 00 00 3f 00 00 00 00 00 00 00 00 "
             "00 00 00 00 00 00 00 00 00 00 80 3f 00 00 80 3f 00 00 80 3f 00 00 80 3f 00 00 00 00 03 00 00 00 00 00 00 00 "
             "00 00 80 3f 00 00 00 00 00 00 00 00 00 00 00 00 00 00 00 3f 00 00 00 00 00 00 80 3f 00 00 00 00 00 00 00 00 "
             "00 00 80 3f 00 00 00 00 00 00 00 00 00 00 80 3f 00 00 00 00", 2,
       [[[z, o, o, o, z], [h, z, z, z, z], [o, o, o, o, z]], [[z, o, z, z, z], [h, z, o, z, z], [o, z, z, o, z]]])
    # NumberRange
    ck(0x17, "00 00 00 00 00 00 00 3f 00 00 00 3f 00 00 80 3f", 2, [[z, h], [h, o]])
    # Rect
    ck(0x18, "7f 00 00 00 00 00 01 00 82 7f 40 00 00 00 01 00 82 81 00 40 00 00 00 00 82 81 20 80 00 00 00 00", 2,
       [[_f(-1), _f(-10), _f(8), _f(9)], [_f(0), _f(1), _f(5), _f(6)]])
    # PhysicalProperties
    ck(0x19, "00 01 33 33 33 3f 9a 99 99 3e 00 00 00 3f 00 00 80 3f 00 00 80 3f", 2,
       [None, [_f(0.7), _f(0.3), _f(0.5), _f(1), _f(1)]])
    # Color3uint8
    ck(0x1a, "00 3f ff 00 ff 7f", 2, [[0, 255, 255], [63, 0, 127]])
    # OptionalCoordinateFrame
    body = ck(0x1e, "10 0a 02 00 00 00 00 00 00 00 00 00 00 00 00 00 00 00 00 7f 00 00 00 00 00 00 00 02 01 00", 2,
              [{"pos": [z, z, o], "rot": [_f(0), _f(-1), _f(0), _f(1), _f(0), _f(0), _f(0), _f(0), _f(1)]}, None])
    assert body["rot_ids"] == [0x0a, 0x02]
    # Roblox float format: -0.15625 <-> 7c 40 00 01
    ck(0x04, "7c 40 00 01", 1, ["be200000"])
    assert _f(-0.15625) == "be200000"
    # Referent accumulation
    raw = _enc_i32([1619, 1, 4, 2, 3, 5])
    ck(0x13, raw.hex(), 6, [1619, 1620, 1624, 1626, 1629, 1634])
    # referent overflow (E04): literal reading rejects, wrap variant round-trips
    wrapv = _variant({"referent_overflow": "wrap"})
    edge = [{"t": "Ref", "v": -1}, {"t": "Ref", "v": 0x7FFFFFFF}]
    try:
        _encode_values(0x13, edge, {}, _variant(None))
        raise AssertionError("overflowing referent delta accepted")
    except RefError:
        pass
    raw = _encode_values(0x13, edge, {}, wrapv)
    assert _decode_values(0x13, raw, 2, {}, wrapv)[0] == edge
    try:
        _decode_values(0x13, raw, 2, {}, _variant(None))
        raise AssertionError("overflowing referent accumulation accepted")
    except RefError:
        pass
    cnt += 1
    # Byte interleaving example
    assert _interleave(_hx("A0 A1 B0 B1 C0 C1"), 2) == _hx("A0 B0 C0 A1 B1 C1")
    r = _R(_hx("A0 B0 C0 D0 A1 B1 C1 D1 A2 B2 C2 D2 A3 B3 C3 D3"), _variant(None))
    assert r.rows(4, 4, "x") == _hx("A0 A1 A2 A3 B0 B1 B2 B3 C0 C1 C2 C3 D0 D1 D2 D3")
    cnt += 2
    # integer transformation
    for x, t in [(0, 0), (1, 2), (-1, 1), (2, 4), (-2, 3), (0x7FFFFFFF, 0xFFFFFFFE), (-0x80000000, 0xFFFFFFFF)]:
        assert _zz32(x) == t and ((t >> 1) ^ -(t & 1)) == x
        assert _zz32(x) == (2 * x if x >= 0 else 2 * abs(x) - 1)
    for x in (0, 1, -1, (1 << 63) - 1, -(1 << 63), 123456789012345, -98765432109876):
        t = _zz64(x)
        assert t == (2 * x if x >= 0 else 2 * abs(x) - 1) and ((t >> 1) ^ -(t & 1)) == x
    cnt += 1
    # rotation table sanity: 24 distinct proper rotations; ids follow 1 + 6*axis(X column) + axis(Y column)
    assert len(_ROT_BY_ID) == 24 and len(_ID_BY_ROT) == 24
    val = {"3f800000": 1, "bf800000": -1, "00000000": 0}
    normals = [(1, 0, 0), (0, 1, 0), (0, 0, 1), (-1, 0, 0), (0, -1, 0), (0, 0, -1)]
    for rid, rot in _ROT_BY_ID.items():
        m = [val[h] for h in rot]
        det = (m[0] * (m[4] * m[8] - m[5] * m[7]) - m[1] * (m[3] * m[8] - m[5] * m[6]) + m[2] * (m[3] * m[7] - m[4] * m[6]))
        assert det == 1, rid
        xcol, ycol = (m[0], m[3], m[6]), (m[1], m[4], m[7])
        assert rid == 1 + 6 * normals.index(xcol) + normals.index(ycol), hex(rid)
    cnt += 1
    return cnt


_POOL_STR = ["", "a", "Part", "héllo", "中文", "x" * 40, "with\x00nul", "line\nbreak"]


def _rand_f32(rng):
    c = rng.random()
    if c < 0.3:
        return rng.choice(["00000000", "80000000", "3f800000", "bf800000", "7f800000", "ff800000", "7fc00000",
                           "ffc00001", "7f800001", "00000001", "80000001", "7f7fffff"])
    if c < 0.6:
        return _f(rng.uniform(-1000, 1000))
    return "%08x" % rng.getrandbits(32)


def _rand_f64(rng):
    if rng.random() < 0.3:
        return rng.choice(["0000000000000000", "8000000000000000", "7ff0000000000000", "7ff8000000000001", "3ff0000000000000"])
    return "%016x" % rng.getrandbits(64)


def _rand_i(rng, bits):
    c = rng.random()
    lo, hi = -(1 << (bits - 1)), (1 << (bits - 1)) - 1
    if c < 0.3:
        return rng.choice([0, 1, -1, lo, hi, lo + 1, hi - 1])
    if c < 0.6:
        return rng.randint(-1000, 1000)
    return rng.randint(lo, hi)


def _rand_u32(rng):
    return rng.choice([0, 1, 255, 256, 1004, _U32, 0x80000000, rng.getrandbits(32), rng.getrandbits(10)])


def _rand_bytes_hex(rng):
    c = rng.random()
    if c < 0.2:
        return ""
    if c < 0.6:
        return rng.choice(_POOL_STR).encode("utf-8").hex()
    return bytes(rng.getrandbits(8) for _ in range(rng.randrange(0, 50))).hex()


def _rand_cframe(rng):
    if rng.random() < 0.6:
        rot = list(_ROT_BY_ID[rng.choice(sorted(_ROT_BY_ID))])
        if rng.random() < 0.1:
            rot[rot.index("00000000")] = "80000000"   # -0.0: must not be matched to a special id
    else:
        rot = [_rand_f32(rng) for _ in range(9)]
    return {"pos": [_rand_f32(rng) for _ in range(3)], "rot": rot}


def _rand_wire(rng, t, paths, sstrs):
    """random wire-level dump value of type t"""
    if t in ("String", "Bytecode"):
        return _rand_bytes_hex(rng)
    if t == "Bool":
        return rng.random() < 0.5
    if t == "Int32":
        return _rand_i(rng, 32)
    if t == "Int64":
        return _rand_i(rng, 64)
    if t == "Float32":
        return _rand_f32(rng)
    if t == "Float64":
        return _rand_f64(rng)
    if t == "UDim":
        return [_rand_f32(rng), _rand_i(rng, 32)]
    if t == "UDim2":
        return [[_rand_f32(rng), _rand_i(rng, 32)], [_rand_f32(rng), _rand_i(rng, 32)]]
    if t == "Ray":
        return [_rand_f32(rng) for _ in range(6)]
    if t in ("Faces", "Axes"):
        return rng.randrange(256)
    if t in ("BrickColor", "Enum"):
        return _rand_u32(rng)
    if t in ("Color3", "Vector3"):
        return [_rand_f32(rng) for _ in range(3)]
    if t == "Vector2":
        return [_rand_f32(rng) for _ in range(2)]
    if t == "Rect":
        return [_rand_f32(rng) for _ in range(4)]
    if t == "NumberRange":
        return [_rand_f32(rng) for _ in range(2)]
    if t == "CFrame":
        return _rand_cframe(rng)
    if t == "OptionalCFrame":
        return None if rng.random() < 0.4 else _rand_cframe(rng)
    if t == "Ref":
        return None if (not paths or rng.random() < 0.3) else list(rng.choice(paths))
    if t == "Vector3int16":
        return [_rand_i(rng, 16) for _ in range(3)]
    if t == "NumberSequence":
        return [[_rand_f32(rng) for _ in range(3)] for _ in range(rng.randrange(0, 4))]
    if t == "ColorSequence":
        return [[_rand_f32(rng) for _ in range(5)] for _ in range(rng.randrange(0, 4))]
    if t == "PhysicalProperties":
        return None if rng.random() < 0.5 else [_rand_f32(rng) for _ in range(5)]
    if t == "Color3uint8":
        return [rng.randrange(256) for _ in range(3)]
    if t == "SharedString":
        return rng.choice(sstrs)
    if t == "UniqueId":
        return {"index": _rand_u32(rng), "time": _rand_u32(rng), "random": _rand_i(rng, 64)}
    if t == "Font":
        return {"family": rng.choice(["rbxasset://fonts/families/SourceSansPro.json", "", "é中"]),
                "weight": rng.choice([100, 400, 700, 900, 0, 65535]), "style": rng.choice([0, 1, 255]),
                "cached": rng.choice([None, "rbxasset://fonts/x.ttf", "ü"])}
    if t == "SecurityCapabilities":
        return rng.choice([0, 1, _U64, 1 << 63, rng.getrandbits(64)])
    if t == "Content":
        c = rng.random()
        if c < 0.3:
            return {"k": "None"}
        if c < 0.7:
            return {"k": "Uri", "uri": rng.choice(["rbxassetid://123", "", "http://example.com/é"])}
        return {"k": "Object", "ref": None if (not paths or rng.random() < 0.3) else list(rng.choice(paths))}
    raise AssertionError(t)


_ALL_TYPES = [name for _tid, (name, _d, _e) in sorted(_TYPES.items())]


def _rand_dump(rng, all_types=False):
    """random wire-level dump; returns (dump, services)"""
    ncls = rng.randrange(1, 5)
    cnames = rng.sample(["Folder", "Part", "Model", "Workspace", "Lighting", "ObjectValue", "Sçript", "X"], ncls)
    schemas = {}
    for i, c in enumerate(cnames):
        if all_types and i == 0:
            types = list(_ALL_TYPES)
        else:
            types = rng.sample(_ALL_TYPES, rng.randrange(0, 7))
        schemas[c] = {("%s_%d" % (t, j) if rng.random() < 0.8 else "p é%d" % j): t for j, t in enumerate(types)}
    n = rng.choice([0, 1, 2, 5, 12, 30]) if not all_types else rng.choice([1, 3, 9])
    nodes = []
    roots = []
    for i in range(n):
        c = cnames[0] if (all_types and i == 0) else rng.choice(cnames)
        nd = {"class": c, "name": rng.choice(_POOL_STR), "props": {}, "children": []}
        if nodes and rng.random() < 0.8:
            rng.choice(nodes)["children"].append(nd)
        else:
            roots.append(nd)
        nodes.append(nd)
    paths = []
    stack = [(nd, [i]) for i, nd in enumerate(roots)]
    while stack:
        nd, p = stack.pop()
        paths.append(p)
        for i, ch in enumerate(nd["children"]):
            stack.append((ch, p + [i]))
    sstrs = [_rand_bytes_hex(rng) for _ in range(3)]
    for nd in nodes:
        for pname, t in schemas[nd["class"]].items():
            nd["props"][pname] = {"t": t, "v": _rand_wire(rng, t, paths, sstrs)}
    services = [c for c in cnames if c in ("Workspace", "Lighting")]
    return {"roots": roots}, services


def _selftest_roundtrip(seeds=150):
    import random
    n_models = 0
    n_values = 0
    # (a) value-array level: every type, several lengths, default + alternative variants
    rng = random.Random(1234)
    variants = [None, {"uniqueid": "interleaved_be_rotated"}, {"uniqueid": "sequential_be_zigzag_rti"},
                {"uniqueid": "interleaved_le_rotated"}, {"content_sourcetypes": "zigzag"},
                {"securitycapabilities": "u64be"}]
    for tid, (name, _d, _e) in sorted(_TYPES.items()):
        for var in variants:
            v = _variant(var)
            for n in (0, 1, 2, 7, 33):
                vals = []
                for _ in range(n):
                    pv = _rand_wire(rng, name, [], ["00"])
                    if name == "Ref":
                        pv = rng.choice([-1, 0, 5, (1 << 31) - 2, rng.getrandbits(31) % ((1 << 31) - 1)])
                    elif name == "SharedString":
                        pv = rng.getrandbits(32)
                    elif name == "Content" and pv["k"] == "Object":
                        pv = {"k": "Object", "ref": rng.choice([-1, 0, rng.getrandbits(31) % ((1 << 31) - 1)])}
                    vals.append({"t": name, "v": pv})
                body = {}
                raw = _encode_values(tid, vals, body, v)
                body2 = {}
                got, trailing = _decode_values(tid, raw, n, body2, v)
                if name == "Font":
                    for wv in vals:
                        if wv["v"]["cached"] == "":
                            wv["v"]["cached"] = None
                assert trailing == 0 and got == vals, (name, var, n)
                assert _encode_values(tid, got, body2, v) == raw, (name, var, n)
                # truncation must raise, never crash
                if raw:
                    try:
                        _decode_values(tid, raw[:-1], n, {}, v)
                        ok = False
                    except RefError:
                        ok = True
                    assert ok, ("truncated array accepted", name, n)
                n_values += n
    # (b) dump -> model -> bytes -> model -> dump, every compression forced and free
    for seed in range(seeds):
        rng = random.Random(seed)
        dump, services = _rand_dump(rng, all_types=(seed % 3 == 0))
        opts = {"services": services}
        if seed % 4 != 3:
            opts["force"] = {"compression": ["none", "lz4", "zstd"][seed % 4]}
        if seed % 7 == 0:
            opts.setdefault("force", {})["prnt_order"] = "postorder"
        model = model_from_dump(dump, rng, opts)
        data = encode(model)
        back = decode(data)
        assert back == model, ("model round trip", seed)
        assert encode(back) == data, ("byte round trip", seed)
        assert dump_from_model(back) == dump, ("dump round trip", seed)
        for ch in back["chunks"]:
            if ch["name"] == "PROP":
                assert ch["body"]["trailing"] == 0 and ch["body"]["values"] is not None
            if "compression" in opts.get("force", {}) and ch["name"] != "END\x00":
                assert ch["compression"] == opts["force"]["compression"]
            if ch["name"] == "INST" and ch["body"]["class_name"] in services:
                assert ch["body"]["format"] == 1 and ch["body"]["markers"] == [1] * len(ch["body"]["referents"])
        n_models += 1
    return n_models, n_values


def _iter_nodes(dump):
    stack = list(dump["roots"])
    while stack:
        nd = stack.pop()
        yield nd
        stack.extend(nd["children"])


def _selftest_negative():
    """each mutation of a valid file must raise RefError (and nothing else)"""
    import random
    rng = random.Random(99)
    for seed in range(3, 100):
        dump, services = _rand_dump(random.Random(seed), all_types=True)
        if sum(1 for _ in _iter_nodes(dump)) >= 3:
            break
    model = model_from_dump(dump, rng, {"force": {"compression": "none", "meta": True, "extra_chunks": False,
                                                  "chunk_order": "grouped"}})
    good = encode(model)
    decode(good)
    cnt = 0

    def bad(data, needle):
        nonlocal cnt
        try:
            decode(data)
        except RefError as e:
            assert needle in str(e), (needle, str(e))
            cnt += 1
            return
        raise AssertionError("accepted: " + needle)

    bad(b"<roblox?" + good[8:], "magic")
    bad(good[:8] + b"\x89\xff\x0d\x0a\x1a\x0b" + good[14:], "signature")
    bad(good[:14] + b"\x01\x00" + good[16:], "version")
    bad(good[:24] + b"\x01" + good[25:], "reserved")
    bad(good[:16] + struct.pack("<i", model["num_classes"] + 1) + good[20:], "class count")
    bad(good[:20] + struct.pack("<i", model["num_instances"] + 1) + good[24:], "instance count")
    bad(good + b"\x00", "after the END chunk")
    bad(good[:-1], "exceeds")
    bad(good[:-25], "without an END chunk")
    bad(good[:-20], "header truncated")
    bad(good[:32 + 12] + b"\x01\x00\x00\x00" + good[32 + 16:], "reserved field")
    bad(good[:-1] + b"?", "END chunk payload")

    def rebuilt(mut):
        m = _cp(model)
        mut(m)
        return encode(m)

    def idx(m, name, k=0):
        return [i for i, ch in enumerate(m["chunks"]) if ch["name"] == name][k]

    def m_end_compressed(m):
        m["chunks"][-1]["compression"] = "lz4"
    bad(rebuilt(m_end_compressed), "END chunk is compressed")

    def m_prop_before_inst(m):
        i = idx(m, "PROP")
        ch = m["chunks"].pop(i)
        m["chunks"].insert(idx(m, "INST"), ch)
    bad(rebuilt(m_prop_before_inst), "not declared by a preceding INST")

    def m_two_meta(m):
        m["chunks"].insert(1, _cp(m["chunks"][idx(m, "META")]))
    bad(rebuilt(m_two_meta), "more than one META")

    def m_meta_late(m):
        m["chunks"].insert(idx(m, "PRNT"), m["chunks"].pop(idx(m, "META")))
    bad(rebuilt(m_meta_late), "chunk order")

    def m_no_prnt(m):
        m["chunks"].pop(idx(m, "PRNT"))
    bad(rebuilt(m_no_prnt), "no PRNT")

    def m_prnt_version(m):
        m["chunks"][idx(m, "PRNT")]["body"]["version"] = 1
    bad(rebuilt(m_prnt_version), "PRNT version")

    def m_prnt_cycle(m):
        b = m["chunks"][idx(m, "PRNT")]["body"]
        b["parents"][0] = b["children"][0]
    bad(rebuilt(m_prnt_cycle), "cycle")

    def m_prnt_dup(m):
        b = m["chunks"][idx(m, "PRNT")]["body"]
        b["children"][0] = b["children"][1]
    bad(rebuilt(m_prnt_dup), "more than once")

    def m_dup_prop(m):
        i = idx(m, "PROP")
        m["chunks"].insert(i + 1, _cp(m["chunks"][i]))
    bad(rebuilt(m_dup_prop), "appears more than once")

    def m_inst_format(m):
        m["chunks"][idx(m, "INST")]["body"]["format"] = 2
    bad(rebuilt(m_inst_format), "object format")

    def m_inst_marker(m):
        b = m["chunks"][idx(m, "INST")]["body"]
        b["format"] = 1
        b["markers"] = [0] * len(b["referents"])
    bad(rebuilt(m_inst_marker), "service marker")

    def m_inst_dup_class(m):
        ch = _cp(m["chunks"][idx(m, "INST")])
        ch["body"]["referents"] = []
        m["chunks"].insert(idx(m, "INST") + 1, ch)
    bad(rebuilt(m_inst_dup_class), "declared twice")

    def m_inst_trailing(m):
        ch = m["chunks"][idx(m, "INST")]
        ch["body"] = {"raw": (_enc_body(ch, _variant(None)) + b"\x00").hex()}
    bad(rebuilt(m_inst_trailing), "bytes left at end of chunk")

    def m_len_mismatch(m):
        ch = m["chunks"][idx(m, "INST")]
        _enc_chunk(ch, _variant(None), update=True)
        ch["compression"] = "lz4"
        ch["raw_header"] = True
        ch["compressed_len"] = len(_compress("lz4", _enc_body(ch, _variant(None))))
        ch["len"] += 1
    bad(rebuilt(m_len_mismatch), "LZ4")

    def m_zstd_len(m):
        ch = m["chunks"][idx(m, "INST")]
        _enc_chunk(ch, _variant(None), update=True)
        ch["compression"] = "zstd"
        ch["raw_header"] = True
        ch["compressed_len"] = len(_compress("zstd", _enc_body(ch, _variant(None))))
        ch["len"] += 1
    bad(rebuilt(m_zstd_len), "ZSTD")

    # non-raising oddities the API asks for: PROP ending after the name; unknown type id; trailing bytes
    def m_prop_short(m):
        b = m["chunks"][idx(m, "PROP")]["body"]
        b["type_id"] = None
        b["values"] = None
        b.pop("rot_ids", None)
    mm = decode(rebuilt(m_prop_short))
    b = mm["chunks"][idx(mm, "PROP")]["body"]
    assert b["type_id"] is None and b["values"] is None and b["trailing"] == 0
    cnt += 1

    def m_prop_unknown(m):
        b = m["chunks"][idx(m, "PROP")]["body"]
        b["type_id"] = 0x0f
        b["values"] = None
        b["raw_values"] = "0102"
        b.pop("rot_ids", None)
    mm = decode(rebuilt(m_prop_unknown))
    b = mm["chunks"][idx(mm, "PROP")]["body"]
    assert b["type_id"] == 0x0f and b["values"] is None and b["raw_values"] == "0102"
    assert encode(mm) == rebuilt(m_prop_unknown)
    cnt += 1

    def m_prop_trailing(m):
        for ch in m["chunks"]:
            if ch["name"] == "PROP" and ch["body"]["type_id"] == 0x02:
                ch["body"]["trailing_hex"] = "aabbcc"
                return
        raise AssertionError
    data = rebuilt(m_prop_trailing)
    mm = decode(data)
    assert [ch["body"]["trailing"] for ch in mm["chunks"] if ch["name"] == "PROP" and ch["body"]["type_id"] == 0x02] == [3]
    assert encode(mm) == data
    cnt += 1
    # random byte corruption: only RefError may escape
    for i in range(300):
        d = bytearray(good)
        for _ in range(rng.randrange(1, 4)):
            d[rng.randrange(len(d))] = rng.getrandbits(8)
        try:
            decode(bytes(d))
        except RefError:
            pass
    cnt += 1
    return cnt


_SAMPLES = {
    "parts-1000": (2, 1001, {"Folder": 1, "Part": 1000}),
    "folders-100": (1, 100, {"Folder": 100}),
    "deep-folders-100": (1, 100, {"Folder": 100}),
    "modulescripts-100-lines-100": (2, 100, {"Folder": 1, "ModuleScript": 99}),
}


def _selftest_samples(directory="/repo/rbx_binary/benches/files"):
    import os
    import random
    cnt = 0
    for stem, (ncls, ninst, classes) in _SAMPLES.items():
        with open(os.path.join(directory, stem + ".rbxm"), "rb") as fh:
            data = fh.read()
        m = decode(data)
        assert (m["num_classes"], m["num_instances"]) == (ncls, ninst), stem
        got = {}
        nprops = 0
        for ch in m["chunks"]:
            b = ch["body"]
            if ch["name"] == "INST":
                got[b["class_name"]] = len(b["referents"])
            elif ch["name"] == "PROP":
                nprops += 1
                assert b["values"] is not None, (stem, b["name"], b["type_id"])
                assert b["trailing"] == 0, (stem, b["name"])
        assert got == classes, (stem, got)
        assert m["chunks"][0]["name"] == "META" and m["chunks"][0]["body"]["entries"] == [["ExplicitAutoJoints", "true"]]
        prnt = [ch for ch in m["chunks"] if ch["name"] == "PRNT"][0]["body"]
        assert len(prnt["children"]) == ninst and sorted(prnt["children"]) == list(range(ninst)), stem
        dump = dump_from_model(m)

        def count(nd):
            total = 0
            depth = 0
            stack = [(nd, 1)]
            while stack:
                x, d = stack.pop()
                total += 1
                depth = max(depth, d)
                stack.extend((c, d + 1) for c in x["children"])
            return total, depth
        totals = [count(r) for r in dump["roots"]]
        assert sum(t for t, _ in totals) == ninst, stem
        if stem == "deep-folders-100":
            assert len(dump["roots"]) == 1 and totals[0][1] == 100
        if stem == "parts-1000":
            assert len(dump["roots"]) == 1 and len(dump["roots"][0]["children"]) == 1000
            assert dump["roots"][0]["children"][0]["class"] == "Part"
        # re-encode (Studio's LZ4 stream differs from liblz4's, so compare models, not bytes)
        m2 = decode(encode(m))
        for a, b in zip(m["chunks"], m2["chunks"]):
            assert a["body"] == b["body"] and a["name"] == b["name"] and a["len"] == b["len"], stem
        # and through model_from_dump with all freedoms
        rng = random.Random(len(stem) * 1000 + cnt)
        m3 = decode(encode(model_from_dump(dump, rng)))
        assert dump_from_model(m3) == dump, stem
        cnt += 1
    return cnt


def _selftest():
    import time
    t0 = time.time()
    n_ex = _selftest_examples()
    n_models, n_values = _selftest_roundtrip()
    n_neg = _selftest_negative()
    n_files = _selftest_samples()
    print("refbin selftest OK: %d doc examples, %d values in per-type array round trips over %d types, %d random dump/model round trips, "
          "%d negative/edge checks, %d Studio files, %d errata, %.1fs"
          % (n_ex, n_values, len(_TYPES), n_models, n_neg, n_files, len(ERRATA), time.time() - t0))
    return 0


if __name__ == "__main__":
    if len(sys.argv) >= 2 and sys.argv[1] == "--selftest":
        sys.exit(_selftest())
    print("usage: refbin.py --selftest", file=sys.stderr)
    sys.exit(2)
