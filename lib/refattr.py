#!/usr/bin/env python3
"""refattr.py - independent reference codec for Roblox attribute blobs.

Written from /repo/docs/attributes.md only (plus the CFrame rotation-id table that
attributes.md shares with binary.md).  Value payloads follow /verif/lib/FORMAT.md.

Public API
----------
    class RefError(Exception)
    ERRATA : list[str]                      decisions taken where the document is silent/ambiguous/wrong
    TYPE_IDS : dict[str,int]                FORMAT.md type name -> attribute type id
    decode(data) -> dict                    {name: {"t":TYPE,"v":payload}}; b"" -> {}
    decode_ex(data) -> (dict, facts)        same + facts about non-canonical wire features
    encode(attrs, rng=None, opts=None) -> bytes
                                            {} -> b""; entries sorted by name (UTF-8 byte order) unless rng shuffles
    rotation_from_id(id) -> [9 f32 hex] | None
    id_from_rotation(rot) -> int | None     exact bit-pattern match only
    selftest() -> str                       also:  python3 refattr.py --selftest

opts for encode (all default False/absent):
    "cframe_long_form": True   with rng, axis-aligned rotations are written in full (id 00 + nine floats)
                               half of the time.  Off by default because attributes.md says an axis-aligned
                               rotation *is* written with a table id.
    "bool_truthy": True        with rng, `true` is sometimes written as a random non-zero byte (attributes.md
                               notes that Studio reads any non-zero byte as true).
    "colorseq_envelope": hex   f32 bit pattern written in the (unused) ColorSequence envelope slot (default 0).

facts from decode_ex:
    "count"                       the u32 Length field
    "order"                       attribute names in wire order
    "duplicate_names"             names that occurred more than once (the last occurrence wins in the dict)
    "nonstandard_bools"           Bool bytes other than 00/01 (decoded as true)
    "colorseq_nonzero_envelopes"  ColorSequence keypoints whose envelope field was not 00 00 00 00
    "cframe_ids"                  rotation id of every CFrame, in wire order
    "font_empty_cached"           Font values whose CachedFaceId string was empty (decoded as cached=null)
"""

import re
import struct
import sys

__all__ = ["RefError", "ERRATA", "TYPE_IDS", "decode", "decode_ex", "encode",
           "rotation_from_id", "id_from_rotation", "selftest"]


class RefError(Exception):
    pass


ERRATA = [
    "attributes.md/File Structure: an empty byte string is not a valid blob per the document (the u32 Length "
    "is mandatory); by REFCODEC_API decision b\"\" decodes to {} and {} encodes to b\"\" (not to 00 00 00 00). "
    "A blob consisting of Length=0 also decodes to {}.",
    "attributes.md/File Structure: nothing is said about duplicate attribute names; decode keeps the last "
    "occurrence and reports the name in facts['duplicate_names'] (decode_ex).",
    "attributes.md/String: names, EnumItem enum names and Font Family/CachedFaceId are 'String' (arbitrary bytes) "
    "on the wire but JSON strings in FORMAT.md; they are decoded as strict UTF-8 and a RefError is raised if "
    "they are not valid UTF-8. String *values* are returned as hex and are never interpreted.",
    "attributes.md/Bool: the format is defined as 00/01 but the text adds that Studio reads any non-zero byte "
    "as true; decode accepts any non-zero byte as true (counted in facts['nonstandard_bools']); encode writes "
    "only 00/01 unless opts['bool_truthy'].",
    "attributes.md/Int32: 'little-endian 32-bit integer' does not say signed; read as i32 (two's complement) "
    "because of the type name.",
    "attributes.md/UDim2: the field table is mislabelled ('X Scale'/'X Offset' are described as two UDims: the "
    "X and the Y component); read as UDim X followed by UDim Y, which the worked example confirms.",
    "attributes.md/Vector3: the field table says 'component of the Vector2' for all three rows (copy/paste); "
    "no effect on layout.",
    "attributes.md/BrickColor: stored as u32; the payload is the integer as stored (0..2^32-1), not truncated "
    "to u16 as FORMAT.md's BrickColor row suggests.",
    "attributes.md/CFrame: the Rotation-matrix field is described as 'the XVector, the YVector, and ZVector, in "
    "that order', which in Roblox terminology would be the matrix *columns*; the worked example "
    "(CFrame.Angles(0,45deg,0) -> c 0 s / 0 1 0 / -s 0 c) shows the nine floats are the rows "
    "R00 R01 R02 R10 R11 R12 R20 R21 R22. The nine floats are passed through in file order as 'rot'; "
    "rotation ids are expanded to that same row-major order.",
    "attributes.md/CFrame: the worked example says CFrame.Angles(0, 45, 0) but the bytes are a rotation of 45 "
    "degrees (0.70710677), not 45 radians.",
    "attributes.md/CFrame: 'Euler angles in degrees, applied in the order Y -> X -> Z' is ambiguous (Ry*Rx*Rz "
    "or Rz*Rx*Ry; both readings give 24 distinct matrices). Used M = Ry(y)*Rx(x)*Rz(z) with the right-handed "
    "matrices Rx=[[1,0,0],[0,c,-s],[0,s,c]], Ry=[[c,0,s],[0,1,0],[-s,0,c]], Rz=[[c,-s,0],[s,c,0],[0,0,1]] "
    "(Roblox's fromEulerAnglesYXZ, consistent with the Ry example in the same section). Under this reading "
    "every id equals 1 + 6*NormalId(first column) + NormalId(second column), the community-known id rule, "
    "which holds for only 10 of 24 entries under the other reading. Zero entries expand to +0.0.",
    "attributes.md/CFrame: ids not in the table (01, 04, 08, 0b, 0f, 12, 13, 16, 1a, 1d, 21, >=24) are a "
    "RefError on decode.",
    "attributes.md/CFrame: the text says an axis-aligned rotation *is* written with its table id, so encode "
    "uses the short form whenever the nine floats match a table entry bit-for-bit (entries -0.0 do not match) "
    "and writes id 00 + matrix otherwise; decode accepts id 00 followed by an axis-aligned matrix. "
    "opts['cframe_long_form'] lets rng also write axis-aligned rotations in full.",
    "attributes.md/NumberSequence: the wire order of a keypoint is Envelope, Time, Value while the worked "
    "example lists keypoints as (time, value, envelope); payload order is FORMAT.md's [time,value,envelope].",
    "attributes.md/ColorSequence: the envelope field 'will always be 00 00 00 00'; decode accepts any value, "
    "drops it (FORMAT.md: not part of the value) and counts non-zero ones in facts; encode writes zero.",
    "attributes.md/ColorSequence: 'stored as a struct composed of three f32s' is wrong, a keypoint is five f32s "
    "(envelope, time, r, g, b) as the table and the example show.",
    "attributes.md/NumberRange: the worked example is wrong: '00 00 a0 40 00 00 20 41' is (5, 10), not (10, 20). "
    "The layout (Min f32, Max f32) is taken from the table.",
    "attributes.md/Font: Weight (u16) and Style (u8) are returned as stored, no check against the "
    "FontWeight/FontStyle enums. An empty CachedFaceId decodes to cached=null (FORMAT.md has null|str and the "
    "wire has no separate 'absent' state); encode writes an empty string for both null and \"\".",
    "attributes.md/NumberSequence, ColorSequence, String: a count/length that exceeds the remaining bytes is a "
    "RefError (truncated); zero keypoints are accepted (the document states no minimum).",
    "attributes.md/Data Types: type ids not listed in the document (e.g. 00, 01, 07, 08, 0b..0d, 12, 13, 16, "
    "18, 1a, 1d..20, >=22) are a RefError.",
]

TYPE_IDS = {
    "String": 0x02, "Bool": 0x03, "Int32": 0x04, "Float32": 0x05, "Float64": 0x06,
    "UDim": 0x09, "UDim2": 0x0A, "BrickColor": 0x0E, "Color3": 0x0F, "Vector2": 0x10,
    "Vector3": 0x11, "CFrame": 0x14, "EnumItem": 0x15, "NumberSequence": 0x17,
    "ColorSequence": 0x19, "NumberRange": 0x1B, "Rect": 0x1C, "Font": 0x21,
}
_ID_TYPES = {v: k for k, v in TYPE_IDS.items()}

# ----------------------------------------------------------------------------------------------
# CFrame rotation ids (table of attributes.md / binary.md "CFrame"): id -> Euler angles (x, y, z) in degrees
_EULER = {
    0x02: (0, 0, 0),      0x14: (0, 180, 0),
    0x03: (90, 0, 0),     0x15: (-90, -180, 0),
    0x05: (0, 180, 180),  0x17: (0, 0, 180),
    0x06: (-90, 0, 0),    0x18: (90, 180, 0),
    0x07: (0, 180, 90),   0x19: (0, 0, -90),
    0x09: (0, 90, 90),    0x1b: (0, -90, -90),
    0x0a: (0, 0, 90),     0x1c: (0, -180, -90),
    0x0c: (0, -90, 90),   0x1e: (0, 90, -90),
    0x0d: (-90, -90, 0),  0x1f: (90, 90, 0),
    0x0e: (0, -90, 0),    0x20: (0, 90, 0),
    0x10: (90, -90, 0),   0x22: (-90, 90, 0),
    0x11: (0, 90, 180),   0x23: (0, -90, 180),
}


def _cs(deg):
    return {0: (1, 0), 90: (0, 1), 180: (-1, 0), 270: (0, -1)}[deg % 360]


def _mul(a, b):
    return [[sum(a[i][k] * b[k][j] for k in range(3)) for j in range(3)] for i in range(3)]


def _euler_matrix(x, y, z):
    c, s = _cs(x)
    rx = [[1, 0, 0], [0, c, -s], [0, s, c]]
    c, s = _cs(y)
    ry = [[c, 0, s], [0, 1, 0], [-s, 0, c]]
    c, s = _cs(z)
    rz = [[c, -s, 0], [s, c, 0], [0, 0, 1]]
    return _mul(_mul(ry, rx), rz)


_INT_HEX = {1: "3f800000", 0: "00000000", -1: "bf800000"}
_ROT_BY_ID = {}
for _i, _e in _EULER.items():
    _m = _euler_matrix(*_e)
    _ROT_BY_ID[_i] = tuple(_INT_HEX[_m[r][c]] for r in range(3) for c in range(3))
_ID_BY_ROT = {v: k for k, v in _ROT_BY_ID.items()}
assert len(_ID_BY_ROT) == 24


def rotation_from_id(rot_id):
    """Nine f32 hex strings (row-major R00..R22) for a rotation id, or None if the id is not in the table."""
    r = _ROT_BY_ID.get(rot_id)
    return list(r) if r is not None else None


def id_from_rotation(rot):
    """Rotation id whose expansion equals `rot` bit-for-bit, or None."""
    return _ID_BY_ROT.get(tuple(rot))


# ----------------------------------------------------------------------------------------------
# decoding

class _Reader:
    def __init__(self, data):
        self.d = data
        self.p = 0

    def remaining(self):
        return len(self.d) - self.p

    def take(self, n, what):
        if n < 0 or self.p + n > len(self.d):
            raise RefError("truncated: need %d byte(s) for %s at offset %d, only %d left"
                           % (n, what, self.p, len(self.d) - self.p))
        b = self.d[self.p:self.p + n]
        self.p += n
        return b

    def u8(self, what):
        return self.take(1, what)[0]

    def u16(self, what):
        return struct.unpack("<H", self.take(2, what))[0]

    def u32(self, what):
        return struct.unpack("<I", self.take(4, what))[0]

    def i32(self, what):
        return struct.unpack("<i", self.take(4, what))[0]

    def f32(self, what):
        return self.take(4, what)[::-1].hex()

    def f64(self, what):
        return self.take(8, what)[::-1].hex()

    def string(self, what):
        n = self.u32(what + ".Length")
        if n > self.remaining():
            raise RefError("bad length: %s.Length = %d exceeds the %d remaining byte(s) at offset %d"
                           % (what, n, self.remaining(), self.p))
        return self.take(n, what + ".Data")

    def text(self, what):
        b = self.string(what)
        try:
            return b.decode("utf-8")
        except UnicodeDecodeError:
            raise RefError("%s is not valid UTF-8: %s" % (what, b.hex()))


def _read_value(r, tid, what, facts):
    ty = _ID_TYPES.get(tid)
    if ty is None:
        raise RefError("unknown attribute type id 0x%02x for %s" % (tid, what))
    if ty == "String":
        v = r.string(what).hex()
    elif ty == "Bool":
        b = r.u8(what)
        if b > 1:
            facts["nonstandard_bools"] += 1
        v = b != 0
    elif ty == "Int32":
        v = r.i32(what)
    elif ty == "Float32":
        v = r.f32(what)
    elif ty == "Float64":
        v = r.f64(what)
    elif ty == "UDim":
        v = [r.f32(what + ".Scale"), r.i32(what + ".Offset")]
    elif ty == "UDim2":
        v = [[r.f32(what + ".X.Scale"), r.i32(what + ".X.Offset")],
             [r.f32(what + ".Y.Scale"), r.i32(what + ".Y.Offset")]]
    elif ty == "BrickColor":
        v = r.u32(what)
    elif ty == "Color3":
        v = [r.f32(what + ".R"), r.f32(what + ".G"), r.f32(what + ".B")]
    elif ty == "Vector2":
        v = [r.f32(what + ".X"), r.f32(what + ".Y")]
    elif ty == "Vector3":
        v = [r.f32(what + ".X"), r.f32(what + ".Y"), r.f32(what + ".Z")]
    elif ty == "CFrame":
        pos = [r.f32(what + ".Position.X"), r.f32(what + ".Position.Y"), r.f32(what + ".Position.Z")]
        rid = r.u8(what + ".RotationID")
        facts["cframe_ids"].append(rid)
        if rid == 0:
            rot = [r.f32(what + ".Rotation[%d]" % i) for i in range(9)]
        else:
            rot = rotation_from_id(rid)
            if rot is None:
                raise RefError("unknown CFrame rotation id 0x%02x for %s" % (rid, what))
        v = {"pos": pos, "rot": rot}
    elif ty == "EnumItem":
        name = r.text(what + ".EnumName")
        v = {"ty": name, "value": r.u32(what + ".Value")}
    elif ty == "NumberSequence":
        n = r.u32(what + ".KeypointCount")
        if n * 12 > r.remaining():
            raise RefError("bad length: %s.KeypointCount = %d needs %d bytes, %d left"
                           % (what, n, n * 12, r.remaining()))
        v = []
        for i in range(n):
            env = r.f32(what + "[%d].Envelope" % i)
            t = r.f32(what + "[%d].Time" % i)
            val = r.f32(what + "[%d].Value" % i)
            v.append([t, val, env])
    elif ty == "ColorSequence":
        n = r.u32(what + ".KeypointCount")
        if n * 20 > r.remaining():
            raise RefError("bad length: %s.KeypointCount = %d needs %d bytes, %d left"
                           % (what, n, n * 20, r.remaining()))
        v = []
        for i in range(n):
            env = r.f32(what + "[%d].Envelope" % i)
            if env != "00000000":
                facts["colorseq_nonzero_envelopes"] += 1
            t = r.f32(what + "[%d].Time" % i)
            v.append([t, r.f32(what + "[%d].R" % i), r.f32(what + "[%d].G" % i), r.f32(what + "[%d].B" % i)])
    elif ty == "NumberRange":
        v = [r.f32(what + ".Min"), r.f32(what + ".Max")]
    elif ty == "Rect":
        v = [r.f32(what + ".Min.X"), r.f32(what + ".Min.Y"), r.f32(what + ".Max.X"), r.f32(what + ".Max.Y")]
    elif ty == "Font":
        weight = r.u16(what + ".Weight")
        style = r.u8(what + ".Style")
        family = r.text(what + ".Family")
        cached = r.text(what + ".CachedFaceId")
        if cached == "":
            facts["font_empty_cached"] += 1
            cached = None
        v = {"family": family, "weight": weight, "style": style, "cached": cached}
    else:  # pragma: no cover
        raise AssertionError(ty)
    return {"t": ty, "v": v}


def decode_ex(data):
    """Decode an attribute blob. Returns (attrs, facts). Raises RefError on malformed input."""
    if not isinstance(data, (bytes, bytearray, memoryview)):
        raise RefError("decode expects bytes")
    data = bytes(data)
    facts = {"count": 0, "order": [], "duplicate_names": [], "nonstandard_bools": 0,
             "colorseq_nonzero_envelopes": 0, "cframe_ids": [], "font_empty_cached": 0}
    if data == b"":
        return {}, facts
    r = _Reader(data)
    count = r.u32("Length")
    facts["count"] = count
    # every attribute needs at least 4 (name length) + 1 (type) + 1 (smallest value) bytes
    if count * 6 > r.remaining():
        raise RefError("bad length: Length = %d attribute(s) cannot fit in the %d remaining byte(s)"
                       % (count, r.remaining()))
    attrs = {}
    for i in range(count):
        name = r.text("attribute[%d].Name" % i)
        tid = r.u8("attribute[%d].Type" % i)
        val = _read_value(r, tid, "attribute[%d](%r).Value" % (i, name), facts)
        facts["order"].append(name)
        if name in attrs and name not in facts["duplicate_names"]:
            facts["duplicate_names"].append(name)
        attrs[name] = val
    if r.remaining():
        raise RefError("trailing bytes: %d byte(s) left after %d attribute(s) at offset %d"
                       % (r.remaining(), count, r.p))
    return attrs, facts


def decode(data):
    """Decode an attribute blob into {name: {"t":TYPE,"v":payload}}. b"" -> {}."""
    return decode_ex(data)[0]


# ----------------------------------------------------------------------------------------------
# encoding

_H8 = re.compile(r"[0-9a-f]{8}\Z")
_H16 = re.compile(r"[0-9a-f]{16}\Z")
_HEX = re.compile(r"(?:[0-9a-f]{2})*\Z")


def _f32b(h, what):
    if not isinstance(h, str) or not _H8.match(h):
        raise RefError("%s: expected f32 as 8 lowercase hex digits, got %r" % (what, h))
    return bytes.fromhex(h)[::-1]


def _f64b(h, what):
    if not isinstance(h, str) or not _H16.match(h):
        raise RefError("%s: expected f64 as 16 lowercase hex digits, got %r" % (what, h))
    return bytes.fromhex(h)[::-1]


def _int(v, lo, hi, what):
    if isinstance(v, bool) or not isinstance(v, int) or not (lo <= v <= hi):
        raise RefError("%s: expected integer in [%d, %d], got %r" % (what, lo, hi, v))
    return v


def _strb(s, what):
    if not isinstance(s, str):
        raise RefError("%s: expected str, got %r" % (what, s))
    try:
        b = s.encode("utf-8")
    except UnicodeEncodeError:
        raise RefError("%s: string is not encodable as UTF-8" % what)
    return struct.pack("<I", len(b)) + b


def _seq(v, n, what):
    if not isinstance(v, (list, tuple)) or len(v) != n:
        raise RefError("%s: expected a list of %d element(s), got %r" % (what, n, v))
    return v


def _write_value(val, what, rng, opts):
    if not isinstance(val, dict) or "t" not in val or "v" not in val:
        raise RefError("%s: expected {'t':..,'v':..}, got %r" % (what, val))
    ty, v = val["t"], val["v"]
    if ty not in TYPE_IDS:
        raise RefError("%s: type %r cannot be stored in an attribute blob" % (what, ty))
    out = bytearray([TYPE_IDS[ty]])
    if ty == "String":
        if not isinstance(v, str) or not _HEX.match(v):
            raise RefError("%s: String payload must be lowercase hex, got %r" % (what, v))
        b = bytes.fromhex(v)
        out += struct.pack("<I", len(b)) + b
    elif ty == "Bool":
        if not isinstance(v, bool):
            raise RefError("%s: expected bool, got %r" % (what, v))
        byte = 1 if v else 0
        if v and rng is not None and opts.get("bool_truthy") and rng.random() < 0.5:
            byte = rng.randrange(1, 256)
        out.append(byte)
    elif ty == "Int32":
        out += struct.pack("<i", _int(v, -2**31, 2**31 - 1, what))
    elif ty == "Float32":
        out += _f32b(v, what)
    elif ty == "Float64":
        out += _f64b(v, what)
    elif ty == "UDim":
        _seq(v, 2, what)
        out += _f32b(v[0], what) + struct.pack("<i", _int(v[1], -2**31, 2**31 - 1, what))
    elif ty == "UDim2":
        _seq(v, 2, what)
        for a in v:
            _seq(a, 2, what)
            out += _f32b(a[0], what) + struct.pack("<i", _int(a[1], -2**31, 2**31 - 1, what))
    elif ty == "BrickColor":
        out += struct.pack("<I", _int(v, 0, 2**32 - 1, what))
    elif ty in ("Color3", "Vector3"):
        for h in _seq(v, 3, what):
            out += _f32b(h, what)
    elif ty in ("Vector2", "NumberRange"):
        for h in _seq(v, 2, what):
            out += _f32b(h, what)
    elif ty == "Rect":
        for h in _seq(v, 4, what):
            out += _f32b(h, what)
    elif ty == "CFrame":
        if not isinstance(v, dict) or set(v) != {"pos", "rot"}:
            raise RefError("%s: CFrame payload must be {'pos','rot'}, got %r" % (what, v))
        for h in _seq(v["pos"], 3, what + ".pos"):
            out += _f32b(h, what + ".pos")
        rot = _seq(v["rot"], 9, what + ".rot")
        rotb = b"".join(_f32b(h, what + ".rot") for h in rot)
        rid = id_from_rotation(rot)
        if rid is not None and rng is not None and opts.get("cframe_long_form") and rng.random() < 0.5:
            rid = None
        if rid is None:
            out.append(0)
            out += rotb
        else:
            out.append(rid)
    elif ty == "EnumItem":
        if not isinstance(v, dict) or set(v) != {"ty", "value"}:
            raise RefError("%s: EnumItem payload must be {'ty','value'}, got %r" % (what, v))
        out += _strb(v["ty"], what + ".ty")
        out += struct.pack("<I", _int(v["value"], 0, 2**32 - 1, what + ".value"))
    elif ty == "NumberSequence":
        if not isinstance(v, (list, tuple)):
            raise RefError("%s: expected list of keypoints" % what)
        out += struct.pack("<I", len(v))
        for kp in v:
            t, val_, env = _seq(kp, 3, what)
            out += _f32b(env, what) + _f32b(t, what) + _f32b(val_, what)
    elif ty == "ColorSequence":
        if not isinstance(v, (list, tuple)):
            raise RefError("%s: expected list of keypoints" % what)
        env = _f32b(opts.get("colorseq_envelope", "00000000"), "opts.colorseq_envelope")
        out += struct.pack("<I", len(v))
        for kp in v:
            t, r_, g_, b_ = _seq(kp, 4, what)
            out += env + _f32b(t, what) + _f32b(r_, what) + _f32b(g_, what) + _f32b(b_, what)
    elif ty == "Font":
        if not isinstance(v, dict) or set(v) != {"family", "weight", "style", "cached"}:
            raise RefError("%s: Font payload must be {'family','weight','style','cached'}, got %r" % (what, v))
        out += struct.pack("<H", _int(v["weight"], 0, 0xFFFF, what + ".weight"))
        out.append(_int(v["style"], 0, 0xFF, what + ".style"))
        out += _strb(v["family"], what + ".family")
        out += _strb("" if v["cached"] is None else v["cached"], what + ".cached")
    else:  # pragma: no cover
        raise AssertionError(ty)
    return bytes(out)


def encode(attrs, rng=None, opts=None):
    """Encode {name: {"t":..,"v":..}} into an attribute blob. {} -> b"".
    Entries are written sorted by the UTF-8 bytes of their name unless `rng` (random.Random) is given,
    in which case the order is shuffled and the freedoms enabled in `opts` are exercised."""
    opts = opts or {}
    if not isinstance(attrs, dict):
        raise RefError("encode expects a dict")
    if not attrs:
        return b""
    names = list(attrs)
    for n in names:
        if not isinstance(n, str):
            raise RefError("attribute name must be str, got %r" % (n,))
    try:
        names.sort(key=lambda s: s.encode("utf-8"))
    except UnicodeEncodeError:
        raise RefError("attribute name is not encodable as UTF-8")
    if rng is not None:
        rng.shuffle(names)
    out = bytearray(struct.pack("<I", len(names)))
    for n in names:
        out += _strb(n, "name %r" % n)
        out += _write_value(attrs[n], "attribute %r" % n, rng, opts)
    return bytes(out)


# ----------------------------------------------------------------------------------------------
# self-test

def _fh(x):
    return struct.pack(">f", x).hex()


def _dh(x):
    return struct.pack(">d", x).hex()


def _blob1(tid, body, name=b"a"):
    return struct.pack("<I", 1) + struct.pack("<I", len(name)) + name + bytes([tid]) + body


def _random_value(rng, ty):
    def f32():
        k = rng.random()
        if k < 0.25:
            return "%08x" % rng.getrandbits(32)           # arbitrary bit patterns incl. NaN payloads
        if k < 0.5:
            return _fh(rng.choice([0.0, -0.0, 1.0, -1.0, 0.5, float("inf"), float("-inf"), 1e-45, 3.4028234e38]))
        return _fh(rng.uniform(-1000, 1000))

    def i32():
        return rng.choice([0, 1, -1, 2**31 - 1, -2**31, rng.randrange(-2**31, 2**31)])

    def text():
        n = rng.randrange(0, 12)
        return "".join(rng.choice("abcXYZ09 _/:.\u00e9\u4e2d\U0001f600\x00\n") for _ in range(n))

    if ty == "String":
        return bytes(rng.getrandbits(8) for _ in range(rng.randrange(0, 40))).hex()
    if ty == "Bool":
        return rng.random() < 0.5
    if ty == "Int32":
        return i32()
    if ty == "Float32":
        return f32()
    if ty == "Float64":
        return rng.choice(["%016x" % rng.getrandbits(64), _dh(rng.uniform(-1e6, 1e6)), _dh(0.15625)])
    if ty == "UDim":
        return [f32(), i32()]
    if ty == "UDim2":
        return [[f32(), i32()], [f32(), i32()]]
    if ty == "BrickColor":
        return rng.choice([194, 1, 1032, 0, 2**32 - 1, rng.randrange(0, 2**32)])
    if ty in ("Color3", "Vector3"):
        return [f32(), f32(), f32()]
    if ty in ("Vector2", "NumberRange"):
        return [f32(), f32()]
    if ty == "Rect":
        return [f32(), f32(), f32(), f32()]
    if ty == "CFrame":
        if rng.random() < 0.5:
            rot = rotation_from_id(rng.choice(sorted(_ROT_BY_ID)))
            if rng.random() < 0.2:   # axis aligned but with a -0.0: must go the long way
                z = [i for i, h in enumerate(rot) if h == "00000000"]
                rot[rng.choice(z)] = "80000000"
        else:
            rot = [f32() for _ in range(9)]
        return {"pos": [f32(), f32(), f32()], "rot": rot}
    if ty == "EnumItem":
        return {"ty": text(), "value": rng.choice([0, 1, 2**32 - 1, rng.randrange(0, 2**32)])}
    if ty == "NumberSequence":
        return [[f32(), f32(), f32()] for _ in range(rng.randrange(0, 5))]
    if ty == "ColorSequence":
        return [[f32(), f32(), f32(), f32()] for _ in range(rng.randrange(0, 5))]
    if ty == "Font":
        return {"family": text(), "weight": rng.choice([100, 400, 700, 900, 0, 65535]),
                "style": rng.choice([0, 1, 255]), "cached": rng.choice([None, "rbxasset://x.ttf", text() or None])}
    raise AssertionError(ty)


def selftest():
    import random
    checks = 0

    def expect(tid, hexbytes, value):
        nonlocal checks
        body = bytes.fromhex(hexbytes.replace(" ", ""))
        got = decode(_blob1(tid, body))
        want = {"a": value}
        assert got == want, "worked example mismatch for type 0x%02x:\n got  %r\n want %r" % (tid, got, want)
        assert encode(want) == _blob1(tid, body), "worked example re-encode mismatch for type 0x%02x" % tid
        checks += 1

    # --- worked examples of attributes.md -------------------------------------------------
    expect(0x09, "00 00 f6 42 c8 01 00 00", {"t": "UDim", "v": [_fh(123.0), 456]})
    expect(0x0A, "00 00 80 3f 02 00 00 00 00 00 40 40 04 00 00 00",
           {"t": "UDim2", "v": [[_fh(1.0), 2], [_fh(3.0), 4]]})
    expect(0x0F, "00 00 00 00 cd cc cc 3e 00 00 80 3f",
           {"t": "Color3", "v": [_fh(0.0), _fh(102 / 255), _fh(1.0)]})
    expect(0x10, "00 00 20 41 00 00 a0 41", {"t": "Vector2", "v": [_fh(10.0), _fh(20.0)]})
    expect(0x11, "00 00 20 41 00 00 a0 41 00 00 f0 41", {"t": "Vector3", "v": [_fh(10.0), _fh(20.0), _fh(30.0)]})
    c = "3f3504f3"
    s = "3f3504f3"
    ns = "bf3504f3"
    z = _fh(0.0)
    o = _fh(1.0)
    expect(0x14, "00 00 80 3f 00 00 00 40 00 00 40 40 00 f3 04 35 3f 00 00 00 00 f3 04 35 3f 00 00 00 00 "
                 "00 00 80 3f 00 00 00 00 f3 04 35 bf 00 00 00 00 f3 04 35 3f",
           {"t": "CFrame", "v": {"pos": [_fh(1.0), _fh(2.0), _fh(3.0)], "rot": [c, z, s, z, o, z, ns, z, c]}})
    expect(0x14, "00 00 80 3f 00 00 00 40 00 00 40 40 02",
           {"t": "CFrame", "v": {"pos": [_fh(1.0), _fh(2.0), _fh(3.0)], "rot": [o, z, z, z, o, z, z, z, o]}})
    expect(0x17, "03 00 00 00 00 00 00 00 00 00 00 00 00 00 00 00 00 00 00 00 00 00 00 3f 00 00 80 3f "
                 "00 00 00 3f 00 00 80 3f 00 00 80 3f",
           {"t": "NumberSequence", "v": [[_fh(0.0), _fh(0.0), _fh(0.0)], [_fh(0.5), _fh(1.0), _fh(0.0)],
                                         [_fh(1.0), _fh(1.0), _fh(0.5)]]})
    expect(0x19, "03 00 00 00 00 00 00 00 00 00 00 00 00 00 80 3f 00 00 00 00 00 00 00 00 00 00 00 00 "
                 "00 00 00 3f 00 00 00 00 00 00 80 3f 00 00 00 00 00 00 00 00 00 00 80 3f 00 00 00 00 "
                 "00 00 00 00 00 00 80 3f",
           {"t": "ColorSequence", "v": [[_fh(0.0), o, z, z], [_fh(0.5), z, o, z], [_fh(1.0), z, z, o]]})
    # the document claims (10, 20); the bytes are (5, 10) -- see ERRATA
    expect(0x1B, "00 00 a0 40 00 00 20 41", {"t": "NumberRange", "v": [_fh(5.0), _fh(10.0)]})
    expect(0x1C, "00 00 20 41 00 00 a0 41 00 00 f0 41 00 00 20 42",
           {"t": "Rect", "v": [_fh(10.0), _fh(20.0), _fh(30.0), _fh(40.0)]})
    expect(0x21, "90 01 00 2C 00 00 00 72 62 78 61 73 73 65 74 3A 2F 2F 66 6F 6E 74 73 2F 66 61 6D 69 6C 69 65 "
                 "73 2F 53 6F 75 72 63 65 53 61 6E 73 50 72 6F 2E 6A 73 6F 6E 2A 00 00 00 72 62 78 61 73 73 65 "
                 "74 3A 2F 2F 66 6F 6E 74 73 2F 53 6F 75 72 63 65 53 61 6E 73 50 72 6F 2D 52 65 67 75 6C 61 72 "
                 "2E 74 74 66",
           {"t": "Font", "v": {"family": "rbxasset://fonts/families/SourceSansPro.json", "weight": 400, "style": 0,
                               "cached": "rbxasset://fonts/SourceSansPro-Regular.ttf"}})
    # types without a worked example: layouts straight from the tables
    expect(0x02, "03 00 00 00 00 ff 41", {"t": "String", "v": "00ff41"})
    expect(0x03, "00", {"t": "Bool", "v": False})
    expect(0x03, "01", {"t": "Bool", "v": True})
    expect(0x04, "fe ff ff ff", {"t": "Int32", "v": -2})
    expect(0x05, "00 00 20 3e", {"t": "Float32", "v": _fh(0.15625)})
    expect(0x06, "00 00 00 00 00 00 c4 3f", {"t": "Float64", "v": _dh(0.15625)})
    expect(0x0E, "c2 00 00 00", {"t": "BrickColor", "v": 194})
    expect(0x15, "08 00 00 00 4e 6f 72 6d 61 6c 49 64 03 00 00 00",
           {"t": "EnumItem", "v": {"ty": "NormalId", "value": 3}})

    # --- structural rules -----------------------------------------------------------------
    assert decode(b"") == {} and encode({}) == b"" and decode(b"\0\0\0\0") == {}
    bad = [
        b"\x01",                                           # truncated Length
        b"\x01\0\0\0",                                     # count without entries
        _blob1(0x01, b"\0"),                               # unknown type id
        _blob1(0x07, b"\0\0\0\0"),
        _blob1(0x03, b""),                                 # truncated value
        _blob1(0x03, b"\x01\x00"),                         # trailing byte
        _blob1(0x02, b"\x05\0\0\0ab"),                     # string length beyond end
        _blob1(0x14, bytes(12) + b"\x04"),                 # rotation id not in the table
        _blob1(0x14, bytes(12) + b"\x00" + bytes(35)),     # short matrix
        _blob1(0x17, b"\xff\xff\xff\xff"),                 # absurd keypoint count
        _blob1(0x19, b"\x01\0\0\0" + bytes(19)),
        _blob1(0x03, b"\x01", name=b"\xff"),               # name not UTF-8
        struct.pack("<I", 2) + _blob1(0x03, b"\x01")[4:],  # count larger than entries
    ]
    for b in bad:
        try:
            decode(b)
        except RefError:
            checks += 1
        else:
            raise AssertionError("malformed blob accepted: %s" % b.hex())
    a, facts = decode_ex(_blob1(0x03, b"\x07"))
    assert a == {"a": {"t": "Bool", "v": True}} and facts["nonstandard_bools"] == 1
    two = struct.pack("<I", 2) + _blob1(0x03, b"\x00")[4:] + _blob1(0x03, b"\x01")[4:]
    a, facts = decode_ex(two)
    assert a == {"a": {"t": "Bool", "v": True}} and facts["duplicate_names"] == ["a"]
    # all rotation ids: expansion is a signed permutation matrix with det +1, and the short form round-trips
    for rid, rot in _ROT_BY_ID.items():
        m = [[{"3f800000": 1, "bf800000": -1, "00000000": 0}[rot[r * 3 + c_]] for c_ in range(3)] for r in range(3)]
        det = (m[0][0] * (m[1][1] * m[2][2] - m[1][2] * m[2][1]) - m[0][1] * (m[1][0] * m[2][2] - m[1][2] * m[2][0])
               + m[0][2] * (m[1][0] * m[2][1] - m[1][1] * m[2][0]))
        assert det == 1 and all(sum(abs(x) for x in row) == 1 for row in m)
        val = {"a": {"t": "CFrame", "v": {"pos": [z, z, z], "rot": list(rot)}}}
        blob = encode(val)
        assert blob == _blob1(0x14, bytes(12) + bytes([rid])) and decode(blob) == val
        checks += 1
    assert decode_ex(encode({"b": {"t": "Bool", "v": True}, "a": {"t": "Bool", "v": False}}))[1]["order"] == ["a", "b"]

    # --- random round trips for every type ------------------------------------------------
    rounds = 0
    for seed in range(300):
        rng = random.Random(seed)
        attrs = {}
        types = list(TYPE_IDS)
        rng.shuffle(types)
        for i, ty in enumerate(types[:rng.randrange(1, len(types) + 1)] if seed % 3 else types):
            name = rng.choice(["", "a", "Attr", "\u00e9t\u00e9", "x y", "\U0001f600"]) + str(i)
            attrs[name] = {"t": ty, "v": _random_value(rng, ty)}
        for opts in (None, {"cframe_long_form": True, "bool_truthy": True}):
            for r in (None, random.Random(seed * 7 + 1)):
                blob = encode(attrs, r, opts)
                back = decode(blob)
                want = attrs
                if any(v["t"] == "Font" and v["v"]["cached"] == "" for v in attrs.values()):
                    raise AssertionError("generator must not produce cached == ''")
                assert back == want, "round trip mismatch (seed %d)" % seed
                assert encode(back) == encode(attrs)
                rounds += 1
        # every strict prefix of a valid blob must be rejected (except the empty one)
        blob = encode(attrs)
        for cut in rng.sample(range(1, len(blob)), min(10, len(blob) - 1)):
            try:
                decode(blob[:cut])
            except RefError:
                pass
            else:
                raise AssertionError("truncated blob accepted (seed %d, cut %d)" % (seed, cut))
        try:
            decode(blob + b"\0")
        except RefError:
            pass
        else:
            raise AssertionError("trailing byte accepted")
    return "refattr selftest OK: %d worked/structural checks, %d random round trips over %d types, %d errata" % (
        checks, rounds, len(TYPE_IDS), len(ERRATA))


if __name__ == "__main__":
    if len(sys.argv) == 2 and sys.argv[1] == "--selftest":
        print(selftest())
        sys.exit(0)
    if len(sys.argv) == 2:
        import json
        with open(sys.argv[1], "rb") as fh:
            print(json.dumps(decode(fh.read()), indent=1, sort_keys=True))
        sys.exit(0)
    print("usage: refattr.py --selftest | refattr.py <blob-file>", file=sys.stderr)
    sys.exit(2)
