#!/usr/bin/env python3
"""refxml.py - independent reference codec for Roblox XML model files (.rbxmx/.rbxlx).

Written from /repo/docs/xml.md only. Value payloads follow /verif/lib/FORMAT.md.

Public API
----------
    class RefError(Exception)
    ERRATA : list[str]
    decode(text: bytes|str) -> dump            raises RefError also when facts["violations"] is non-empty
    decode_ex(text) -> (dump, facts)           raises RefError only when the document cannot be interpreted
    encode(dump, rng, opts=None) -> str        rng: random.Random or None (None = canonical, no variation)
    parse_f32(text) -> f32 hex, parse_f64(text) -> f64 hex      (xml.md float/double lexical rules)
    format_f32(hex) -> str, format_f64(hex) -> str              (shortest text that re-parses to the same bits)
    selftest() -> str                          also: python3 refxml.py --selftest

facts keys (decode_ex):
    version, items, referents, items_without_referent, properties_elements_per_item (pre-order),
    sharedstring_defs, sharedstring_uses, null_refs, unknown_elements            (REFCODEC_API.md)
  plus: violations [str] (MUST-level breaches that did not prevent interpretation), dangling_refs,
    duplicate_referents [str], duplicate_props, items_without_name, bad_name_props, meta [[name,value]],
    externals [str], sharedstrings_elements, padded_scalars, nonlowercase_bools, legacy_content,
    contentid_binary_or_hash, child_order_deviations, stray_text, nonzero_colorseq_envelopes,
    seq_missing_endpoints, color3uint8_top_not_ff, roblox_attrs {name: value}

encode opts (True = always, False = never, absent = rng decides; non-bool values as listed):
    declaration, xmlns, meta, external, comments (anywhere between elements), comments_in_values (also between
    the children of struct-like type elements; needs comments), empty_sharedstrings, shuffle_props, protected_string, cdata, charrefs,
    float_variants, plus_inf, self_closing, extra_sharedstrings, color3uint8_top_zero, seq_trailing_space,
    referents: "rbx"|"int"|"mixed", whitespace: "pretty"|"none"|"random", b64_wrap: "none"|"lf"|"crlf",
    font_cached_null: "omit"|"null", contentid_empty: "null"|"url", sharedstring_keys: "md5"|"random"
  off unless set to True (not clearly sanctioned by xml.md, or only SHOULD-level):
    brickcolor_as_int, legacy_content, bool_case, hex_upper, dangling_null_refs, exotic_order
"""

import base64
import hashlib
import re
import struct
import sys
import xml.etree.ElementTree as ET
from decimal import Decimal
from fractions import Fraction

__all__ = ["RefError", "ERRATA", "decode", "decode_ex", "encode", "parse_f32", "parse_f64",
           "format_f32", "format_f64", "selftest"]


class RefError(Exception):
    pass


ERRATA = [
    "xml.md/float: f32 fields are NOT double-rounded: the text is parsed to the nearest f64 with float() and "
    "rounded to f32 with struct, but when that f64 lies exactly on the midpoint of two adjacent f32 values the "
    "exact decimal (fractions.Fraction) decides the direction, so the result is the correctly rounded f32 "
    "(ties to even). Only for texts longer than 4000 characters or exponents beyond +-5000 the plain "
    "float()->struct path (possible double rounding) is used. A decoder that double-rounds can differ from "
    "this oracle only on such midpoint texts; encode() never emits a text on which the two methods differ.",
    "xml.md/float,double: decimal text whose magnitude exceeds the type's range decodes to +-infinity (IEEE "
    "round-to-nearest) and text below the smallest subnormal to +-0; the document is silent about both.",
    "xml.md/float,double: the document says NaN 'is represented as NAN' (all upper case MUST be used by "
    "encoders) while the XSD precisionDecimal grammar it defers to spells it 'NaN'. Only 'NAN' is accepted; "
    "'NaN', 'nan', 'inf', 'Infinity', '-NAN' are RefErrors. 'INF', '+INF' and '-INF' are accepted, and since "
    "xml.md lists '+INF' as a representation, encode() may emit it (opts['plus_inf']=False pins it off).",
    "xml.md/float,double: the finite grammar is the XSD one: [+-]?(digits(.digits*)?|.digits)([eE][+-]?digits)?; "
    "so '+1', '5.', '.5', '1E+05' are accepted and may be emitted by encode() as alternative spellings "
    "(opts['float_variants']=False pins them off). Hex floats, '_' separators etc. are RefErrors.",
    "xml.md (all numeric/bool/hex scalar contents): the document does not say whether surrounding whitespace "
    "is allowed inside e.g. <int> or <X>. Leading/trailing space, tab, CR, LF are stripped (XSD whiteSpace="
    "collapse; 'File Structure' says Roblox ignores leading/trailing whitespace) and each occurrence is "
    "counted in facts['padded_scalars']. encode() never emits such padding. string, ProtectedString, url, "
    "uri, Ref, SharedString-use and Meta contents are never stripped.",
    "xml.md/bool: 'true'/'false' are matched case-insensitively because the text says Roblox accepts 'fAlSe' "
    "and only SHOULD-requires lower case; non-lowercase spellings are counted in facts['nonlowercase_bools']. "
    "encode() writes lower case unless opts['bool_case'] is True.",
    "xml.md/roblox: element names are compared after namespace processing, so a default namespace "
    "(xmlns=\"...\") on <roblox> makes the root '{ns}roblox', which is a RefError. Prefixed declarations "
    "(xmlns:xsi etc.) are fine. version must be exactly the string '4' (no trimming); otherwise a violation.",
    "API: decode_ex() records MUST-level breaches that still allow interpretation in facts['violations'] "
    "(version missing or != '4', Item without/duplicate/'null' referent, Properties count != 1 per Item, more "
    "than one SharedStrings, SharedString definition without md5 or with duplicate md5, Meta without name, "
    "unexpected elements under roblox/Item/SharedStrings) and decode() raises RefError if that list is "
    "non-empty. Uninterpretable input (not well-formed, wrong root, Item without class, malformed value "
    "of a documented type, property element without name, unresolvable SharedString) always raises.",
    "xml.md/Item: nothing says what an instance's name is when there is no 'Name' property; the class name is "
    "used and the item is counted in facts['items_without_name'].",
    "xml.md/Properties: the 'Name' property becomes node['name'] when its element is string or "
    "ProtectedString (both map to String). A 'Name' property of any other type is dropped and listed in "
    "facts['bad_name_props'] (FORMAT.md forbids 'Name' in props).",
    "xml.md/Properties: duplicate property names within an Item are not addressed; the last one wins "
    "(facts['duplicate_props'] counts them). With several Properties elements in one Item (a violation) they "
    "are merged in document order. Duplicate referents: the first Item keeps the referent. Duplicate md5 keys: "
    "the first definition wins.",
    "xml.md/Content vs ContentId: a <Content> element whose child is url, binary or hash is read as the legacy "
    "(pre-645) spelling of ContentId and yields {'t':'ContentId'} (facts['legacy_content']); a <Content> "
    "element with null, uri or Ref yields {'t':'Content'}. <Content><null></null></Content> is inherently "
    "ambiguous between an empty legacy ContentId and Content-None; it is read as Content None. encode() "
    "writes ContentId values with the ContentId element unless opts['legacy_content'] is True.",
    "xml.md/Content,ContentId: 'the null element MUST be empty' is taken literally: any text (even "
    "whitespace) or child inside <null> is a RefError. The child 'MUST include an opening and closing tag' "
    "cannot be checked through an XML parser (<null/> and <null></null> are the same infoset); encode() "
    "always writes <null></null>.",
    "xml.md/ContentId: binary/hash children decode to the empty ContentId (facts['contentid_binary_or_hash']). "
    "An empty ContentId may be written as <null></null> or <url></url> (both decode to \"\"); opts"
    "['contentid_empty'] pins the choice.",
    "xml.md/Font: Family and CachedFaceId are typed 'Content' but the example uses <url>, i.e. the legacy "
    "ContentId representation; url/null (and binary/hash) children are accepted, 'uri' is not. Style is "
    "'Normal' -> 0 or 'Italic' -> 1 (exact spelling, after trimming), anything else is a RefError. Weight is "
    "any Int32 (the 100..900 statement is descriptive). CachedFaceId absent or <null> -> cached=null; "
    "<url></url> -> cached=\"\". Family <null> -> family=\"\". encode() writes cached=null by omitting the "
    "element or as <CachedFaceId><null></null></CachedFaceId> (opts['font_cached_null']).",
    "xml.md/BrickColor: the document allows an element named BrickColor holding the number; it decodes to "
    "{'t':'BrickColor'} with range 0..2^32-1 ('32-bit integer', negative numbers make no sense). The int "
    "element always decodes to Int32, also for BrickColor-typed properties (no reflection here). encode() "
    "writes BrickColor values as <BrickColor> unless opts['brickcolor_as_int'].",
    "xml.md/Color3: only the R/G/B child form is documented; a <Color3> holding a packed integer is a "
    "RefError. Color3uint8: decimal u32 (0..4294967295), the top byte is ignored on decode "
    "(facts['color3uint8_top_not_ff'] counts values whose top byte is not FF); encode() writes FF there "
    "(SHOULD) and with rng sometimes 00.",
    "xml.md/ColorSequence,NumberSequence,NumberRange: 'separated by a single space' but the examples end with "
    "a trailing space; numbers are split on any run of XML whitespace, leading/trailing whitespace allowed. "
    "The count must be a multiple of 5/3 (exactly 2 for NumberRange); zero keypoints are accepted. The "
    "'MUST have a keypoint at time 0 and at time 1' rule is not enforced, only counted in "
    "facts['seq_missing_endpoints']. ColorSequence envelopes are dropped (FORMAT.md) and non-zero ones "
    "counted in facts['nonzero_colorseq_envelopes'].",
    "xml.md/UniqueId: the byte order of the three integers inside the 16 hex-encoded bytes is not stated; read "
    "big-endian (the hex digits are the number), i.e. random = hex[0:16], time = hex[16:24], index = "
    "hex[24:32]. random is returned as a signed i64 (two's complement of the u64) per FORMAT.md. Upper and "
    "lower case hex digits are accepted; encode() writes lower case unless opts['hex_upper'].",
    "xml.md/UniqueId: the NOTE says that in the XML format Random is 'left-circular rotated by 1 bit' relative "
    "to the binary format, whereas FORMAT.md defines the logical value as the one printed in XML. No "
    "rotation is applied here: 'random' is exactly what the XML text says.",
    "xml.md/UniqueId: the worked example '686f6c792062696e676c6521203a33' has 30 hex digits (15 bytes: 'holy "
    "bingle! :3'), not 32; it is rejected with a RefError like any other length != 32.",
    "xml.md: Vector2int16 is not documented; read/written as <Vector2int16> with X and Y integer children "
    "(-32768..32767) by analogy with Vector3int16.",
    "xml.md: SecurityCapabilities is not documented; read/written as <SecurityCapabilities> holding a decimal "
    "u64.",
    "xml.md/Optional: only OptionalCoordinateFrame (child CFrame) is defined; any other Optional* element is "
    "listed in facts['unknown_elements'].",
    "xml.md/Ref: the text is compared verbatim (no trimming) with the referent attributes. 'null' -> null "
    "(facts['null_refs']); a referent that no Item carries -> null (facts['dangling_refs']). The same applies "
    "to the Ref child of Content.",
    "xml.md/SharedString (use): the text must equal an md5 attribute verbatim (no trimming), otherwise "
    "RefError. Definitions are looked up after the whole file is read, so SharedStrings may precede the "
    "Items.",
    "xml.md/BinaryString, SharedString (definition): 'Base64 per RFC 2045'. Space, tab, CR and LF are removed, "
    "the rest must be canonical-alphabet base64 with correct padding (RFC 2045 would also let a decoder skip "
    "any other non-alphabet character; that is not done: RefError). encode() wraps at 72 columns (what "
    "REFCODEC_API asks for; RFC 2045 allows up to 76).",
    "xml.md/int,int64,token,Axes,Faces,Vector3int16: integers are -?[0-9]+ ('+' prefix is a RefError as "
    "required; leading zeros and '-0' are accepted since nothing forbids them); out-of-range values are "
    "RefErrors. token is an unsigned 32-bit decimal ('sequence of numbers' is read as 'sequence of digits').",
    "xml.md/Axes vs Faces: Axes says 'Z, Y, X packed into the lower 3 bits, in that order' with X = 1, Faces "
    "says 'Right, Top, Back, Left, Bottom, Front ... in that order' with Right = 1: the two sections use "
    "opposite conventions for 'order'. The payload is the raw integer, so decoding is unaffected.",
    "xml.md/PhysicalProperties: the example claims PhysicalProperties.new(1, 2, 3, 0.15625, 1.25) but shows "
    "<Elasticity>1</Elasticity>; the XML is decoded as written. CustomPhysics=false with further children "
    "is a RefError, as is CustomPhysics=true without all five.",
    "xml.md (all struct-like types): child elements are looked up by name; each required child must occur "
    "exactly once and no other child may occur (RefError otherwise). A different order than the documented "
    "one is accepted and counted in facts['child_order_deviations']. Non-whitespace text between children is "
    "ignored and counted in facts['stray_text']. Attributes on child elements are ignored.",
    "xml.md/string,ProtectedString: the value is the complete character content as delivered by expat (CDATA "
    "sections merged, comments removed, line ends normalised to LF, no trimming). A child element inside is "
    "a RefError. XML 1.0 cannot carry U+0000-U+0008, U+000B, U+000C, U+000E-U+001F, U+FFFE, U+FFFF or lone "
    "surrogates, so encode() raises RefError for strings/names containing them; CR is written as &#13;.",
    "xml.md/File Structure: the order of Meta/External/Item/SharedStrings under roblox and of Properties/Item "
    "under Item is not prescribed; decode accepts any order, encode() uses the listed order unless "
    "opts['exotic_order'] is True.",
    "FORMAT.md types without an xml.md representation (Region3, Region3int16, EnumItem, Tags, Attributes, "
    "MaterialColors) make encode() raise RefError; on the XML wire Tags/Attributes/MaterialColors are "
    "BinaryString values and are returned as such by decode.",
    "xml.md/Contents: the table of contents links 'Item' to '#external' (typo); the ProtectedString example "
    "text says 'Hello, world!' while the XML says 'Hello world!'; the SharedString md5 attribute 'does not "
    "have to be the MD5', so encode() may use arbitrary unique keys (opts['sharedstring_keys']).",
]

# ----------------------------------------------------------------------------------------------
# numbers

_WS = " \t\r\n"
_DEC_RE = re.compile(r"[+-]?(?:[0-9]+(?:\.[0-9]*)?|\.[0-9]+)(?:[eE]([+-]?[0-9]+))?\Z")
_INT_RE = re.compile(r"-?[0-9]+\Z")
_UINT_RE = re.compile(r"[0-9]+\Z")
_NAN32 = "7fc00000"
_NAN64 = "7ff8000000000000"
_INF = float("inf")


def _f32_bits(x):
    """Round a (non-NaN) Python float to f32, IEEE ties-to-even, overflow -> infinity. Returns the bits."""
    try:
        return struct.unpack("<I", struct.pack("<f", x))[0]
    except OverflowError:
        return 0x7F800000 if x > 0 else 0xFF800000


def _bits_f32(b):
    return struct.unpack("<f", struct.pack("<I", b))[0]


def _mag_val(b):
    """Value of positive f32 bits, with the infinity slot standing for 2^128."""
    return 2.0 ** 128 if b == 0x7F800000 else _bits_f32(b)


def _f32_bits_double_rounded(s):
    """decimal text -> f64 -> f32 (what a naive decoder does). `s` is a finite decimal."""
    return _f32_bits(float(s))


def _f32_bits_exact(s):
    """decimal text -> correctly rounded f32 bits. `s` matches _DEC_RE."""
    x = float(s)
    b = _f32_bits(x)
    if x == 0.0 or x in (_INF, -_INF):
        return b
    sign = b & 0x80000000
    ax = abs(x)
    pb = b & 0x7FFFFFFF
    pf = _mag_val(pb)
    if pf == ax:
        return b
    if pf < ax:
        lo_b, hi_b = pb, pb + 1
    else:
        lo_b, hi_b = pb - 1, pb
    lo, hi = _mag_val(lo_b), _mag_val(hi_b)
    if (ax - lo) != (hi - ax):
        return b
    # x (the f64) is exactly a midpoint of two f32 values: consult the exact decimal
    m = _DEC_RE.match(s)
    if len(s) > 4000 or (m.group(1) and abs(int(m.group(1))) > 5000):
        return b
    q = abs(Fraction(s))
    fx = Fraction(ax)
    if q > fx:
        return sign | hi_b
    if q < fx:
        return sign | lo_b
    return b


def _float_special(s):
    if s == "INF" or s == "+INF":
        return _INF
    if s == "-INF":
        return -_INF
    return None


def parse_f32(s, what="float"):
    """xml.md float text -> f32 hex."""
    if s == "NAN":
        return _NAN32
    sp = _float_special(s)
    if sp is not None:
        return "7f800000" if sp > 0 else "ff800000"
    if not _DEC_RE.match(s):
        raise RefError("%s: %r is not a valid float" % (what, s))
    return "%08x" % _f32_bits_exact(s)


def parse_f64(s, what="double"):
    """xml.md double text -> f64 hex."""
    if s == "NAN":
        return _NAN64
    sp = _float_special(s)
    if sp is None:
        if not _DEC_RE.match(s):
            raise RefError("%s: %r is not a valid double" % (what, s))
        sp = float(s)
    return struct.pack(">d", sp).hex()


def _parse_int(s, lo, hi, what, unsigned=False):
    if not (_UINT_RE if unsigned else _INT_RE).match(s):
        raise RefError("%s: %r is not a valid integer" % (what, s))
    v = int(s)
    if not (lo <= v <= hi):
        raise RefError("%s: %d is outside [%d, %d]" % (what, v, lo, hi))
    return v


_SHORT32 = {}


def format_f32(h):
    """Shortest decimal text (or INF/-INF/NAN) that parse_f32 - and a double-rounding parser - maps back to h."""
    r = _SHORT32.get(h)
    if r is not None:
        return r
    bits = int(h, 16)
    if (bits & 0x7F800000) == 0x7F800000:
        r = "NAN" if bits & 0x7FFFFF else ("-INF" if bits >> 31 else "INF")
    else:
        x = _bits_f32(bits)
        for n in range(1, 18):
            r = "%.*g" % (n, x)
            if _f32_bits_exact(r) == bits and _f32_bits_double_rounded(r) == bits:
                break
        else:  # pragma: no cover
            raise AssertionError("no round-trip text for f32 %s" % h)
    if len(_SHORT32) < 200000:
        _SHORT32[h] = r
    return r


def format_f64(h):
    bits = int(h, 16)
    if (bits & 0x7FF0000000000000) == 0x7FF0000000000000:
        return "NAN" if bits & 0xFFFFFFFFFFFFF else ("-INF" if bits >> 63 else "INF")
    x = struct.unpack(">d", bytes.fromhex(h))[0]
    r = repr(x)
    if r.endswith(".0"):
        r = r[:-2]
    assert struct.pack(">d", float(r)).hex() == h
    return r


def _b64decode(text, what):
    s = "".join(ch for ch in text if ch not in _WS)
    try:
        return base64.b64decode(s.encode("ascii"), validate=True)
    except Exception as ex:
        raise RefError("%s: invalid base64 (%s)" % (what, ex))


# ----------------------------------------------------------------------------------------------
# decoder

_I32 = (-2**31, 2**31 - 1)
_I16 = (-32768, 32767)
_CF_FIELDS = ("X", "Y", "Z", "R00", "R01", "R02", "R10", "R11", "R12", "R20", "R21", "R22")


def _new_facts():
    return {"version": None, "items": 0, "referents": [], "items_without_referent": 0,
            "properties_elements_per_item": [], "sharedstring_defs": [], "sharedstring_uses": [],
            "null_refs": 0, "unknown_elements": [],
            "violations": [], "dangling_refs": 0, "duplicate_referents": [], "duplicate_props": 0,
            "items_without_name": 0, "bad_name_props": [], "meta": [], "externals": [],
            "sharedstrings_elements": 0, "padded_scalars": 0, "nonlowercase_bools": 0, "legacy_content": 0,
            "contentid_binary_or_hash": 0, "child_order_deviations": 0, "stray_text": 0,
            "nonzero_colorseq_envelopes": 0, "seq_missing_endpoints": 0, "color3uint8_top_not_ff": 0,
            "roblox_attrs": {}}


class _Decoder:
    def __init__(self):
        self.facts = _new_facts()
        self.refmap = {}        # referent -> path
        self.ref_fix = []       # (container, key, referent)
        self.ss_fix = []        # (value dict, md5 key, what)
        self.ss_defs = {}       # md5 -> bytes

    # -- low level helpers ---------------------------------------------------------------
    def stray(self, e):
        n = 0
        if e.text and e.text.strip(_WS):
            n += 1
        for ch in e:
            if ch.tail and ch.tail.strip(_WS):
                n += 1
        self.facts["stray_text"] += n

    def raw(self, e, what):
        if len(e):
            raise RefError("%s: unexpected child element <%s> inside <%s>" % (what, e[0].tag, e.tag))
        return e.text or ""

    def scalar(self, e, what):
        t = self.raw(e, what)
        s = t.strip(_WS)
        if s != t:
            self.facts["padded_scalars"] += 1
        return s

    def fields(self, e, required, what, optional=()):
        self.stray(e)
        got = {}
        order = []
        for ch in e:
            tag = ch.tag
            if not isinstance(tag, str) or (tag not in required and tag not in optional):
                raise RefError("%s: unexpected child element <%s> inside <%s>" % (what, tag, e.tag))
            if tag in got:
                raise RefError("%s: duplicate child element <%s> inside <%s>" % (what, tag, e.tag))
            got[tag] = ch
            order.append(tag)
        for r in required:
            if r not in got:
                raise RefError("%s: missing child element <%s> inside <%s>" % (what, r, e.tag))
        if order != [n for n in tuple(required) + tuple(optional) if n in got]:
            self.facts["child_order_deviations"] += 1
        return got

    def f32(self, e, what):
        return parse_f32(self.scalar(e, what), what)

    def i32(self, e, what):
        return _parse_int(self.scalar(e, what), _I32[0], _I32[1], what)

    def i16(self, e, what):
        return _parse_int(self.scalar(e, what), _I16[0], _I16[1], what)

    def boolean(self, e, what):
        s = self.scalar(e, what)
        low = s.lower()
        if low not in ("true", "false") or not s.isascii():
            raise RefError("%s: %r is not a bool" % (what, s))
        if s != low:
            self.facts["nonlowercase_bools"] += 1
        return low == "true"

    def floats(self, e, what):
        t = self.raw(e, what)
        t = t.strip(_WS)
        return [parse_f32(tok, what) for tok in re.split(r"[ \t\r\n]+", t)] if t else []

    def vec(self, e, names, what):
        f = self.fields(e, names, what)
        return [self.f32(f[n], what + "." + n) for n in names]

    def cframe(self, e, what):
        f = self.fields(e, _CF_FIELDS, what)
        v = [self.f32(f[n], what + "." + n) for n in _CF_FIELDS]
        return {"pos": v[:3], "rot": v[3:]}

    def contentid_child(self, e, what):
        """<X><url>..</url></X> | <X><null></null></X> | legacy binary/hash -> (kind, text)."""
        self.stray(e)
        kids = list(e)
        if len(kids) != 1:
            raise RefError("%s: <%s> must have exactly one child element, found %d" % (what, e.tag, len(kids)))
        k = kids[0]
        if k.tag == "url":
            return "url", self.raw(k, what + ".url")
        if k.tag == "null":
            self.null_empty(k, what)
            return "null", ""
        if k.tag in ("binary", "hash"):
            self.facts["contentid_binary_or_hash"] += 1
            return k.tag, ""
        raise RefError("%s: unexpected child element <%s> inside <%s>" % (what, k.tag, e.tag))

    def null_empty(self, k, what):
        if len(k) or (k.text or "") != "":
            raise RefError("%s: <null> must be empty" % what)

    def pending_ref(self, container, key, referent):
        if referent == "null":
            self.facts["null_refs"] += 1
        self.ref_fix.append((container, key, referent))

    # -- type elements -------------------------------------------------------------------
    def t_Axes(self, e, w):
        f = self.fields(e, ("axes",), w)
        return {"t": "Axes", "v": _parse_int(self.scalar(f["axes"], w), 0, 7, w)}

    def t_Faces(self, e, w):
        f = self.fields(e, ("faces",), w)
        return {"t": "Faces", "v": _parse_int(self.scalar(f["faces"], w), 0, 63, w)}

    def t_BinaryString(self, e, w):
        return {"t": "BinaryString", "v": _b64decode(self.raw(e, w), w).hex()}

    def t_bool(self, e, w):
        return {"t": "Bool", "v": self.boolean(e, w)}

    def t_BrickColor(self, e, w):
        return {"t": "BrickColor", "v": _parse_int(self.scalar(e, w), 0, 2**32 - 1, w)}

    def t_Color3(self, e, w):
        if len(e) == 0:
            raise RefError("%s: <Color3> needs R, G and B child elements (a packed-integer form is not "
                           "documented in xml.md)" % w)
        return {"t": "Color3", "v": self.vec(e, ("R", "G", "B"), w)}

    def t_Color3uint8(self, e, w):
        n = _parse_int(self.scalar(e, w), 0, 2**32 - 1, w, unsigned=True)
        if (n >> 24) != 0xFF:
            self.facts["color3uint8_top_not_ff"] += 1
        return {"t": "Color3uint8", "v": [(n >> 16) & 255, (n >> 8) & 255, n & 255]}

    def endpoints(self, kps):
        times = {k[0] for k in kps}
        if not ("00000000" in times or "80000000" in times) or "3f800000" not in times:
            self.facts["seq_missing_endpoints"] += 1

    def t_ColorSequence(self, e, w):
        fl = self.floats(e, w)
        if len(fl) % 5:
            raise RefError("%s: ColorSequence has %d numbers, not a multiple of 5" % (w, len(fl)))
        kps = []
        for i in range(0, len(fl), 5):
            if fl[i + 4] not in ("00000000", "80000000"):
                self.facts["nonzero_colorseq_envelopes"] += 1
            kps.append(fl[i:i + 4])
        self.endpoints(kps)
        return {"t": "ColorSequence", "v": kps}

    def t_NumberSequence(self, e, w):
        fl = self.floats(e, w)
        if len(fl) % 3:
            raise RefError("%s: NumberSequence has %d numbers, not a multiple of 3" % (w, len(fl)))
        kps = [fl[i:i + 3] for i in range(0, len(fl), 3)]
        self.endpoints(kps)
        return {"t": "NumberSequence", "v": kps}

    def t_NumberRange(self, e, w):
        fl = self.floats(e, w)
        if len(fl) != 2:
            raise RefError("%s: NumberRange has %d numbers, expected 2" % (w, len(fl)))
        return {"t": "NumberRange", "v": fl}

    def t_Content(self, e, w):
        self.stray(e)
        kids = list(e)
        if len(kids) != 1:
            raise RefError("%s: <Content> must have exactly one child element, found %d" % (w, len(kids)))
        k = kids[0]
        if k.tag == "null":
            self.null_empty(k, w)
            return {"t": "Content", "v": {"k": "None"}}
        if k.tag == "uri":
            return {"t": "Content", "v": {"k": "Uri", "uri": self.raw(k, w + ".uri")}}
        if k.tag == "Ref":
            v = {"k": "Object", "ref": None}
            self.pending_ref(v, "ref", self.raw(k, w + ".Ref"))
            return {"t": "Content", "v": v}
        if k.tag in ("url", "binary", "hash"):
            self.facts["legacy_content"] += 1
            return {"t": "ContentId", "v": self.contentid_child(e, w)[1]}
        raise RefError("%s: unexpected child element <%s> inside <Content>" % (w, k.tag))

    def t_ContentId(self, e, w):
        return {"t": "ContentId", "v": self.contentid_child(e, w)[1]}

    def t_CoordinateFrame(self, e, w):
        return {"t": "CFrame", "v": self.cframe(e, w)}

    def t_OptionalCoordinateFrame(self, e, w):
        f = self.fields(e, (), w, optional=("CFrame",))
        return {"t": "OptionalCFrame", "v": self.cframe(f["CFrame"], w + ".CFrame") if "CFrame" in f else None}

    def t_double(self, e, w):
        return {"t": "Float64", "v": parse_f64(self.scalar(e, w), w)}

    def t_float(self, e, w):
        return {"t": "Float32", "v": self.f32(e, w)}

    def t_Font(self, e, w):
        f = self.fields(e, ("Family", "Weight", "Style"), w, optional=("CachedFaceId",))
        family = self.contentid_child(f["Family"], w + ".Family")[1]
        weight = self.i32(f["Weight"], w + ".Weight")
        style = self.scalar(f["Style"], w + ".Style")
        if style not in ("Normal", "Italic"):
            raise RefError("%s.Style: %r is not Normal or Italic" % (w, style))
        cached = None
        if "CachedFaceId" in f:
            kind, txt = self.contentid_child(f["CachedFaceId"], w + ".CachedFaceId")
            cached = txt if kind == "url" else None
        return {"t": "Font", "v": {"family": family, "weight": weight, "style": 1 if style == "Italic" else 0,
                                   "cached": cached}}

    def t_int(self, e, w):
        return {"t": "Int32", "v": self.i32(e, w)}

    def t_int64(self, e, w):
        return {"t": "Int64", "v": _parse_int(self.scalar(e, w), -2**63, 2**63 - 1, w)}

    def t_PhysicalProperties(self, e, w):
        names = ("Density", "Friction", "Elasticity", "FrictionWeight", "ElasticityWeight")
        f = self.fields(e, ("CustomPhysics",), w, optional=names)
        custom = self.boolean(f["CustomPhysics"], w + ".CustomPhysics")
        if not custom:
            if len(f) != 1:
                raise RefError("%s: CustomPhysics is false but other child elements are present" % w)
            return {"t": "PhysicalProperties", "v": None}
        for n in names:
            if n not in f:
                raise RefError("%s: CustomPhysics is true but <%s> is missing" % (w, n))
        return {"t": "PhysicalProperties", "v": [self.f32(f[n], w + "." + n) for n in names]}

    def t_ProtectedString(self, e, w):
        return {"t": "String", "v": self.raw(e, w)}

    def t_string(self, e, w):
        return {"t": "String", "v": self.raw(e, w)}

    def t_Ray(self, e, w):
        f = self.fields(e, ("origin", "direction"), w)
        return {"t": "Ray", "v": self.vec(f["origin"], ("X", "Y", "Z"), w + ".origin")
                + self.vec(f["direction"], ("X", "Y", "Z"), w + ".direction")}

    def t_Rect2D(self, e, w):
        f = self.fields(e, ("min", "max"), w)
        return {"t": "Rect", "v": self.vec(f["min"], ("X", "Y"), w + ".min") + self.vec(f["max"], ("X", "Y"), w + ".max")}

    def t_Ref(self, e, w):
        v = {"t": "Ref", "v": None}
        self.pending_ref(v, "v", self.raw(e, w))
        return v

    def t_SharedString(self, e, w):
        key = self.raw(e, w)
        v = {"t": "SharedString", "v": None}
        self.facts["sharedstring_uses"].append(key)
        self.ss_fix.append((v, key, w))
        return v

    def t_token(self, e, w):
        return {"t": "Enum", "v": _parse_int(self.scalar(e, w), 0, 2**32 - 1, w, unsigned=True)}

    def t_UDim(self, e, w):
        f = self.fields(e, ("S", "O"), w)
        return {"t": "UDim", "v": [self.f32(f["S"], w + ".S"), self.i32(f["O"], w + ".O")]}

    def t_UDim2(self, e, w):
        f = self.fields(e, ("XS", "XO", "YS", "YO"), w)
        return {"t": "UDim2", "v": [[self.f32(f["XS"], w + ".XS"), self.i32(f["XO"], w + ".XO")],
                                    [self.f32(f["YS"], w + ".YS"), self.i32(f["YO"], w + ".YO")]]}

    def t_UniqueId(self, e, w):
        s = self.scalar(e, w)
        if not re.match(r"[0-9a-fA-F]{32}\Z", s):
            raise RefError("%s: UniqueId must be 32 hex digits, got %r" % (w, s))
        rnd = int(s[0:16], 16)
        if rnd >= 2**63:
            rnd -= 2**64
        return {"t": "UniqueId", "v": {"index": int(s[24:32], 16), "time": int(s[16:24], 16), "random": rnd}}

    def t_Vector2(self, e, w):
        return {"t": "Vector2", "v": self.vec(e, ("X", "Y"), w)}

    def t_Vector3(self, e, w):
        return {"t": "Vector3", "v": self.vec(e, ("X", "Y", "Z"), w)}

    def t_Vector3int16(self, e, w):
        f = self.fields(e, ("X", "Y", "Z"), w)
        return {"t": "Vector3int16", "v": [self.i16(f[n], w + "." + n) for n in ("X", "Y", "Z")]}

    def t_Vector2int16(self, e, w):
        f = self.fields(e, ("X", "Y"), w)
        return {"t": "Vector2int16", "v": [self.i16(f[n], w + "." + n) for n in ("X", "Y")]}

    def t_SecurityCapabilities(self, e, w):
        return {"t": "SecurityCapabilities", "v": _parse_int(self.scalar(e, w), 0, 2**64 - 1, w, unsigned=True)}

    # -- structure -----------------------------------------------------------------------
    def properties(self, e, node, what, seen):
        self.stray(e)
        for p in e:
            tag = p.tag
            h = getattr(self, "t_" + tag, None) if isinstance(tag, str) and re.match(r"\w+\Z", tag) else None
            if h is None:
                self.facts["unknown_elements"].append(tag if isinstance(tag, str) else repr(tag))
                continue
            name = p.get("name")
            if name is None:
                raise RefError("%s: <%s> property element without name attribute" % (what, tag))
            val = h(p, "%s.%s" % (what, name))
            if name in seen:
                self.facts["duplicate_props"] += 1
            seen.add(name)
            if name == "Name":
                if val["t"] == "String":
                    node["name"] = val["v"]
                else:
                    self.facts["bad_name_props"].append(val["t"])
                continue
            node["props"][name] = val

    def item(self, e, path):
        f = self.facts
        what = "Item" + "".join("[%d]" % i for i in path)
        cls = e.get("class")
        if cls is None:
            raise RefError("%s: <Item> without class attribute" % what)
        f["items"] += 1
        ref = e.get("referent")
        if ref is None:
            f["items_without_referent"] += 1
            f["violations"].append("%s: Item without referent" % what)
        else:
            f["referents"].append(ref)
            if ref == "null":
                f["violations"].append("%s: referent is the reserved value 'null'" % what)
            if ref in self.refmap:
                f["duplicate_referents"].append(ref)
                f["violations"].append("%s: duplicate referent %r" % (what, ref))
            else:
                self.refmap[ref] = list(path)
        slot = len(f["properties_elements_per_item"])
        f["properties_elements_per_item"].append(0)
        node = {"class": cls, "name": None, "props": {}, "children": []}
        seen = set()
        self.stray(e)
        nprops = 0
        for ch in e:
            if ch.tag == "Properties":
                nprops += 1
                self.properties(ch, node, what, seen)
            elif ch.tag == "Item":
                node["children"].append(self.item(ch, path + [len(node["children"])]))
            else:
                f["violations"].append("%s: unexpected element <%s> under Item" % (what, ch.tag))
        f["properties_elements_per_item"][slot] = nprops
        if nprops != 1:
            f["violations"].append("%s: %d Properties elements (must be exactly one)" % (what, nprops))
        if node["name"] is None:
            f["items_without_name"] += 1
            node["name"] = cls
        return node

    def shared_strings(self, e):
        f = self.facts
        self.stray(e)
        for d in e:
            if d.tag != "SharedString":
                f["violations"].append("unexpected element <%s> under SharedStrings" % d.tag)
                continue
            key = d.get("md5")
            if key is None:
                f["violations"].append("SharedString definition without md5 attribute")
                continue
            data = _b64decode(self.raw(d, "SharedString[md5=%r]" % key), "SharedString[md5=%r]" % key)
            f["sharedstring_defs"].append(key)
            if key in self.ss_defs:
                f["violations"].append("duplicate SharedString md5 %r" % key)
            else:
                self.ss_defs[key] = data

    def document(self, root):
        f = self.facts
        if root.tag != "roblox":
            raise RefError("root element is <%s>, expected <roblox>" % root.tag)
        f["roblox_attrs"] = dict(root.attrib)
        f["version"] = root.get("version")
        if f["version"] is None:
            f["violations"].append("roblox element without version attribute")
        elif f["version"] != "4":
            f["violations"].append("roblox version is %r, must be '4'" % f["version"])
        self.stray(root)
        roots = []
        for ch in root:
            if ch.tag == "Item":
                roots.append(self.item(ch, [len(roots)]))
            elif ch.tag == "Meta":
                if ch.get("name") is None:
                    f["violations"].append("Meta element without name attribute")
                f["meta"].append([ch.get("name"), "".join(ch.itertext())])
            elif ch.tag == "External":
                f["externals"].append("".join(ch.itertext()))
            elif ch.tag == "SharedStrings":
                f["sharedstrings_elements"] += 1
                if f["sharedstrings_elements"] > 1:
                    f["violations"].append("more than one SharedStrings element")
                self.shared_strings(ch)
            else:
                f["violations"].append("unexpected element <%s> under roblox" % ch.tag)
        for container, key, referent in self.ref_fix:
            if referent == "null":
                container[key] = None
            elif referent in self.refmap:
                container[key] = list(self.refmap[referent])
            else:
                f["dangling_refs"] += 1
                container[key] = None
        for val, key, w in self.ss_fix:
            if key not in self.ss_defs:
                raise RefError("%s: SharedString key %r has no definition" % (w, key))
            val["v"] = self.ss_defs[key].hex()
        return {"roots": roots}


def decode_ex(text):
    """Decode an XML model. Returns (dump, facts)."""
    if isinstance(text, (bytearray, memoryview)):
        text = bytes(text)
    if not isinstance(text, (bytes, str)):
        raise RefError("decode expects bytes or str")
    try:
        root = ET.fromstring(text)
    except ET.ParseError as ex:
        raise RefError("not well-formed XML: %s" % ex)
    except (ValueError, UnicodeError, LookupError) as ex:
        raise RefError("cannot parse XML: %s" % ex)
    d = _Decoder()
    dump = d.document(root)
    return dump, d.facts


def decode(text):
    """Decode an XML model into a FORMAT.md dump; MUST-level violations are RefErrors."""
    dump, facts = decode_ex(text)
    if facts["violations"]:
        raise RefError("document violates xml.md: " + "; ".join(facts["violations"][:5]))
    return dump


# ----------------------------------------------------------------------------------------------
# encoder

_H8 = re.compile(r"[0-9a-f]{8}\Z")
_H16 = re.compile(r"[0-9a-f]{16}\Z")
_HEX = re.compile(r"(?:[0-9a-f]{2})*\Z")
_UNSUPPORTED = ("Region3", "Region3int16", "EnumItem", "Tags", "Attributes", "MaterialColors")


def _xml_char_ok(c):
    o = ord(c)
    return o in (9, 10, 13) or 0x20 <= o <= 0xD7FF or 0xE000 <= o <= 0xFFFD or 0x10000 <= o <= 0x10FFFF


def _check_chars(s, what):
    if not isinstance(s, str):
        raise RefError("%s: expected str, got %r" % (what, s))
    for c in s:
        if not _xml_char_ok(c):
            raise RefError("%s: character U+%04X is not representable in XML 1.0" % (what, ord(c)))
    return s


class _Encoder:
    def __init__(self, dump, rng, opts):
        self.rng = rng
        self.opts = dict(opts or {})
        self.dump = dump
        self.ss_keys = {}      # content hex -> [keys]
        self.ss_order = []     # (key, content bytes)
        self.used_keys = set()
        r = rng
        ws = self.opts.get("whitespace")
        if ws is None:
            ws = r.choice(["pretty", "pretty", "none", "random"]) if r else "pretty"
        if ws not in ("pretty", "none", "random"):
            raise RefError("opts['whitespace'] must be pretty|none|random")
        if ws == "random" and r is None:
            ws = "pretty"
        self.ws_mode = ws
        self.nl = r.choice(["\n", "\n", "\r\n"]) if r else "\n"
        self.indent = r.choice(["\t", "  ", "    ", ""]) if r else "\t"
        self.comments = self.flag("comments", 0.4)
        self.value_comments = self.flag("comments_in_values", 0.5)   # comments inside struct-like type elements
        self.in_value = False
        self.quote = '"'

    # -- option handling -----------------------------------------------------------------
    def flag(self, key, p):
        v = self.opts.get(key)
        if v is True:
            return True
        if v is False:
            return False
        return self.rng is not None and self.rng.random() < p

    def xflag(self, key, p):
        """freedoms that are off unless explicitly enabled"""
        if self.opts.get(key) is not True:
            return False
        return self.rng is None or self.rng.random() < p

    def pick(self, key, choices):
        v = self.opts.get(key)
        if v is not None:
            if v not in choices:
                raise RefError("opts[%r] must be one of %r" % (key, choices))
            return v
        return self.rng.choice(choices) if self.rng else choices[0]

    # -- lexical helpers -----------------------------------------------------------------
    def comment(self):
        r = self.rng
        body = r.choice(["", " c ", "x", " <Item class=\"Part\"> ", "a - b", "\n multi\n line \n", " &amp; ]]> "])
        return "<!--" + body + "-->"

    def gap(self, level):
        r = self.rng
        if self.ws_mode == "none":
            s = ""
        elif self.ws_mode == "pretty":
            s = self.nl + self.indent * level
        else:
            s = r.choice(["", " ", "\n", "\r\n", "\t", "\n" + "\t" * level, "\n" + "  " * level, "\n\n ", "  \n"])
        if self.comments and r is not None and (not self.in_value or self.value_comments) and r.random() < 0.08:
            s += self.comment() + (s if r.random() < 0.5 else "")
        return s

    def attr(self, name, value, what):
        _check_chars(value, what)
        q = self.quote if self.rng is None else self.rng.choice('""\'')
        out = []
        for c in value:
            if c == "&":
                out.append("&amp;")
            elif c == "<":
                out.append("&lt;")
            elif c == ">":
                out.append("&gt;")
            elif c == q:
                out.append("&quot;" if q == '"' else "&apos;")
            elif c in "\t\n\r":
                out.append("&#%d;" % ord(c))
            else:
                out.append(c)
        return " %s=%s%s%s" % (name, q, "".join(out), q)

    def _escaped(self, s, base):
        """escaped character data for s, which is self.cur[base:base+len(s)]"""
        r = self.rng
        refs = r is not None and self.flag("charrefs", 0.3)
        full = self.cur
        out = []
        for i, c in enumerate(s):
            if c == "&":
                out.append("&amp;")
            elif c == "<":
                out.append("&lt;")
            elif c == "\r":
                out.append("&#13;" if r is None or r.random() < 0.5 else "&#xD;")
            elif c == ">":
                j = base + i
                if r is not None and r.random() < 0.5 and full[max(0, j - 2):j] != "]]":
                    out.append(">")
                else:
                    out.append("&gt;")
            elif r is not None and c in "\"'" and r.random() < 0.3:
                out.append("&quot;" if c == '"' else "&apos;")
            elif refs and r.random() < 0.1:
                out.append(("&#%d;" if r.random() < 0.5 else "&#x%X;") % ord(c))
            else:
                out.append(c)
        return "".join(out)

    def text(self, s, what, cdata_pref=0.3):
        """character content for string-like elements"""
        _check_chars(s, what)
        r = self.rng
        self.cur = s
        if r is None or not self.flag("cdata", cdata_pref):
            return self._escaped(s, 0)
        # split into 1..4 chunks, each CDATA or escaped
        cuts = sorted(r.randrange(0, len(s) + 1) for _ in range(r.randrange(0, 4))) if s else []
        out = []
        prev = 0
        for cut in cuts + [len(s)]:
            chunk = s[prev:cut]
            if "\r" not in chunk and "]]>" not in chunk and r.random() < 0.7:
                out.append("<![CDATA[" + chunk + "]]>")
            else:
                out.append(self._escaped(chunk, prev))
            prev = cut
        return "".join(out)

    def el(self, tag, attrs, content, can_self_close=True):
        if content == "" and can_self_close and self.flag("self_closing", 0.3):
            return "<%s%s/>" % (tag, attrs)
        return "<%s%s>%s</%s>" % (tag, attrs, content, tag)

    def kids(self, level, pairs):
        """inner content of a struct-like element: pairs of (tag, content)"""
        out = []
        for tag, content in pairs:
            out.append(self.gap(level))
            out.append("<%s>%s</%s>" % (tag, content, tag))
        out.append(self.gap(level - 1))
        return "".join(out)

    # -- numbers -------------------------------------------------------------------------
    def _spell(self, canon, check):
        r = self.rng
        for _ in range(4):
            s = self._spell_once(canon)
            if _DEC_RE.match(s) and check(s):
                return s
        return canon

    def _spell_once(self, canon):
        r = self.rng
        d = Decimal(canon)
        sign, digits, e = d.as_tuple()
        m = "".join(map(str, digits))
        if r.random() < 0.2:
            z = r.randrange(1, 4)
            m += "0" * z
            e -= z
        mode = r.choice(["fixed", "fixed", "sci", "intexp", "split"])
        if mode == "fixed" and -30 <= e <= 30:
            p = len(m) + e
            if p <= 0:
                ip, fp = "", "0" * (-p) + m
            elif p >= len(m):
                ip, fp = m + "0" * (p - len(m)), ""
            else:
                ip, fp = m[:p], m[p:]
            exp = None
        else:
            p = {"intexp": len(m), "sci": 1}.get(mode, r.randrange(0, len(m) + 1))
            ip, fp = m[:p], m[p:]
            exp = e + len(m) - p
        if ip == "":
            ip = r.choice(["", "0"])
        if fp == "":
            mant = ip + r.choice(["", "", ".", ".0", ".00"])
        else:
            mant = ip + "." + fp
        if r.random() < 0.1:
            mant = "0" * r.randrange(1, 3) + mant
        s = mant
        if exp is not None and (exp != 0 or r.random() < 0.5):
            es = "%0*d" % (r.choice([1, 1, 2, 3]), abs(exp))
            s += r.choice("eE") + ("-" if exp < 0 else r.choice(["", "+"])) + es
        return ("-" if sign else ("+" if r.random() < 0.1 else "")) + s

    def f32(self, h, what):
        if not isinstance(h, str) or not _H8.match(h):
            raise RefError("%s: expected f32 as 8 lowercase hex digits, got %r" % (what, h))
        canon = format_f32(h)
        if canon == "INF":
            return "+INF" if self.flag("plus_inf", 0.3) else "INF"
        if canon in ("-INF", "NAN") or self.rng is None or not self.flag("float_variants", 0.5):
            return canon
        bits = int(h, 16)
        if self.rng.random() < 0.15:
            hi = "%.*g" % (self.rng.choice([9, 12, 17]), _bits_f32(bits))
            if _f32_bits_exact(hi) == bits and _f32_bits_double_rounded(hi) == bits:
                canon = hi
        return self._spell(canon, lambda s: _f32_bits_exact(s) == bits and _f32_bits_double_rounded(s) == bits)

    def f64(self, h, what):
        if not isinstance(h, str) or not _H16.match(h):
            raise RefError("%s: expected f64 as 16 lowercase hex digits, got %r" % (what, h))
        canon = format_f64(h)
        if canon == "INF":
            return "+INF" if self.flag("plus_inf", 0.3) else "INF"
        if canon in ("-INF", "NAN") or self.rng is None or not self.flag("float_variants", 0.5):
            return canon
        if self.rng.random() < 0.15:
            hi = "%.*g" % (self.rng.choice([17, 20]), float(canon))
            if struct.pack(">d", float(hi)).hex() == h:
                canon = hi
        return self._spell(canon, lambda s: struct.pack(">d", float(s)).hex() == h)

    def int_(self, v, lo, hi, what):
        if isinstance(v, bool) or not isinstance(v, int) or not (lo <= v <= hi):
            raise RefError("%s: expected integer in [%d, %d], got %r" % (what, lo, hi, v))
        return str(v)

    def bool_(self, v, what):
        if not isinstance(v, bool):
            raise RefError("%s: expected bool, got %r" % (what, v))
        s = "true" if v else "false"
        if self.xflag("bool_case", 0.5) and self.rng is not None:
            s = "".join(c.upper() if self.rng.random() < 0.5 else c for c in s)
        return s

    def seq(self, v, n, what):
        if not isinstance(v, (list, tuple)) or len(v) != n:
            raise RefError("%s: expected a list of %d element(s), got %r" % (what, n, v))
        return v

    def b64(self, data):
        s = base64.b64encode(data).decode("ascii")
        mode = self.pick("b64_wrap", ["none", "lf", "crlf"])
        if mode == "none" or not s:
            return s
        nl = "\n" if mode == "lf" else "\r\n"
        lines = [s[i:i + 72] for i in range(0, len(s), 72)]
        out = nl.join(lines)
        if self.rng is not None and self.rng.random() < 0.3:
            out = nl + out + nl
        return out

    def floats_text(self, toks):
        s = " ".join(toks)
        v = self.opts.get("seq_trailing_space")
        trailing = bool(v) if v is not None else (True if self.rng is None else self.rng.random() < 0.7)
        return s + " " if toks and trailing else s

    # -- shared strings / referents ------------------------------------------------------
    def ss_key(self, content_hex):
        keys = self.ss_keys.setdefault(content_hex, [])
        r = self.rng
        if keys and not (r is not None and r.random() < 0.15):
            return keys[0] if r is None else r.choice(keys)
        data = bytes.fromhex(content_hex)
        style = self.pick("sharedstring_keys", ["md5", "random"])
        key = base64.b64encode(hashlib.md5(data).digest()).decode("ascii")
        n = 0
        while style == "random" or key in self.used_keys:
            n += 1
            if r is not None:
                key = r.choice([base64.b64encode(bytes(r.getrandbits(8) for _ in range(16))).decode("ascii"),
                                "key-%d" % r.randrange(10**6), "%032x" % r.getrandbits(128)])
            else:
                key = "key-%d-%d" % (len(self.used_keys), n)
            if key not in self.used_keys:
                break
        self.used_keys.add(key)
        keys.append(key)
        self.ss_order.append((key, data))
        return key

    def assign_referents(self):
        r = self.rng
        nodes = []

        def walk(n, path):
            nodes.append(tuple(path))
            for i, c in enumerate(n["children"]):
                walk(c, path + [i])
        for i, n in enumerate(self.dump["roots"]):
            walk(n, [i])
        style = self.pick("referents", ["rbx", "int", "mixed", "lookalike"])
        # "lookalike": referents are arbitrary unique strings compared verbatim (xml.md/Ref), so strings that differ only in
        # padding, letter case or leading zeros are DIFFERENT referents; only the exact text "null" is reserved
        look = ["7", "7 ", " 7", " 7 ", "07", "007", "7.0", "+7", "rbx7", "RBX7", "Rbx7", "NULL", "Null", "null ", " null", "nul", "a", "A", "a ", " a",
                "RBX00000000000000000000000000000000", "rbx00000000000000000000000000000000", "0", "-0", "00", "", "  "]
        if r is not None:
            r.shuffle(look)
        used = {"null"}
        self.referent = {}
        ints = list(range(len(nodes) * 3 + 3))
        if r is not None:
            r.shuffle(ints)
        for k, p in enumerate(nodes):
            while True:
                st = style if style != "mixed" else (r.choice(["rbx", "int", "word"]) if r else "rbx")
                if st == "int":
                    ref = str(ints.pop()) if r is not None else str(k)
                elif st == "lookalike":
                    ref = look.pop() if look else "L%d " % ints.pop()
                    if ref.strip() == "" :
                        continue    # an empty / blank referent attribute is not "a unique string" anybody could refer to
                elif st == "word":
                    ref = r.choice(["ref-%d", "R%d", "%d:x", "Item %d", "núll%d"]) % r.randrange(10**6)
                else:
                    ref = "RBX" + ("%032X" % (r.getrandbits(128) if r is not None else k + 1))
                if ref not in used:
                    break
            used.add(ref)
            self.referent[p] = ref
        self.used_referents = used

    def ref_text(self, path, what):
        if path is None:
            if self.xflag("dangling_null_refs", 0.3):
                while True:
                    s = "RBX%032X" % (self.rng.getrandbits(128) if self.rng else 0)
                    if s not in self.used_referents:
                        return s
            return "null"
        if not isinstance(path, (list, tuple)) or tuple(path) not in self.referent:
            raise RefError("%s: path %r does not designate an instance of the dump" % (what, path))
        return self.referent[tuple(path)]

    # -- values --------------------------------------------------------------------------
    def contentid_inner(self, s, what, level):
        """inner of a ContentId-like element"""
        if s == "" and self.pick("contentid_empty", ["null", "url"]) == "null":
            return "<null></null>"
        return "<url>%s</url>" % self.text(s, what, 0.1)

    def cframe_kids(self, v, what, level):
        if not isinstance(v, dict) or set(v) != {"pos", "rot"}:
            raise RefError("%s: CFrame payload must be {'pos','rot'}, got %r" % (what, v))
        vals = list(self.seq(v["pos"], 3, what)) + list(self.seq(v["rot"], 9, what))
        return self.kids(level, [(n, self.f32(x, what)) for n, x in zip(_CF_FIELDS, vals)])

    def value(self, name, val, level, what):
        """returns the complete property element"""
        self.in_value = True
        try:
            return self._value(name, val, level, what)
        finally:
            self.in_value = False

    def _value(self, name, val, level, what):
        if not isinstance(val, dict) or set(val) != {"t", "v"}:
            raise RefError("%s: expected {'t':..,'v':..}, got %r" % (what, val))
        t, v = val["t"], val["v"]
        na = self.attr("name", name, what + " (name)")
        L = level + 1
        f32 = lambda x: self.f32(x, what)
        if t in _UNSUPPORTED:
            raise RefError("%s: type %s has no representation in xml.md" % (what, t))
        if t == "String":
            tag = "string"
            if name != "Name" and self.flag("protected_string", 0.25):
                return self.el("ProtectedString", na, self.text(v, what, 0.8))
            return self.el(tag, na, self.text(v, what))
        if t == "BinaryString":
            if not isinstance(v, str) or not _HEX.match(v):
                raise RefError("%s: BinaryString payload must be lowercase hex" % what)
            return self.el("BinaryString", na, self.b64(bytes.fromhex(v)))
        if t == "ContentId":
            _check_chars(v, what)
            tag = "Content" if self.xflag("legacy_content", 0.5) else "ContentId"
            inner = self.contentid_inner(v, what, L)
            if tag == "Content" and inner == "<null></null>" and name not in (self.opts.get("contentid_declared_names") or ()):
                # <Content><null> would read back as Content None - unless the reader knows from its database that the
                # property is a ContentId (this is how Studio itself writes an empty ContentId property)
                inner = "<url></url>"
            return "<%s%s>%s</%s>" % (tag, na, inner, tag)
        if t == "Content":
            if not isinstance(v, dict) or v.get("k") not in ("None", "Uri", "Object"):
                raise RefError("%s: bad Content payload %r" % (what, v))
            if v["k"] == "None":
                inner = "<null></null>"
            elif v["k"] == "Uri":
                inner = "<uri>%s</uri>" % self.text(v.get("uri"), what, 0.1)
            else:
                inner = "<Ref>%s</Ref>" % self.text(self.ref_text(v.get("ref"), what), what, 0.0)
            return "<Content%s>%s</Content>" % (na, inner)
        if t == "Bool":
            return self.el("bool", na, self.bool_(v, what))
        if t == "Int32":
            return self.el("int", na, self.int_(v, _I32[0], _I32[1], what))
        if t == "Int64":
            return self.el("int64", na, self.int_(v, -2**63, 2**63 - 1, what))
        if t == "Float32":
            return self.el("float", na, f32(v))
        if t == "Float64":
            return self.el("double", na, self.f64(v, what))
        if t == "Enum":
            return self.el("token", na, self.int_(v, 0, 2**32 - 1, what))
        if t == "BrickColor":
            if self.opts.get("brickcolor_as_int") is True:
                return self.el("int", na, self.int_(v, 0, 2**31 - 1, what))
            return self.el("BrickColor", na, self.int_(v, 0, 2**32 - 1, what))
        if t == "Faces":
            return self.el("Faces", na, self.kids(L, [("faces", self.int_(v, 0, 63, what))]))
        if t == "Axes":
            return self.el("Axes", na, self.kids(L, [("axes", self.int_(v, 0, 7, what))]))
        if t == "Vector2":
            return self.el("Vector2", na, self.kids(L, list(zip("XY", map(f32, self.seq(v, 2, what))))))
        if t == "Vector3":
            return self.el("Vector3", na, self.kids(L, list(zip("XYZ", map(f32, self.seq(v, 3, what))))))
        if t == "Vector2int16":
            return self.el("Vector2int16", na, self.kids(L, [(n, self.int_(x, _I16[0], _I16[1], what))
                                                             for n, x in zip("XY", self.seq(v, 2, what))]))
        if t == "Vector3int16":
            return self.el("Vector3int16", na, self.kids(L, [(n, self.int_(x, _I16[0], _I16[1], what))
                                                             for n, x in zip("XYZ", self.seq(v, 3, what))]))
        if t == "CFrame":
            return self.el("CoordinateFrame", na, self.cframe_kids(v, what, L))
        if t == "OptionalCFrame":
            if v is None:
                inner = "" if self.ws_mode != "random" or self.rng.random() < 0.5 else self.gap(level)
                return self.el("OptionalCoordinateFrame", na, inner)
            inner = self.gap(L) + "<CFrame>" + self.cframe_kids(v, what, L + 1) + "</CFrame>" + self.gap(level)
            return self.el("OptionalCoordinateFrame", na, inner)
        if t == "Color3":
            return self.el("Color3", na, self.kids(L, list(zip("RGB", map(f32, self.seq(v, 3, what))))))
        if t == "Color3uint8":
            r_, g_, b_ = [int(self.int_(x, 0, 255, what)) for x in self.seq(v, 3, what)]
            top = 0 if self.flag("color3uint8_top_zero", 0.15) else 0xFF
            return self.el("Color3uint8", na, str((top << 24) | (r_ << 16) | (g_ << 8) | b_))
        if t == "UDim":
            self.seq(v, 2, what)
            return self.el("UDim", na, self.kids(L, [("S", f32(v[0])), ("O", self.int_(v[1], _I32[0], _I32[1], what))]))
        if t == "UDim2":
            self.seq(v, 2, what)
            self.seq(v[0], 2, what)
            self.seq(v[1], 2, what)
            return self.el("UDim2", na, self.kids(L, [("XS", f32(v[0][0])), ("XO", self.int_(v[0][1], _I32[0], _I32[1], what)),
                                                      ("YS", f32(v[1][0])), ("YO", self.int_(v[1][1], _I32[0], _I32[1], what))]))
        if t == "Rect":
            self.seq(v, 4, what)
            inner = (self.gap(L) + "<min>" + self.kids(L + 1, list(zip("XY", map(f32, v[:2])))) + "</min>"
                     + self.gap(L) + "<max>" + self.kids(L + 1, list(zip("XY", map(f32, v[2:])))) + "</max>" + self.gap(level))
            return self.el("Rect2D", na, inner)
        if t == "Ray":
            self.seq(v, 6, what)
            inner = (self.gap(L) + "<origin>" + self.kids(L + 1, list(zip("XYZ", map(f32, v[:3])))) + "</origin>"
                     + self.gap(L) + "<direction>" + self.kids(L + 1, list(zip("XYZ", map(f32, v[3:])))) + "</direction>"
                     + self.gap(level))
            return self.el("Ray", na, inner)
        if t == "NumberRange":
            return self.el("NumberRange", na, self.floats_text(list(map(f32, self.seq(v, 2, what)))))
        if t == "NumberSequence":
            toks = [f32(x) for kp in v for x in self.seq(kp, 3, what)]
            return self.el("NumberSequence", na, self.floats_text(toks))
        if t == "ColorSequence":
            toks = []
            for kp in v:
                toks += [f32(x) for x in self.seq(kp, 4, what)] + ["0"]
            return self.el("ColorSequence", na, self.floats_text(toks))
        if t == "PhysicalProperties":
            if v is None:
                return self.el("PhysicalProperties", na, self.kids(L, [("CustomPhysics", self.bool_(False, what))]))
            names = ("Density", "Friction", "Elasticity", "FrictionWeight", "ElasticityWeight")
            return self.el("PhysicalProperties", na, self.kids(
                L, [("CustomPhysics", self.bool_(True, what))] + list(zip(names, map(f32, self.seq(v, 5, what))))))
        if t == "Ref":
            return self.el("Ref", na, self.text(self.ref_text(v, what), what, 0.0), can_self_close=False)
        if t == "SharedString":
            if not isinstance(v, str) or not _HEX.match(v):
                raise RefError("%s: SharedString payload must be lowercase hex" % what)
            return self.el("SharedString", na, self.text(self.ss_key(v), what, 0.0), can_self_close=False)
        if t == "Font":
            if not isinstance(v, dict) or set(v) != {"family", "weight", "style", "cached"}:
                raise RefError("%s: bad Font payload %r" % (what, v))
            if v["style"] not in (0, 1):
                raise RefError("%s: Font style %r has no name in xml.md (0=Normal, 1=Italic)" % (what, v["style"]))
            _check_chars(v["family"], what)
            pairs = [("Family", self.contentid_inner(v["family"], what, L)),
                     ("Weight", self.int_(v["weight"], _I32[0], _I32[1], what)),
                     ("Style", "Italic" if v["style"] else "Normal")]
            if v["cached"] is not None:
                _check_chars(v["cached"], what)
                pairs.append(("CachedFaceId", "<url>%s</url>" % self.text(v["cached"], what, 0.1)))
            elif self.pick("font_cached_null", ["omit", "null"]) == "null":
                pairs.append(("CachedFaceId", "<null></null>"))
            return self.el("Font", na, self.kids(L, pairs))
        if t == "UniqueId":
            if not isinstance(v, dict) or set(v) != {"index", "time", "random"}:
                raise RefError("%s: bad UniqueId payload %r" % (what, v))
            self.int_(v["index"], 0, 2**32 - 1, what)
            self.int_(v["time"], 0, 2**32 - 1, what)
            self.int_(v["random"], -2**63, 2**63 - 1, what)
            s = "%016x%08x%08x" % (v["random"] & (2**64 - 1), v["time"], v["index"])
            if self.xflag("hex_upper", 0.5):
                s = s.upper()
            return self.el("UniqueId", na, s)
        if t == "SecurityCapabilities":
            return self.el("SecurityCapabilities", na, self.int_(v, 0, 2**64 - 1, what))
        raise RefError("%s: unknown type %r" % (what, t))

    # -- structure -----------------------------------------------------------------------
    def item(self, node, path, level):
        what = "node" + "".join("[%d]" % i for i in path)
        if not isinstance(node, dict) or set(node) != {"class", "name", "props", "children"}:
            raise RefError("%s: node must have exactly class/name/props/children" % what)
        if "Name" in node["props"]:
            raise RefError("%s: 'Name' must not be a key of props" % what)
        attrs = [self.attr("class", node["class"], what + ".class"),
                 self.attr("referent", self.referent[tuple(path)], what + ".referent")]
        if self.rng is not None and self.rng.random() < 0.3:
            attrs.reverse()
        out = ["<Item" + "".join(attrs) + ">"]
        props = [("Name", {"t": "String", "v": node["name"]})] + [(k, node["props"][k]) for k in sorted(node["props"])]
        if self.flag("shuffle_props", 0.8):
            if self.rng is not None:
                self.rng.shuffle(props)
            else:
                props.reverse()
        pl = [self.gap(level + 1), "<Properties>"]
        for k, val in props:
            if not isinstance(k, str):
                raise RefError("%s: property name %r is not a str" % (what, k))
            pl.append(self.gap(level + 2))
            pl.append(self.value(k, val, level + 2, "%s.%s" % (what, k)))
        pl += [self.gap(level + 1), "</Properties>"]
        kids = []
        for i, c in enumerate(node["children"]):
            kids.append(self.gap(level + 1))
            kids.append(self.item(c, path + [i], level + 1))
        if self.xflag("exotic_order", 0.3):
            out += kids + pl
        else:
            out += pl + kids
        out += [self.gap(level), "</Item>"]
        return "".join(out)

    def document(self):
        r = self.rng
        dump = self.dump
        if not isinstance(dump, dict) or set(dump) != {"roots"} or not isinstance(dump["roots"], list):
            raise RefError("dump must be {'roots': [...]}")
        self.assign_referents()
        items = []
        for i, n in enumerate(dump["roots"]):
            items.append(self.gap(1))
            items.append(self.item(n, [i], 1))
        # extra, unused definitions
        if self.flag("extra_sharedstrings", 0.15):
            for _ in range(1 if r is None else r.randrange(1, 3)):
                data = b"unused" if r is None else bytes(r.getrandbits(8) for _ in range(r.randrange(0, 40)))
                if data.hex() not in self.ss_keys:
                    self.ss_key(data.hex())
        ss = []
        if self.ss_order or self.flag("empty_sharedstrings", 0.5):
            defs = list(self.ss_order)
            if r is not None:
                r.shuffle(defs)
            inner = []
            for key, data in defs:
                inner.append(self.gap(2))
                inner.append("<SharedString%s>%s</SharedString>" % (self.attr("md5", key, "md5"), self.b64(data)))
            if inner:
                inner.append(self.gap(1))
            ss = [self.gap(1), self.el("SharedStrings", "", "".join(inner))]
        head = []
        if self.flag("meta", 0.5):
            head += [self.gap(1), "<Meta%s>true</Meta>" % self.attr("name", "ExplicitAutoJoints", "meta")]
            if r is not None and r.random() < 0.2:
                head += [self.gap(1), "<Meta%s>%s</Meta>" % (self.attr("name", "x-test", "meta"), self.text("a <b> & c", "meta"))]
        if self.flag("external", 0.5):
            head += [self.gap(1), "<External>null</External>", self.gap(1), "<External>nil</External>"]
        rattrs = [' version="4"']
        if self.flag("xmlns", 0.5):
            extra = [' xmlns:xmime="http://www.w3.org/2005/05/xmlmime"',
                     ' xmlns:xsi="http://www.w3.org/2001/XMLSchema-instance"',
                     ' xsi:noNamespaceSchemaLocation="http://www.roblox.com/roblox.xsd"']
            rattrs = extra + rattrs if (r is None or r.random() < 0.7) else rattrs + extra
        body = head + items + ss
        if self.xflag("exotic_order", 0.5):
            body = ss + items + head
        out = []
        if self.flag("declaration", 0.5):
            out.append(r.choice(['<?xml version="1.0" encoding="utf-8"?>', '<?xml version="1.0"?>',
                                 "<?xml version='1.0' encoding='UTF-8'?>",
                                 '<?xml version="1.0" encoding="UTF-8" standalone="yes"?>']) if r is not None
                       else '<?xml version="1.0" encoding="utf-8"?>')
            out.append("\n" if r is None else r.choice(["", "\n", "\r\n"]))
        elif r is not None and r.random() < 0.2:
            out.append(r.choice(["\n", "  ", "\r\n\t"]))
        if self.comments and r is not None and r.random() < 0.3:
            out.append(self.comment() + "\n")
        out.append("<roblox" + "".join(rattrs) + ">")
        out += body
        out.append(self.gap(0))
        out.append("</roblox>")
        if r is not None:
            out.append(r.choice(["", "\n", "\r\n", " \n\n"]))
            if self.comments and r.random() < 0.2:
                out.append(self.comment())
        else:
            out.append("\n")
        return "".join(out)


def encode(dump, rng, opts=None):
    """Spec-conformant XML document (str) for `dump`. `rng` (random.Random) varies the freedoms xml.md leaves
    open; rng=None gives one fixed, conventional rendering. See the module docstring for `opts`."""
    return _Encoder(dump, rng, opts).document()


# ----------------------------------------------------------------------------------------------
# self-test

def _fh(x):
    return struct.pack(">f", x).hex()


def _dh(x):
    return struct.pack(">d", x).hex()


def _wrap(snippet, extra=""):
    return ('<roblox version="4"><Item class="Folder" referent="R0"><Properties>%s</Properties></Item>%s</roblox>'
            % (snippet, extra))


_IDENT_CF = {"pos": [_fh(0.0)] * 3, "rot": [_fh(1.0), _fh(0.0), _fh(0.0), _fh(0.0), _fh(1.0), _fh(0.0),
                                             _fh(0.0), _fh(0.0), _fh(1.0)]}
_CF_XML = ("<X>0</X><Y>0</Y><Z>0</Z><R00>1</R00><R01>0</R01><R02>0</R02><R10>0</R10><R11>1</R11><R12>0</R12>"
           "<R20>0</R20><R21>0</R21><R22>1</R22>")

# (property name, XML exactly as printed in xml.md, expected value, extra top-level XML)
_DOC_EXAMPLES = [
    ("AxesExample", '<Axes name="AxesExample">\n\t<axes>1</axes>\n</Axes>', {"t": "Axes", "v": 1}, ""),
    ("BinaryStringExample", '<BinaryString name="BinaryStringExample">Um9qbyBpcyBjb29sIQ==</BinaryString>',
     {"t": "BinaryString", "v": b"Rojo is cool!".hex()}, ""),
    ("BoolExample", '<bool name="BoolExample">false</bool>', {"t": "Bool", "v": False}, ""),
    ("BrickColorExample", '<int name="BrickColorExample">194</int>', {"t": "Int32", "v": 194}, ""),
    ("Color3Example", '<Color3 name="Color3Example">\n\t<R>INF</R>\n\t<G>1337</G>\n\t<B>0.15625</B>\n</Color3>',
     {"t": "Color3", "v": ["7f800000", _fh(1337.0), _fh(0.15625)]}, ""),
    ("Color3uint8Example", '<Color3uint8 name="Color3uint8Example">4284497952</Color3uint8>',
     {"t": "Color3uint8", "v": [96, 64, 32]}, ""),
    ("ColorSequenceExample", '<ColorSequence name="ColorSequenceExample">0 0.376471 0.25098 0.12549 0 1 0.0196078 '
     '0.0392157 0.0588235 0 </ColorSequence>',
     {"t": "ColorSequence", "v": [[_fh(0.0), _fh(0.376471), _fh(0.25098), _fh(0.12549)],
                                  [_fh(1.0), _fh(0.0196078), _fh(0.0392157), _fh(0.0588235)]]}, ""),
    ("ContentExample", '<ContentId name="ContentExample"><url>rbxasset://textures/face.png</url></ContentId>',
     {"t": "ContentId", "v": "rbxasset://textures/face.png"}, ""),
    ("ContentExample", '<ContentId name="ContentExample"><null></null></ContentId>', {"t": "ContentId", "v": ""}, ""),
    ("CoordinateFrameExample", '<CoordinateFrame name="CoordinateFrameExample">\n\t' + _CF_XML.replace("><", ">\n\t<")
     + '\n</CoordinateFrame>', {"t": "CFrame", "v": _IDENT_CF}, ""),
    ("DoubleExample", '<double name="DoubleExample">0.15625</double>', {"t": "Float64", "v": _dh(0.15625)}, ""),
    ("FacesExample", '<Faces name="FacesExample">\n\t<faces>42</faces>\n</Faces>', {"t": "Faces", "v": 42}, ""),
    ("FloatExample", '<float name="FloatExample">0.15625</float>', {"t": "Float32", "v": _fh(0.15625)}, ""),
    ("FontExample", '<Font name="FontExample">\n\t<Family><url>rbxasset://fonts/families/Arial.json</url></Family>\n\t'
     '<Weight>700</Weight>\n\t<Style>Italic</Style>\n</Font>',
     {"t": "Font", "v": {"family": "rbxasset://fonts/families/Arial.json", "weight": 700, "style": 1, "cached": None}}, ""),
    ("IntExample", '<int name="IntExample">1337</int>', {"t": "Int32", "v": 1337}, ""),
    ("Int64Example", '<int64 name="Int64Example">-559038737</int64>', {"t": "Int64", "v": -559038737}, ""),
    ("NumberRangeExample", '<NumberRange name="NumberRangeExample">0.15625 1337 </NumberRange>',
     {"t": "NumberRange", "v": [_fh(0.15625), _fh(1337.0)]}, ""),
    ("NumberSequenceExample", '<NumberSequence name="NumberSequenceExample">0 6 3 1 4 2 </NumberSequence>',
     {"t": "NumberSequence", "v": [[_fh(0.0), _fh(6.0), _fh(3.0)], [_fh(1.0), _fh(4.0), _fh(2.0)]]}, ""),
    ("OptionalExample", '<OptionalCoordinateFrame name="OptionalExample">\n\t<CFrame>\n\t\t'
     + _CF_XML.replace("><", ">\n\t\t<") + '\n\t</CFrame>\n</OptionalCoordinateFrame>',
     {"t": "OptionalCFrame", "v": _IDENT_CF}, ""),
    ("PhysicalPropertiesExample", '<PhysicalProperties name="PhysicalPropertiesExample">\n\t<CustomPhysics>true'
     '</CustomPhysics>\n\t<Density>1</Density>\n\t<Friction>2</Friction>\n\t<Elasticity>1</Elasticity>\n\t'
     '<FrictionWeight>0.15625</FrictionWeight>\n\t<ElasticityWeight>1.25</ElasticityWeight>\n</PhysicalProperties>',
     {"t": "PhysicalProperties", "v": [_fh(1.0), _fh(2.0), _fh(1.0), _fh(0.15625), _fh(1.25)]}, ""),
    ("ProtectedStringExample", '<ProtectedString name="ProtectedStringExample"><![CDATA[print("Hello world!")]]>'
     '</ProtectedString>', {"t": "String", "v": 'print("Hello world!")'}, ""),
    ("RayExample", '<Ray name="RayExample">\n\t<origin>\n\t\t<X>1</X>\n\t\t<Y>2</Y>\n\t\t<Z>3</Z>\n\t</origin>\n\t'
     '<direction>\n\t\t<X>-1</X>\n\t\t<Y>-2</Y>\n\t\t<Z>-3</Z>\n\t</direction>\n</Ray>',
     {"t": "Ray", "v": [_fh(1.0), _fh(2.0), _fh(3.0), _fh(-1.0), _fh(-2.0), _fh(-3.0)]}, ""),
    ("Rect2DExample", '<Rect2D name="Rect2DExample">\n\t<min>\n\t\t<X>1</X>\n\t\t<Y>2</Y>\n\t</min>\n\t<max>\n\t\t'
     '<X>3</X>\n\t\t<Y>4</Y>\n\t</max>\n</Rect2D>', {"t": "Rect", "v": [_fh(1.0), _fh(2.0), _fh(3.0), _fh(4.0)]}, ""),
    ("Example", '<Ref name="Example">RBX466F72207262782D646F6D21203A2D29</Ref>', {"t": "Ref", "v": [1]},
     '<Item class="Part" referent="RBX466F72207262782D646F6D21203A2D29"><Properties></Properties></Item>'),
    ("SharedStringExample", '<SharedString name="SharedStringExample">ZGVra29ub3Rfd2FzX2hlcmU=</SharedString>',
     {"t": "SharedString", "v": b"hello".hex()},
     '<SharedStrings><SharedString md5="ZGVra29ub3Rfd2FzX2hlcmU=">aGVsbG8=</SharedString></SharedStrings>'),
    ("StringExample", '<string name="StringExample">Hello, world!</string>', {"t": "String", "v": "Hello, world!"}, ""),
    ("TokenExample", '<token name="TokenExample">3</token>', {"t": "Enum", "v": 3}, ""),
    ("UDimExample", '<UDim name="UDimExample">\n\t<S>0.15625</S>\n\t<O>1337</O>\n</UDim>',
     {"t": "UDim", "v": [_fh(0.15625), 1337]}, ""),
    ("UDim2Example", '<UDim2 name="UDim2Example">\n\t<XS>0.15625</XS>\n\t<XO>1337</XO>\n\t<YS>-123</YS>\n\t<YO>456</YO>\n'
     '</UDim2>', {"t": "UDim2", "v": [[_fh(0.15625), 1337], [_fh(-123.0), 456]]}, ""),
    ("Vector2Example", '<Vector2 name="Vector2Example">\n\t<X>INF</X>\n\t<Y>1337</Y>\n</Vector2>',
     {"t": "Vector2", "v": ["7f800000", _fh(1337.0)]}, ""),
    ("Vector3Example", '<Vector3 name="Vector3Example">\n\t<X>-INF</X>\n\t<Y>0.15625</Y>\n\t<Z>-1337</Z>\n</Vector3>',
     {"t": "Vector3", "v": ["ff800000", _fh(0.15625), _fh(-1337.0)]}, ""),
    ("Vector3int16Example", '<Vector3int16 name="Vector3int16Example">\n\t<X>1337</X>\n\t<Y>0</Y>\n\t<Z>-1337</Z>\n'
     '</Vector3int16>', {"t": "Vector3int16", "v": [1337, 0, -1337]}, ""),
    # not worked examples of the document, but forms it describes in prose
    ("C", '<Content name="C"><null></null></Content>', {"t": "Content", "v": {"k": "None"}}, ""),
    ("C", '<Content name="C"><uri>rbxassetid://1</uri></Content>', {"t": "Content", "v": {"k": "Uri", "uri": "rbxassetid://1"}}, ""),
    ("C", '<Content name="C"><Ref>R0</Ref></Content>', {"t": "Content", "v": {"k": "Object", "ref": [0]}}, ""),
    ("C", '<Content name="C"><Ref>null</Ref></Content>', {"t": "Content", "v": {"k": "Object", "ref": None}}, ""),
    ("C", '<Content name="C"><url>rbxasset://x</url></Content>', {"t": "ContentId", "v": "rbxasset://x"}, ""),
    ("C", '<ContentId name="C"><hash>abc</hash></ContentId>', {"t": "ContentId", "v": ""}, ""),
    ("B", '<BrickColor name="B">194</BrickColor>', {"t": "BrickColor", "v": 194}, ""),
    ("O", '<OptionalCoordinateFrame name="O"></OptionalCoordinateFrame>', {"t": "OptionalCFrame", "v": None}, ""),
    ("P", '<PhysicalProperties name="P"><CustomPhysics>false</CustomPhysics></PhysicalProperties>',
     {"t": "PhysicalProperties", "v": None}, ""),
    ("U", '<UniqueId name="U">80000000000000010000000200000003</UniqueId>',
     {"t": "UniqueId", "v": {"random": -2**63 + 1, "time": 2, "index": 3}}, ""),
    ("R", '<Ref name="R">null</Ref>', {"t": "Ref", "v": None}, ""),
    ("R", '<Ref name="R">nowhere</Ref>', {"t": "Ref", "v": None}, ""),
    ("F", '<float name="F">NAN</float>', {"t": "Float32", "v": _NAN32}, ""),
    ("F", '<double name="F">+INF</double>', {"t": "Float64", "v": _dh(_INF)}, ""),
    ("F", '<double name="F">13e37</double>', {"t": "Float64", "v": _dh(13e37)}, ""),
    ("F", '<float name="F">-0</float>', {"t": "Float32", "v": "80000000"}, ""),
    ("F", '<float name="F">1e39</float>', {"t": "Float32", "v": "7f800000"}, ""),
    ("b", '<bool name="b">TRUE</bool>', {"t": "Bool", "v": True}, ""),
    ("S", '<string name="S">  a\r\nb<![CDATA[<&]]>&#13;&lt; </string>', {"t": "String", "v": "  a\nb<&\r< "}, ""),
    ("B", '<BinaryString name="B">\n  Um9qbyBp\r\n  cyBjb29sIQ==\n</BinaryString>',
     {"t": "BinaryString", "v": b"Rojo is cool!".hex()}, ""),
    ("C8", '<Color3uint8 name="C8">6307872</Color3uint8>', {"t": "Color3uint8", "v": [96, 64, 32]}, ""),
    ("V", '<Vector2int16 name="V"><X>-32768</X><Y>32767</Y></Vector2int16>', {"t": "Vector2int16", "v": [-32768, 32767]}, ""),
    ("SC", '<SecurityCapabilities name="SC">18446744073709551615</SecurityCapabilities>',
     {"t": "SecurityCapabilities", "v": 2**64 - 1}, ""),
]

_BAD_SNIPPETS = [
    '<UniqueId name="UniqueIdExample">686f6c792062696e676c6521203a33</UniqueId>',      # xml.md's own (30 digits)
    '<int name="i">+5</int>', '<int name="i">2147483648</int>', '<int name="i">1.0</int>', '<int name="i"></int>',
    '<int64 name="i">9223372036854775808</int64>', '<token name="t">-1</token>', '<token name="t">4294967296</token>',
    '<float name="f">nan</float>', '<float name="f">NaN</float>', '<float name="f">inf</float>',
    '<float name="f">1_0</float>', '<float name="f">0x10</float>', '<float name="f">1e</float>', '<float name="f">.</float>',
    '<double name="f">Infinity</double>', '<double name="f"></double>', '<bool name="b">yes</bool>', '<bool name="b">1</bool>',
    '<Vector3 name="v"><X>1</X><Y>2</Y></Vector3>', '<Vector3 name="v"><X>1</X><Y>2</Y><Z>3</Z><W>4</W></Vector3>',
    '<Vector3 name="v"><X>1</X><X>1</X><Y>2</Y><Z>3</Z></Vector3>', '<Vector3 name="v">1 2 3</Vector3>',
    '<Vector3int16 name="v"><X>32768</X><Y>0</Y><Z>0</Z></Vector3int16>', '<Color3 name="c">4284497952</Color3>',
    '<Color3uint8 name="c">4294967296</Color3uint8>', '<Color3uint8 name="c">-1</Color3uint8>',
    '<ColorSequence name="c">0 1 1 1 0 1 1 1 1</ColorSequence>', '<NumberSequence name="n">0 1</NumberSequence>',
    '<NumberRange name="n">1 2 3</NumberRange>', '<NumberRange name="n">1,2</NumberRange>',
    '<Axes name="a"><axes>8</axes></Axes>', '<Faces name="a"><faces>64</faces></Faces>', '<Axes name="a">1</Axes>',
    '<Content name="c"></Content>', '<Content name="c"><null>x</null></Content>', '<Content name="c"><null> </null></Content>',
    '<Content name="c"><foo></foo></Content>', '<Content name="c"><null></null><uri></uri></Content>',
    '<ContentId name="c"><uri>x</uri></ContentId>', '<ContentId name="c">x</ContentId>',
    '<BinaryString name="b">Um9qbw=</BinaryString>', '<BinaryString name="b">Um9q*w==</BinaryString>',
    '<SharedString name="s">missing</SharedString>', '<string name="s">a<b/>c</string>', '<string>no name</string>',
    '<Font name="f"><Family><url>x</url></Family><Weight>400</Weight></Font>',
    '<Font name="f"><Family><url>x</url></Family><Weight>400</Weight><Style>Bold</Style></Font>',
    '<PhysicalProperties name="p"><CustomPhysics>false</CustomPhysics><Density>1</Density></PhysicalProperties>',
    '<PhysicalProperties name="p"><CustomPhysics>true</CustomPhysics><Density>1</Density></PhysicalProperties>',
    '<OptionalCoordinateFrame name="o"><CoordinateFrame></CoordinateFrame></OptionalCoordinateFrame>',
    '<UDim name="u"><S>1</S><O>1.5</O></UDim>', '<CoordinateFrame name="c"><X>0</X></CoordinateFrame>',
    '<UniqueId name="u">0000000000000000000000000000000g</UniqueId>', '<SecurityCapabilities name="s">-1</SecurityCapabilities>',
]


def _canon_nan(x):
    """canonicalise NaN bit patterns inside a dump (for comparisons)"""
    if isinstance(x, dict):
        return {k: _canon_nan(v) for k, v in x.items()}
    if isinstance(x, list):
        return [_canon_nan(v) for v in x]
    if isinstance(x, str):
        if _H8.match(x) and (int(x, 16) & 0x7FFFFFFF) > 0x7F800000:
            return _NAN32
        if _H16.match(x) and (int(x, 16) & 0x7FFFFFFFFFFFFFFF) > 0x7FF0000000000000:
            return _NAN64
    return x


_STR_POOL = ["a", "B", "z", "0", " ", "  ", "\t", "\n", "\r", "\r\n", "<", ">", "&", "]", "]]>", '"', "'", "\u00e9", "\u4e2d",
             "\U0001f600", "\u0085", "\u2028", "\ufffd", "&amp;", "<![CDATA[", "--", "=", "/"]


def _rand_str(r, maxlen=10):
    return "".join(r.choice(_STR_POOL) for _ in range(r.randrange(0, maxlen)))


def _rand_f32(r):
    k = r.random()
    if k < 0.3:
        b = r.getrandbits(32)
        if (b & 0x7F800000) == 0x7F800000 and b & 0x7FFFFF:
            return _NAN32
        return "%08x" % b
    if k < 0.5:
        return r.choice(["00000000", "80000000", "3f800000", "bf800000", "7f800000", "ff800000", _NAN32, "00000001",
                         "807fffff", "7f7fffff", "00800000", _fh(0.1), _fh(0.15625), _fh(1e10), _fh(16777216.0)])
    if k < 0.7:
        return _fh(float(r.randrange(-1000, 1000)))
    if k < 0.85:
        return _fh(r.randrange(-10**6, 10**6) / 1000.0)
    return _fh(r.uniform(-1, 1) * 10.0 ** r.randrange(-30, 30))


def _rand_f64(r):
    k = r.random()
    if k < 0.3:
        b = r.getrandbits(64)
        if (b & 0x7FF0000000000000) == 0x7FF0000000000000 and b & 0xFFFFFFFFFFFFF:
            return _NAN64
        return "%016x" % b
    if k < 0.5:
        return r.choice([_dh(0.0), _dh(-0.0), _dh(1.0), _dh(_INF), _dh(-_INF), _NAN64, "0000000000000001",
                         "7fefffffffffffff", _dh(0.1), _dh(13e37), _dh(2.0**53)])
    if k < 0.75:
        return _dh(r.randrange(-10**9, 10**9) / 1000.0)
    return _dh(r.uniform(-1, 1) * 10.0 ** r.randrange(-300, 300))


def _rand_cf(r):
    return {"pos": [_rand_f32(r) for _ in range(3)], "rot": [_rand_f32(r) for _ in range(9)]}


_XML_TYPES = ["String", "BinaryString", "ContentId", "Content", "Bool", "Int32", "Int64", "Float32", "Float64", "Enum",
              "BrickColor", "Faces", "Axes", "Vector2", "Vector3", "Vector2int16", "Vector3int16", "CFrame",
              "OptionalCFrame", "Color3", "Color3uint8", "UDim", "UDim2", "Rect", "Ray", "NumberRange",
              "NumberSequence", "ColorSequence", "PhysicalProperties", "Ref", "SharedString", "Font", "UniqueId",
              "SecurityCapabilities"]


def _rand_value(r, t, paths):
    i32 = lambda: r.choice([0, 1, -1, 2**31 - 1, -2**31, r.randrange(-2**31, 2**31)])
    i16 = lambda: r.choice([0, -32768, 32767, r.randrange(-32768, 32768)])
    f = lambda: _rand_f32(r)
    path = lambda: r.choice([None] + [list(p) for p in paths])
    if t == "String":
        v = _rand_str(r, 30 if r.random() < 0.2 else 8)
    elif t == "BinaryString":
        v = bytes(r.getrandbits(8) for _ in range(r.choice([0, 1, 2, 3, 53, 54, 55, 200, r.randrange(0, 300)]))).hex()
    elif t == "ContentId":
        v = r.choice(["", "rbxassetid://123", "rbxasset://textures/face.png", _rand_str(r)])
    elif t == "Content":
        v = r.choice([{"k": "None"}, {"k": "Uri", "uri": r.choice(["", "rbxassetid://5", _rand_str(r)])},
                      {"k": "Object", "ref": path()}])
    elif t == "Bool":
        v = r.random() < 0.5
    elif t == "Int32":
        v = i32()
    elif t == "Int64":
        v = r.choice([0, -2**63, 2**63 - 1, r.randrange(-2**63, 2**63)])
    elif t == "Float32":
        v = f()
    elif t == "Float64":
        v = _rand_f64(r)
    elif t == "Enum":
        v = r.choice([0, 3, 2**32 - 1, r.randrange(0, 2**32)])
    elif t == "BrickColor":
        v = r.choice([194, 1, 1032, 2**32 - 1])
    elif t == "Faces":
        v = r.randrange(0, 64)
    elif t == "Axes":
        v = r.randrange(0, 8)
    elif t in ("Vector2", "NumberRange"):
        v = [f(), f()]
    elif t in ("Vector3", "Color3"):
        v = [f(), f(), f()]
    elif t == "Vector2int16":
        v = [i16(), i16()]
    elif t == "Vector3int16":
        v = [i16(), i16(), i16()]
    elif t == "CFrame":
        v = _rand_cf(r)
    elif t == "OptionalCFrame":
        v = r.choice([None, _rand_cf(r)])
    elif t == "Color3uint8":
        v = [r.randrange(256) for _ in range(3)]
    elif t == "UDim":
        v = [f(), i32()]
    elif t == "UDim2":
        v = [[f(), i32()], [f(), i32()]]
    elif t == "Rect":
        v = [f() for _ in range(4)]
    elif t == "Ray":
        v = [f() for _ in range(6)]
    elif t == "NumberSequence":
        v = [[f(), f(), f()] for _ in range(r.randrange(0, 5))]
    elif t == "ColorSequence":
        v = [[f(), f(), f(), f()] for _ in range(r.randrange(0, 5))]
    elif t == "PhysicalProperties":
        v = r.choice([None, [f() for _ in range(5)]])
    elif t == "Ref":
        v = path()
    elif t == "SharedString":
        v = r.choice([b"".hex(), b"shared".hex(), bytes(r.getrandbits(8) for _ in range(r.randrange(0, 100))).hex()])
    elif t == "Font":
        v = {"family": r.choice(["", "rbxasset://fonts/families/Arial.json", _rand_str(r)]), "weight": r.choice([100, 400, 700, 900, 0, -5]),
             "style": r.randrange(2), "cached": r.choice([None, "", "rbxasset://fonts/arial.ttf", _rand_str(r)])}
    elif t == "UniqueId":
        v = {"index": r.getrandbits(32), "time": r.getrandbits(32), "random": r.choice([0, -1, -2**63, 2**63 - 1, r.getrandbits(64) - 2**63])}
    elif t == "SecurityCapabilities":
        v = r.choice([0, 2**64 - 1, r.getrandbits(64)])
    else:
        raise AssertionError(t)
    return {"t": t, "v": v}


def _rand_dump(r, all_types=False):
    n = r.randrange(1, 9)
    nodes = []
    roots = []
    for i in range(n):
        node = {"class": r.choice(["Folder", "Part", "ObjectValue", "Model", "Cl\u00e4ss", "A&B"]),
                "name": r.choice(["", "Part", _rand_str(r)]), "props": {}, "children": []}
        if nodes and r.random() < 0.7:
            r.choice(nodes)["children"].append(node)
        else:
            roots.append(node)
        nodes.append(node)
    paths = []

    def walk(nd, p):
        paths.append(p)
        for i, c in enumerate(nd["children"]):
            walk(c, p + [i])
    for i, nd in enumerate(roots):
        walk(nd, [i])
    for k, nd in enumerate(nodes):
        types = list(_XML_TYPES) if (all_types and k == 0) else [r.choice(_XML_TYPES) for _ in range(r.randrange(0, 8))]
        for j, t in enumerate(types):
            pn = r.choice(["", "P", "Value", "a b", "x\"y'", "<&>", "\u00e9", "tab\tnl\n"]) + "%s%d" % (t, j)
            nd["props"][pn] = _rand_value(r, t, paths)
    return {"roots": roots}


def selftest():
    import random
    import time
    t0 = time.time()
    n_ex = n_bad = n_rt = 0
    # --- worked examples --------------------------------------------------------------------
    for name, xml, want, extra in _DOC_EXAMPLES:
        for doc in (_wrap(xml, extra), _wrap(xml, extra).encode("utf-8"),
                    '<?xml version="1.0" encoding="utf-8"?>\n' + _wrap(xml, extra).replace("><Item", ">\n<Item")):
            dump = decode(doc)
            got = dump["roots"][0]["props"].get(name)
            assert got == want, "example %s:\n got  %r\n want %r" % (name, got, want)
        # the canonical encoding of the decoded value decodes to the same value again
        assert decode(encode(dump, None)) == dump, "re-encode of example %s" % name
        n_ex += 1
    for xml in _BAD_SNIPPETS:
        try:
            decode(_wrap(xml))
        except RefError:
            n_bad += 1
        else:
            raise AssertionError("malformed value accepted: " + xml)
    # --- structure ----------------------------------------------------------------------------
    doc = ('<roblox version="4" xmlns:xmime="http://www.w3.org/2005/05/xmlmime"><Meta name="ExplicitAutoJoints">true</Meta>'
           '<External>null</External><External>nil</External>'
           '<Item class="ObjectValue" referent="A"><Properties><string name="Name">first</string>'
           '<Ref name="Value">B</Ref><Frob name="q">1</Frob><Ref name="N">null</Ref></Properties>'
           '<Item class="Folder" referent="B"><Properties><ProtectedString name="Name">kid</ProtectedString></Properties></Item>'
           '</Item><Item class="Folder" referent="C"><Properties/></Item><SharedStrings></SharedStrings></roblox>')
    dump, facts = decode_ex(doc)
    assert dump == {"roots": [{"class": "ObjectValue", "name": "first",
                               "props": {"Value": {"t": "Ref", "v": [0, 0]}, "N": {"t": "Ref", "v": None}},
                               "children": [{"class": "Folder", "name": "kid", "props": {}, "children": []}]},
                              {"class": "Folder", "name": "Folder", "props": {}, "children": []}]}
    assert facts["version"] == "4" and facts["items"] == 3 and facts["referents"] == ["A", "B", "C"]
    assert facts["items_without_referent"] == 0 and facts["properties_elements_per_item"] == [1, 1, 1]
    assert facts["unknown_elements"] == ["Frob"] and facts["null_refs"] == 1 and facts["violations"] == []
    assert facts["meta"] == [["ExplicitAutoJoints", "true"]] and facts["externals"] == ["null", "nil"]
    assert facts["items_without_name"] == 1 and facts["sharedstring_defs"] == [] and facts["sharedstrings_elements"] == 1
    viol = [
        ('<roblox version="5"></roblox>', "version"),
        ('<roblox></roblox>', "version"),
        ('<roblox version="4"><Item class="A"><Properties/></Item></roblox>', "referent"),
        ('<roblox version="4"><Item class="A" referent="null"><Properties/></Item></roblox>', "null"),
        ('<roblox version="4"><Item class="A" referent="x"><Properties/></Item><Item class="A" referent="x"><Properties/></Item></roblox>', "duplicate"),
        ('<roblox version="4"><Item class="A" referent="x"></Item></roblox>', "Properties"),
        ('<roblox version="4"><Item class="A" referent="x"><Properties/><Properties/></Item></roblox>', "Properties"),
        ('<roblox version="4"><SharedStrings/><SharedStrings/></roblox>', "SharedStrings"),
        ('<roblox version="4"><SharedStrings><SharedString md5="a"/><SharedString md5="a"/></SharedStrings></roblox>', "md5"),
        ('<roblox version="4"><SharedStrings><SharedString>QQ==</SharedString></SharedStrings></roblox>', "md5"),
        ('<roblox version="4"><Foo/></roblox>', "Foo"),
        ('<roblox version="4"><Item class="A" referent="x"><Properties/><Foo/></Item></roblox>', "Foo"),
        ('<roblox version="4"><Meta>x</Meta></roblox>', "Meta"),
    ]
    for doc, word in viol:
        dump, facts = decode_ex(doc)
        assert facts["violations"] and any(word in v for v in facts["violations"]), (doc, facts["violations"])
        try:
            decode(doc)
        except RefError:
            n_bad += 1
        else:
            raise AssertionError("violation not raised by decode(): " + doc)
    for doc in ('<roblox version="4">', '<Roblox version="4"/>', '<roblox xmlns="urn:x" version="4"/>',
                '<roblox version="4"><Item referent="x"><Properties/></Item></roblox>', '', b'\xff\xfe\x00'):
        try:
            decode_ex(doc)
        except RefError:
            n_bad += 1
        else:
            raise AssertionError("uninterpretable document accepted: %r" % (doc,))
    assert decode_ex('<roblox version="4"><Item class="A" referent="x"><Properties/><Properties/></Item></roblox>')[1][
        "properties_elements_per_item"] == [2]
    # forward reference + SharedStrings before the items
    doc = ('<roblox version="4"><SharedStrings><SharedString md5="k">\nYWJj\n</SharedString></SharedStrings>'
           '<Item class="ObjectValue" referent="1"><Properties><Ref name="Value">2</Ref><SharedString name="S">k</SharedString>'
           '</Properties></Item><Item class="Part" referent="2"><Properties></Properties></Item></roblox>')
    dump, facts = decode_ex(doc)
    assert dump["roots"][0]["props"] == {"Value": {"t": "Ref", "v": [1]}, "S": {"t": "SharedString", "v": "616263"}}
    assert facts["sharedstring_defs"] == ["k"] and facts["sharedstring_uses"] == ["k"]
    # --- float parsing / formatting -----------------------------------------------------------
    # 1 + 2^-24 is the midpoint of 1 and nextafter(1): ties-to-even gives 1; a hair above must round up, and the
    # hair is too small to survive the intermediate f64 (double rounding would give 1.0).
    assert parse_f32("1.00000005960464477539062500") == "3f800000"
    assert parse_f32("1.00000005960464477539062501") == "3f800001"
    assert "%08x" % _f32_bits_double_rounded("1.00000005960464477539062501") == "3f800000"
    assert parse_f32("1.00000017881393432617187499") == "3f800001"      # just below the midpoint of ..01 and ..02
    assert parse_f32("1.000000178813934326171875") == "3f800002"        # exactly the midpoint: ties to even
    assert parse_f32("340282356779733661637539395458142568447") == "7f7fffff"   # just below max+half ulp
    assert parse_f32("340282356779733661637539395458142568448") == "7f800000"   # max + half ulp ties to "even" = inf
    assert parse_f32("7.006492321624085e-46") == "00000000" and parse_f32("7.006492321624086e-46") == "00000001"
    assert parse_f32("-1e-60") == "80000000" and parse_f64("1e999") == _dh(_INF) and parse_f64("-.5E+1") == _dh(-5.0)
    rr = random.Random(12345)
    for _ in range(4000):
        h = _rand_f32(rr)
        s = format_f32(h)
        assert parse_f32(s) == h, (h, s)
        h = _rand_f64(rr)
        assert parse_f64(format_f64(h)) == h
    # --- encoder refuses what XML cannot carry ---------------------------------------------------
    for badv in ({"t": "String", "v": "a\x00b"}, {"t": "String", "v": "\ud800"}, {"t": "Tags", "v": ["x"]},
                 {"t": "Font", "v": {"family": "", "weight": 400, "style": 2, "cached": None}},
                 {"t": "Ref", "v": [5]}, {"t": "Float32", "v": "3F800000"}, {"t": "Int32", "v": 2**31}):
        try:
            encode({"roots": [{"class": "A", "name": "n", "props": {"p": badv}, "children": []}]}, None)
        except RefError:
            n_bad += 1
        else:
            raise AssertionError("encode accepted %r" % (badv,))
    # NaN payloads are canonicalised by the trip through XML
    d = {"roots": [{"class": "A", "name": "n", "props": {"p": {"t": "Vector2", "v": ["7fc12345", "ffffffff"]},
                                                           "q": {"t": "Float64", "v": "fff0000000000001"}}, "children": []}]}
    assert decode(encode(d, None)) == _canon_nan(d) != d
    # --- random round trips -------------------------------------------------------------------------
    seeds_per_dump = 4
    pinned = [{"referents": "int", "whitespace": "none", "declaration": True, "cdata": True, "protected_string": True,
               "float_variants": True, "self_closing": True, "comments": True, "b64_wrap": "crlf", "xmlns": True,
               "meta": True, "external": True, "font_cached_null": "null", "contentid_empty": "url",
               "sharedstring_keys": "random", "extra_sharedstrings": True, "color3uint8_top_zero": True},
              {"referents": "rbx", "whitespace": "random", "declaration": False, "cdata": False, "float_variants": False,
               "plus_inf": False, "comments": False, "b64_wrap": "none", "legacy_content": True, "bool_case": True,
               "hex_upper": True, "dangling_null_refs": True, "exotic_order": True, "brickcolor_as_int": False},
              {"referents": "mixed", "whitespace": "pretty", "b64_wrap": "lf", "seq_trailing_space": False,
               "shuffle_props": False, "charrefs": True}]
    i = 0
    while True:
        r = random.Random(1000 + i)
        dump = _rand_dump(r, all_types=(i % 4 == 0))
        want = _canon_nan(dump)
        texts = [encode(dump, None)]
        for s in range(seeds_per_dump):
            texts.append(encode(dump, random.Random(i * 100 + s)))
        texts.append(encode(dump, random.Random(i), pinned[i % len(pinned)]))
        texts.append(encode(dump, None, {k: v for k, v in pinned[i % len(pinned)].items() if k != "whitespace"}))
        for k, txt in enumerate(texts):
            got, facts = decode_ex(txt if (i + k) % 2 else txt.encode("utf-8"))
            assert not facts["violations"], facts["violations"]
            assert not facts["unknown_elements"] and not facts["padded_scalars"] and not facts["stray_text"]
            assert got == want, "round trip mismatch (dump %d, text %d)\n%s" % (i, k, txt)
            n_rt += 1
        i += 1
        if i >= 400 or time.time() - t0 > 40:
            break
    return ("refxml selftest OK: %d documented/prose examples, %d rejections, %d random round trips (%d dumps, %d types), "
            "%d errata, %.1fs" % (n_ex, n_bad, n_rt, i, len(_XML_TYPES), len(ERRATA), time.time() - t0))


if __name__ == "__main__":
    if len(sys.argv) == 2 and sys.argv[1] == "--selftest":
        print(selftest())
        sys.exit(0)
    if len(sys.argv) == 2:
        import json
        with open(sys.argv[1], "rb") as fh:
            dump_, facts_ = decode_ex(fh.read())
        print(json.dumps({"dump": dump_, "facts": facts_}, indent=1, sort_keys=True))
        sys.exit(0)
    print("usage: refxml.py --selftest | refxml.py <file.rbxmx>", file=sys.stderr)
    sys.exit(2)
