"""Per-property plans: what to run in each tier and how the evidence is described."""
import os
from driver import core

SH = core.NCPU


def _rt(cmd, quick, thorough):
    def run(m, tier, seed, rundir, extra):
        count = int(extra.get('count', quick if tier == 'quick' else thorough))
        res = core.run_sharded(cmd, ['--seed', seed, '--count', count], SH, rundir)
        m.add_results(res, cmd)
    return run


PLANS = {}

PLANS['C01'] = {
    'level': 'exploration',
    'rule': ('seeded random DOMs (shape, classes known/unknown, database-driven and unknown properties, all binary value types '
             'with boundary pools, abstract refs) x random root antichain x {lz4,none,zstd}; each is written by rbx_binary, read back, '
             'and compared with an expected dump derived from the abstract spec and the property statement; '
             'non-trivial = >=2 written instances and >=1 property; distinct = digest of the expected dump'),
    'floor': {'quick': 3000, 'thorough': 100000},
    'assumptions': ['generator reach (see coverage.observed)', 'oracle in harness/src/expect.rs + dbwalk.rs (independent walk of rbx_reflection types)',
                    'rotation bases derived from docs/binary.md table (harness/src/rot.rs)'],
    'run': _rt('c01', 4000, 400000),
    'claim': ('held on N generated DOMs x 3 compression modes: every decoded dump equalled the dump the statement predicts from the abstract input '
              '(forest, order, names, canonical property names, bit-exact values, ref topology, the four permitted normalisations and nothing else). '
              'Exploration, not proof: reach is what the generators produce (per-type counts in the evidence).'),
    'note': 'trusted: harness generators and oracle (expect.rs, dbwalk.rs, rot.rs), canonical dump through the public WeakDom API; the bundled reflection database as data',
    'technique': 'runtime round-trip oracle over generated DOMs (statement-derived expected dump vs decoded dump)',
}

PLANS['C02'] = {
    'level': 'exploration',
    'rule': ('as C01 for rbx_xml: XML-1.0-legal strings, sequences >=2 keypoints, option pairings default/default (known classes and properties), '
             'WriteUnknown+ReadUnknown, NoReflection+NoReflection; NaN compared as a class; non-trivial = >=2 written instances and >=1 property'),
    'floor': {'quick': 2000, 'thorough': 100000},
    'assumptions': ['generator reach (see coverage.observed)', 'oracle in harness/src/expect.rs'],
    'run': _rt('c02', 6000, 400000),
    'claim': ('held on N generated DOMs under the three option pairings that keep a property: decoded dump equals the statement-derived expectation '
              '(names incl. outer whitespace, floats exact through decimal text, INF/NAN, refs, SharedStrings, the documented type changes only).'),
    'note': 'trusted: harness generators and oracle; strings restricted to XML 1.0 Char; NaN compared as a class',
    'technique': 'runtime round-trip oracle over generated DOMs (statement-derived expected dump vs decoded dump)',
}
