"""Per-property plans: what to run in each tier and how the evidence is described."""
import os
from driver import core

SH = core.NCPU


def _rt(cmd, quick, thorough):
    def run(m, tier, seed, rundir, extra):
        count = int(extra.get('count', quick if tier == 'quick' else thorough))
        res = core.run_sharded(cmd, ['--seed', seed, '--count', count], SH, rundir)
        m.add_results(res, cmd)
    return run


PLANS = {}

PLANS['C01'] = {
    'level': 'exploration',
    'rule': ('seeded random DOMs (shape, classes known/unknown, database-driven and unknown properties, all binary value types '
             'with boundary pools, abstract refs) x random root antichain x {lz4,none,zstd}; each is written by rbx_binary, read back, '
             'and compared with an expected dump derived from the abstract spec and the property statement; '
             'non-trivial = >=2 written instances and >=1 property; distinct = digest of the expected dump'),
    'floor': {'quick': 3000, 'thorough': 100000},
    'assumptions': ['generator reach (see coverage.observed)', 'oracle in harness/src/expect.rs + dbwalk.rs (independent walk of rbx_reflection types)',
                    'rotation bases derived from docs/binary.md table (harness/src/rot.rs)'],
    'run': _rt('c01', 4000, 400000),
    'claim': ('held on N generated DOMs x 3 compression modes: every decoded dump equalled the dump the statement predicts from the abstract input '
              '(forest, order, names, canonical property names, bit-exact values, ref topology, the four permitted normalisations and nothing else). '
              'Exploration, not proof: reach is what the generators produce (per-type counts in the evidence).'),
    'note': 'trusted: harness generators and oracle (expect.rs, dbwalk.rs, rot.rs), canonical dump through the public WeakDom API; the bundled reflection database as data',
    'technique': 'runtime round-trip oracle over generated DOMs (statement-derived expected dump vs decoded dump)',
}

PLANS['C02'] = {
    'level': 'exploration',
    'rule': ('as C01 for rbx_xml: XML-1.0-legal strings, sequences >=2 keypoints, option pairings default/default (known classes and properties), '
             'WriteUnknown+ReadUnknown, NoReflection+NoReflection; NaN compared as a class; non-trivial = >=2 written instances and >=1 property'),
    'floor': {'quick': 2000, 'thorough': 100000},
    'assumptions': ['generator reach (see coverage.observed)', 'oracle in harness/src/expect.rs'],
    'run': _rt('c02', 6000, 400000),
    'claim': ('held on N generated DOMs under the three option pairings that keep a property: decoded dump equals the statement-derived expectation '
              '(names incl. outer whitespace, floats exact through decimal text, INF/NAN, refs, SharedStrings, the documented type changes only).'),
    'note': 'trusted: harness generators and oracle; strings restricted to XML 1.0 Char; NaN compared as a class',
    'technique': 'runtime round-trip oracle over generated DOMs (statement-derived expected dump vs decoded dump)',
}


def _monitor_pool(module, paths):
    """Run lib/monitors/<module>.run over each case log in a process pool."""
    import concurrent.futures as cf, importlib
    sys_path = os.path.join(core.VERIF, 'lib')
    import sys
    if sys_path not in sys.path:
        sys.path.insert(0, sys_path)
    mod = importlib.import_module('monitors.' + module)
    with cf.ProcessPoolExecutor(max_workers=min(core.NCPU, len(paths))) as ex:
        return list(ex.map(mod.run, paths))


def _c03(m, tier, seed, rundir, extra):
    count = int(extra.get('count', 1600 if tier == 'quick' else 60000))
    res = core.run_sharded('c01', ['--seed', seed, '--count', count], SH, rundir,
                           per_shard_args=lambda i: ['--caselog', os.path.join(rundir, f'cases-{i}.jsonl')])
    bad = [r for r in res if r[1] is None]
    for rc, summ, err in bad:
        m.inconclusive.append(f'c01 producer exited {rc}: {err[-300:]}')
    paths = [os.path.join(rundir, f'cases-{i}.jsonl') for i in range(SH) if os.path.exists(os.path.join(rundir, f'cases-{i}.jsonl'))]
    for s in _monitor_pool('c03', paths):
        m.add_summary(s)
    for p in paths:
        os.remove(p)


PLANS['C03'] = {
    'level': 'exploration',
    'rule': ('every file written by rbx_binary for the C01 workload (generated DOMs x {lz4,none,zstd}) is decoded by refbin.py, an independent decoder '
             'written from docs/binary.md, which enforces the framing rules; the monitor then checks PROP consumption, PRNT order and uniqueness, SSTR '
             'uniqueness, END, and compares every decoded wire value (by serialized name and wire type from an independent database walk) with the '
             'statement-derived expectation; non-trivial = file with >=2 instances; distinct = sha1 of the file'),
    'floor': {'quick': 2000, 'thorough': 50000},
    'assumptions': ['refbin.py/refattr.py (Python, from the documents, validated on 4 Studio-written files and the documents\' worked examples)',
                    'spec errata E1 (UniqueId layout) and E2 (Content SourceTypes) resolved as recorded in DESIGN.md 2.4; files needing E2 are counted in coverage.observed'],
    'run': _c03,
    'claim': ('held on N files: each was accepted by an independent spec decoder and meant exactly the DOM that was written (classes, hierarchy, every value by wire type), '
              'with the structural rules of the statement checked from the decoded structure only. Catches symmetric writer+reader mistakes C01 cannot see.'),
    'note': 'trusted: the Python reference codecs and the errata resolutions; the C01 generators for reach',
    'technique': 'offline monitor: independent spec decoder over recorded serializer outputs',
}


def _pool(fn, argslist):
    import concurrent.futures as cf
    with cf.ProcessPoolExecutor(max_workers=min(core.NCPU, max(1, len(argslist)))) as ex:
        return list(ex.map(fn, argslist))


def _c04(m, tier, seed, rundir, extra):
    import sys
    sys.path.insert(0, os.path.join(core.VERIF, 'lib'))
    from monitors import c04
    count = int(extra.get('count', 600 if tier == 'quick' else 40000))
    res = core.run_sharded('foreigngen', ['--seed', seed, '--count', count, '--fmt', 'bin'], SH, rundir,
                           per_shard_args=lambda i: ['--cases', os.path.join(rundir, f'logical-{i}.jsonl')])
    for rc, summ, err in res:
        if summ is None:
            m.inconclusive.append(f'foreigngen exited {rc}: {err[-300:]}')
    jobs = [(os.path.join(rundir, f'logical-{i}.jsonl'), os.path.join(rundir, f'files-{i}.jsonl'), seed) for i in range(SH)]
    made = sum(_pool(c04.run_make, jobs))
    # exhaustive widening sweep over every Int64/Float64 descriptor of the database
    wl = os.path.join(rundir, 'widen.json')
    core.run_vh(['widenlist', '--cases', wl], os.path.join(rundir, 'widenlist-out.json'))
    made += c04.make_widen_files(wl, os.path.join(rundir, f'files-{SH}.jsonl'), seed)
    import concurrent.futures as cf
    outs = []
    with cf.ThreadPoolExecutor(max_workers=core.NCPU) as ex:
        futs = [ex.submit(core.run_vh, ['readcmp', '--prop', 'C04', '--in', os.path.join(rundir, f'files-{i}.jsonl')],
                          os.path.join(rundir, f'readcmp-{i}.json')) for i in range(SH + 1)]
        outs = [f.result() for f in futs]
    m.add_results(outs, 'readcmp')
    m.extra['files_generated_by_reference_encoder'] = made
    for i in range(SH + 1):
        for f in (f'logical-{i}.jsonl', f'files-{i}.jsonl'):
            p = os.path.join(rundir, f)
            if os.path.exists(p):
                os.remove(p)


PLANS['C04'] = {
    'level': 'exploration',
    'rule': ('logical DOMs (generated, canonical form) are encoded by refbin.py, an independent encoder written from docs/binary.md, which randomises '
             'per-chunk compression, chunk order, class ids, referent numbering, PRNT row order, META/unknown chunks, service-format INST chunks, '
             'CFrame id vs full matrix; plus PROP chunks without type byte / with unknown type ids, narrower numerics for Int64/Float64 properties, '
             'and one file per Int64/Float64 descriptor of the database (exhaustive); rbx_binary::from_reader must return exactly the DOM described; '
             'non-trivial = >=2 instances; distinct = hash of the file'),
    'floor': {'quick': 1000, 'thorough': 50000},
    'assumptions': ['refbin.py encoder + errata E1/E2 resolutions (DESIGN.md 2.4)', 'harness oracle for the logical DOMs'],
    'run': _c04,
    'claim': ('held on N foreign files: files produced by an independent spec encoder with every documented freedom varied were decoded to exactly the DOM they describe; '
              'documented skip rules and exact widening checked, the latter on every Int64/Float64 descriptor of the database'),
    'note': 'trusted: refbin.py (validated against the document examples and 4 Studio files), errata resolutions; the reader is only shown files the reference encoder can produce',
    'technique': 'independent spec encoder -> real reader -> dump comparison (runtime differential monitor)',
}
