"""Per-property plans: what to run in each tier and how the evidence is described."""
import os
from driver import core

SH = core.NCPU


def _rt(cmd, quick, thorough):
    def run(m, tier, seed, rundir, extra):
        count = int(extra.get('count', quick if tier == 'quick' else thorough))
        res = core.run_sharded(cmd, ['--seed', seed, '--count', count], SH, rundir)
        m.add_results(res, cmd)
    return run


PLANS = {}


def _c01_sweeps(m, tier, seed, rundir):
    # exhaustive: all 2^32 i32 through the zig-zag transform (vs the document's arithmetic definition) and all 2^32 f32 bit
    # patterns through the interleaved array writer/reader (vs the document's byte layout), via the cfg hook wrappers
    for what in ('i32', 'f32'):
        m.add_results(core.run_sharded('sweep', ['--what', what], SH, os.path.join(rundir, 'sweep-' + what)), 'sweep ' + what)
    m.add_results(core.run_sharded('sweep', ['--what', 'i64', '--seed', seed, '--count', (1 << 22) if tier == 'quick' else (1 << 28)], SH,
                                   os.path.join(rundir, 'sweep-i64')), 'sweep i64')
    m.extra['exhaustive_parts'] = 'all 2^32 i32 (zig-zag vs the arithmetic definition in docs/binary.md) and all 2^32 f32 bit patterns (interleaved array layout and round trip)'


def _c02_sweep(m, tier, seed, rundir):
    m.add_results(core.run_sharded('sweep', ['--what', 'xmlf', '--seed', seed, '--mantissas', 2048 if tier == 'quick' else 32768], SH,
                                   os.path.join(rundir, 'sweep-xmlf')), 'sweep xml floats')
    m.extra['float_text_sweep'] = 'every f32 exponent x {boundary mantissas + sampled mantissas} x both signs, and every f64 exponent likewise, through decimal XML text'

PLANS['C01'] = {
    'level': 'exploration',
    'rule': ('seeded random DOMs (shape, classes known/unknown, database-driven and unknown properties, all binary value types '
             'with boundary pools, abstract refs) x random root antichain x {lz4,none,zstd}; each is written by rbx_binary, read back, '
             'and compared with an expected dump derived from the abstract spec and the property statement; the same bytes are also decoded through a reader that is not a slice (a few bytes per call / a small BufReader / '
             'two halves chained) and must give the same DOM; one case in four also compares the other public entry points (to_writer, Deserializer::new().deserialize, from_str, *_default) with the ones they abbreviate; one tree in four contains 2-4 instances of one class sharing a Content-object / Ref / SharedString column; one in five of the others contains 2-5 instances of one class mixing both spellings of a property / the other spelling only / the canonical one only / neither; strings include CR-only, NBSP and U+2028 ones; unknown property names include padded and case-changed variants of reserved and known names; tag lists hold empty tags one time in six (lost on read: listed finding); every fourth shard runs with a logger that accepts and formats trace-level records (log statements of the libraries are only evaluated then); one case in fifty is a SCALE tree '
             '(63-2049, rarely 16384-17000, siblings or instances of one class; chains 300 deep; hundreds of distinct SharedStrings / classes / properties; values past 64 KiB, rarely 5 MiB); '
             'non-trivial = >=2 written instances and >=1 property; distinct = digest of the expected dump Spelling groups also use legacy ContentId spellings that migrate (Image / MeshId / TextureID ...) next to explicit Content values incl. an empty uri; float pools hold +-999999999 (what rbx_dom_lua writes for math.huge); string pools hold the asset-URL spellings (http://www.roblox.com/asset/?id=N, rbxassetid://N ...). Unknown property names include the empty string and blank ones; OptionalCFrame values include Some(identity at the origin); EnumItem type names include the qualified spellings (Enum.Material ...); strings include DEL and C1 controls.'),
    'floor': {'quick': 3000, 'thorough': 100000},
    'assumptions': ['generator reach (see coverage.observed)', 'oracle in harness/src/expect.rs + dbwalk.rs (independent walk of rbx_reflection types)',
                    'rotation bases derived from docs/binary.md table (harness/src/rot.rs)'],
    'run': lambda m, tier, seed, rundir, extra: (_rt('c01', 4000, 400000)(m, tier, seed, rundir, extra),
                                                 _c01_sweeps(m, tier, seed, rundir),
                                                 [core.valgrind_leg(m, 'C01', ['c01', '--seed', seed + k, '--count', 60, '--shard', k, '--nshards', 8], rundir, f'c01-{k}') for k in range(8)]
                                                 if tier == 'thorough' else None),
    'claim': ('held on N generated DOMs x 3 compression modes: every decoded dump equalled the dump the statement predicts from the abstract input '
              '(forest, order, names, canonical property names, bit-exact values, ref topology, the four permitted normalisations and nothing else). '
              'Exploration, not proof: reach is what the generators produce (per-type counts in the evidence).'),
    'note': 'trusted: harness generators and oracle (expect.rs, dbwalk.rs, rot.rs), canonical dump through the public WeakDom API; the bundled reflection database as data',
    'technique': 'runtime round-trip oracle over generated DOMs (statement-derived expected dump vs decoded dump)',
}

PLANS['C02'] = {
    'level': 'exploration',
    'rule': ('as C01 for rbx_xml: XML-1.0-legal strings, sequences >=2 keypoints, option pairings default/default (known classes and properties), '
             'WriteUnknown+ReadUnknown, NoReflection+NoReflection; NaN compared as a class; non-trivial = >=2 written instances and >=1 property'),
    'floor': {'quick': 2000, 'thorough': 100000},
    'assumptions': ['generator reach (see coverage.observed)', 'oracle in harness/src/expect.rs'],
    'run': lambda m, tier, seed, rundir, extra: (_rt('c02', 6000, 400000)(m, tier, seed, rundir, extra), _c02_sweep(m, tier, seed, rundir)),
    'claim': ('held on N generated DOMs under the three option pairings that keep a property: decoded dump equals the statement-derived expectation '
              '(names incl. outer whitespace, floats exact through decimal text, INF/NAN, refs, SharedStrings, the documented type changes only).'),
    'note': 'trusted: harness generators and oracle; strings restricted to XML 1.0 Char; NaN compared as a class',
    'technique': 'runtime round-trip oracle over generated DOMs (statement-derived expected dump vs decoded dump)',
}


def _monitor_pool(module, paths):
    """Run lib/monitors/<module>.run over each case log in a process pool."""
    import concurrent.futures as cf, importlib
    sys_path = os.path.join(core.VERIF, 'lib')
    import sys
    if sys_path not in sys.path:
        sys.path.insert(0, sys_path)
    mod = importlib.import_module('monitors.' + module)
    with cf.ProcessPoolExecutor(max_workers=min(core.NCPU, len(paths))) as ex:
        return list(ex.map(mod.run, paths))


def _c03(m, tier, seed, rundir, extra):
    count = int(extra.get('count', 1600 if tier == 'quick' else 60000))
    res = core.run_sharded('c01', ['--seed', seed, '--count', count], SH, rundir,
                           per_shard_args=lambda i: ['--caselog', os.path.join(rundir, f'cases-{i}.jsonl')])
    bad = [r for r in res if r[1] is None]
    for rc, summ, err in bad:
        m.inconclusive.append(f'c01 producer exited {rc}: {err[-300:]}')
    paths = [os.path.join(rundir, f'cases-{i}.jsonl') for i in range(SH) if os.path.exists(os.path.join(rundir, f'cases-{i}.jsonl'))]
    for s in _monitor_pool('c03', paths):
        m.add_summary(s)
    for p in paths:
        os.remove(p)


PLANS['C03'] = {
    'level': 'exploration',
    'rule': ('every file written by rbx_binary for the C01 workload (generated DOMs x {lz4,none,zstd}) is decoded by refbin.py, an independent decoder '
             'written from docs/binary.md, which enforces the framing rules; the monitor then checks PROP consumption, PRNT order and uniqueness, SSTR '
             'uniqueness, END, and compares every decoded wire value (by serialized name and wire type from an independent database walk) with the '
             'statement-derived expectation; non-trivial = file with >=2 instances; distinct = sha1 of the file'),
    'floor': {'quick': 2000, 'thorough': 50000},
    'assumptions': ['refbin.py/refattr.py (Python, from the documents, validated on 4 Studio-written files and the documents\' worked examples)',
                    'spec errata E1 (UniqueId layout) and E2 (Content SourceTypes) resolved as recorded in DESIGN.md 2.4; files needing E2 are counted in coverage.observed'],
    'run': _c03,
    'claim': ('held on N files: each was accepted by an independent spec decoder and meant exactly the DOM that was written (classes, hierarchy, every value by wire type), '
              'with the structural rules of the statement checked from the decoded structure only. Catches symmetric writer+reader mistakes C01 cannot see.'),
    'note': 'trusted: the Python reference codecs and the errata resolutions; the C01 generators for reach',
    'technique': 'offline monitor: independent spec decoder over recorded serializer outputs',
}


def _pool(fn, argslist):
    import concurrent.futures as cf
    with cf.ProcessPoolExecutor(max_workers=min(core.NCPU, max(1, len(argslist)))) as ex:
        return list(ex.map(fn, argslist))


def _c04(m, tier, seed, rundir, extra):
    import sys
    sys.path.insert(0, os.path.join(core.VERIF, 'lib'))
    from monitors import c04
    count = int(extra.get('count', 600 if tier == 'quick' else 40000))
    res = core.run_sharded('foreigngen', ['--seed', seed, '--count', count, '--fmt', 'bin'], SH, rundir,
                           per_shard_args=lambda i: ['--cases', os.path.join(rundir, f'logical-{i}.jsonl')])
    for rc, summ, err in res:
        if summ is None:
            m.inconclusive.append(f'foreigngen exited {rc}: {err[-300:]}')
    jobs = [(os.path.join(rundir, f'logical-{i}.jsonl'), os.path.join(rundir, f'files-{i}.jsonl'), seed) for i in range(SH)]
    made = sum(_pool(c04.run_make, jobs))
    # exhaustive widening sweep over every Int64/Float64 descriptor of the database
    wl = os.path.join(rundir, 'widen.json')
    core.run_vh(['widenlist', '--cases', wl], os.path.join(rundir, 'widenlist-out.json'))
    made += c04.make_widen_files(wl, os.path.join(rundir, f'files-{SH}.jsonl'), seed)
    # ground-truth anchor: the four files written by Roblox Studio, interpreted with the document (refbin) and the database
    def wiremap_cmd(pairs):
        import json as _j
        pin, pout = os.path.join(rundir, 'wiremap-in.json'), os.path.join(rundir, 'wiremap-out.json')
        _j.dump(pairs, open(pin, 'w'))
        import subprocess
        subprocess.run([core.vh(), 'wiremap', '--in', pin, '--out', pout], check=True)
        return _j.load(open(pout))
    try:
        nst, info = c04.studio_cases(os.path.join(rundir, f'files-{SH + 1}.jsonl'), wiremap_cmd)
        m.extra['studio_written_files'] = info
    except Exception as e:  # noqa
        m.inconclusive.append(f'studio anchor files could not be prepared: {e!r}')
    # files that carry a legacy PROP chunk next to the chunk of the property it migrates to, in both chunk orders
    # (PROP order is a freedom of the format: the decoded DOM must not depend on it). Cases and expected values come from C15's generator.
    from monitors import c15
    lc = os.path.join(rundir, 'legacy-cases.jsonl')
    core.run_vh(['c15', '--seed', seed, '--stride', 10 if tier == 'quick' else 2, '--cases', lc], os.path.join(rundir, 'legacy-cases-out.json'))
    if os.path.exists(lc):
        n_leg = c15.make(lc, os.path.join(rundir, f'files-{SH + 2}.jsonl'), seed, fmts=('bin',))
        m.extra['legacy_twin_files'] = n_leg
        made += n_leg
        os.remove(lc)
    import concurrent.futures as cf
    outs = []
    with cf.ThreadPoolExecutor(max_workers=core.NCPU) as ex:
        futs = [ex.submit(core.run_vh, ['readcmp', '--prop', 'C04', '--in', os.path.join(rundir, f'files-{i}.jsonl')],
                          os.path.join(rundir, f'readcmp-{i}.json')) for i in range(SH + 3) if os.path.exists(os.path.join(rundir, f'files-{i}.jsonl'))]
        outs = [f.result() for f in futs]
    m.add_results(outs, 'readcmp')
    m.extra['files_generated_by_reference_encoder'] = made
    for i in range(SH + 3):
        for f in (f'logical-{i}.jsonl', f'files-{i}.jsonl'):
            p = os.path.join(rundir, f)
            if os.path.exists(p):
                os.remove(p)


PLANS['C04'] = {
    'level': 'exploration',
    'rule': ('logical DOMs (generated, canonical form) are encoded by refbin.py, an independent encoder written from docs/binary.md, which randomises '
             'per-chunk compression, chunk order, class ids, referent numbering, PRNT row order, META/unknown chunks, service-format INST chunks, '
             'CFrame id vs full matrix; plus PROP chunks without type byte / with unknown type ids, narrower numerics for Int64/Float64 properties, '
             'and one file per Int64/Float64 descriptor of the database (exhaustive); rbx_binary::from_reader must return exactly the DOM described; '
             'non-trivial = >=2 instances; distinct = hash of the file The SSTR hash field carries the real MD5, zeros, one placeholder for every entry, random values or equal values for pairs of entries (the document says readers do not use it). The legacy-only files built from the C15 cases also come with a PROP chunk for the migration TARGET that must be skipped (ends after its name / unknown type id), before and after the legacy chunk. One file in seven declares a class with ZERO instances, with PROP chunks of zero values.'),
    'floor': {'quick': 1000, 'thorough': 50000},
    'assumptions': ['refbin.py encoder + errata E1/E2 resolutions (DESIGN.md 2.4)', 'harness oracle for the logical DOMs'],
    'run': _c04,
    'claim': ('held on N foreign files: files produced by an independent spec encoder with every documented freedom varied were decoded to exactly the DOM they describe; '
              'documented skip rules and exact widening checked, the latter on every Int64/Float64 descriptor of the database'),
    'note': 'trusted: refbin.py (validated against the document examples and 4 Studio files), errata resolutions; the reader is only shown files the reference encoder can produce',
    'technique': 'independent spec encoder -> real reader -> dump comparison (runtime differential monitor)',
}


def _domops(pid):
    def run(m, tier, seed, rundir, extra):
        count = int(extra.get('count', 6000 if tier == 'quick' else 300000))
        res = core.run_sharded('domops', ['--prop', pid, '--seed', seed, '--count', count], SH, rundir)
        m.add_results(res, 'domops random')
        ex = [('2', '2', '0')] if tier == 'quick' else [('2', '3', '0'), ('2', '2', '1'), ('3', '2', '0')]
        for k, (init, steps, rich) in enumerate(ex):
            sub = os.path.join(rundir, f'ex{k}')
            res = core.run_sharded('domops', ['--prop', pid, '--mode', 'exhaustive', '--init', init, '--steps', steps, '--rich', rich,
                                              '--uids', '1'], SH, sub, timeout=7200)
            m.add_results(res, f'domops exhaustive init={init} steps={steps} rich={rich}')
            m.extra.setdefault('exhaustive_scopes', []).append({'dom_count': 2, 'initial_inserts': int(init), 'further_operations': int(steps),
                                                               'ref_properties': rich == '1', 'unique_id_pool': 1})
        for n in m.notes:
            if n.startswith('INCONCLUSIVE'):
                m.inconclusive.append(n)
        if tier == 'thorough':
            core.miri_leg(m, pid, 'dom', [seed, seed + 1])
            if pid == 'C12':
                core.miri_leg(m, pid, 'sstr', list(range(seed, seed + 16)))
                core.tsan_leg(m, pid, [('uidnow', ['uidnow', '--threads', 16, '--per', 200000]),
                                       ('mixed', ['tsan', '--what', 'mixed', '--threads', 16, '--rounds', 120, '--seed', seed])], os.path.join(rundir, 'tsan'))
        if pid == 'C12':
            import sys
            sys.path.insert(0, os.path.join(core.VERIF, 'lib'))
            from monitors import c12
            fp = os.path.join(rundir, 'c12files.jsonl')
            c12.make(fp, seed, 200 if tier == 'quick' else 5000)
            m.add_results([core.run_vh(['c12read', '--in', fp], os.path.join(rundir, 'c12read.json'))], 'c12read')
            os.remove(fp)
            m.add_results([core.run_vh(['uidnow', '--threads', 16, '--per', 50000 if tier == 'quick' else 1000000],
                                       os.path.join(rundir, 'uidnow.json'))], 'uidnow')
    return run


_DOM_RULE = ('histories of insert / destroy / transfer_within / transfer / clone_within / clone_into_external / clone_multiple_into_external over 1-3 real WeakDoms, '
             'arguments drawn within the documented preconditions (moving an instance under its own descendant is excluded: no tree can represent it; the list given to clone_multiple_into_external may repeat an '
             'instance or name an instance together with a descendant - nothing documented forbids it - and then any of the copies counts as the corresponding copy of a Ref target); '
             'nodes carry 0-2 outward Ref properties, a self Ref, dangling Refs, pooled UniqueIds; one inserted builder in six is created on a freshly started thread, through any of the public constructors (new / with_property_capacity / empty + with_class / set_class); builders are also left unnamed (new(class) names the instance after that class), re-classed after new (with_class changes the class only), made by empty() or named by set_name; one node in six carries a Bool property named Archivable (cloning copies it like anything else); ids are compared field by field by the monitor (== and Hash of the type are code under test) and the pool holds ids that share one negative random part; WeakDom::reserve is called on live DOMs (a capacity hint: nothing observable may change); one fixed scenario per run uses a ROOTLESS DOM (WeakDom::default) as clone and transfer destination; half of the random histories MIRROR referents: all DOM roots are built with one chosen referent and one inserted subtree root in four gets the referent of a node of another DOM (a Ref designates whoever holds its value in the DOM at hand); one history in forty opens with a size scenario (two folders of 65-130 children joined by 65-130 distinct Refs, cloned within and across DOMs; or 460 id-carrying children, a parentless clone and a mass destroy); now and then a DOM goes through '
             'into_raw + from_raw + reserve (nothing observable may change; the rebuilt id bookkeeping is checked through the hook); '
             'random histories of 20-400 operations (few live nodes, many operations) plus the exhaustive enumeration of every history in the small scopes '
             'listed under exhaustive_scopes (all valid argument choices at every step); after EVERY step each DOM is walked through the public API and compared '
             'with a reference model executing the documented meaning of the step; ')

for _pid, _what, _nt, _claim, _tech in [
    ('C09', 'monitor: parent/children agreement, listed exactly once, no ancestor cycles, parentless root, destroyed/transferred-away referents unresolvable, '
            'stored-instance count, descendants_of = reachable set once each with parents first',
     'non-trivial = history with >=2 operations; distinct = hash of the operation log',
     'held after every step of N histories: every DOM stayed a well-formed forest under the public-API walk', 'structural invariant monitor at quiescent points (after every operation)'),
    ('C10', 'monitor: real DOMs equal the reference model under the referent bijection (parent, ordered children, name, class, every property), insert returns the subtree root, '
            'instances conserved across transfer',
     'non-trivial = history containing a move whose source parent had >=2 children and whose destination already had a child; distinct = hash of the operation log',
     'held after every step of N histories: the real DOMs equalled a reference model of the documented effect (append-last order, untouched instances untouched, conservation)',
     'lock-step reference model comparison after every operation'),
    ('C11', 'monitor at every clone: copies parentless, fresh pairwise-distinct referents, isomorphic (shape, order, names, classes, values), source unchanged, every Ref property '
            'classified by the model (inside cloned set -> copy; outside but present in destination -> kept; else null), including refs between subtrees cloned together',
     'non-trivial = history with >=2 operations; distinct = hash of the operation log',
     'held on every clone of N histories incl. all Ref placements of the small scope with ref_properties=true', 'lock-step reference model comparison (clone rewrite rule) after every clone'),
    ('C12', 'monitor: no id held twice in a DOM; bookkeeping set (cfg hook) == ids held; for the group entering a DOM: exactly one holder keeps a value not held by the destination, none keeps a '
            'held one, regenerated ids fresh; ids of instances not entering unchanged; plus decoded DOMs of files containing duplicate ids (binary via the independent encoder, XML text) '
            'and 16 threads x UniqueId::now()',
     'non-trivial = history with >=2 operations / file with duplicate ids; distinct = hash of log or file',
     'held after every step of N histories with ids drawn from a pool of 2-4 values (forced collisions), on decoded DOMs, and on 8e5+ concurrent UniqueId::now() values (all distinct)',
     'id-set invariant monitor after every operation + offline uniqueness check over recorded generator output'),
]:
    PLANS[_pid] = {
        'level': 'exploration',
        'rule': _DOM_RULE + _what + '; ' + _nt,
        'floor': {'quick': 5000, 'thorough': 200000},
        'exhaustive': {},
        'assumptions': ['reference model in harness/src/domops.rs written from the doc comments of WeakDom', 'public API walk + cfg(rbx_dom_verif) hooks verif_unique_ids / verif_instance_count'],
        'run': _domops(_pid),
        'claim': _claim + '. Exploration: random histories + exhaustive small scopes; says nothing about histories outside them.',
        'note': 'trusted: the reference model and generators (domops.rs); argument space restricted to documented preconditions',
        'technique': _tech,
    }


def _c18(m, tier, seed, rundir, extra):
    scopes = [('3', '1', '2')] if tier == 'quick' else [('3', '1', '2'), ('3', '2', '2'), ('2', '1', '3'), ('4', '1', '2')]
    for k, (ln, contents, threads) in enumerate(scopes):
        res = core.run_sharded('sstr', ['--mode', 'explore', '--len', ln, '--contents', contents, '--threads', threads,
                                        '--max-schedules', 400000], SH, os.path.join(rundir, f'scope{k}'), timeout=7200)
        m.add_results(res, f'sstr explore len={ln} contents={contents} threads={threads}')
        m.extra.setdefault('exhaustive_scopes', []).append({'threads': int(threads), 'ops_per_thread_before_closing': int(ln), 'contents': int(contents)})
    for n in m.notes:
        if n.startswith('INCONCLUSIVE'):
            m.inconclusive.append(n)
    ops = 2000000 if tier == 'quick' else 40000000
    res = core.run_sharded('sstr', ['--mode', 'stress', '--ops', ops, '--threads', 16, '--seed', seed], 1 if tier == 'quick' else 4, os.path.join(rundir, 'stress'))
    m.add_results(res, 'sstr stress')
    if tier == 'thorough':
        # Miri: data races and the Arc/Weak protocol under weak-memory emulation; each seed is another schedule
        core.miri_leg(m, 'C18', 'sstr', list(range(seed, seed + 48)))
        # ThreadSanitizer: the same stress run natively, with std instrumented (build-std), plus the mixed workload
        core.tsan_leg(m, 'C18', [('stress', ['sstr', '--mode', 'stress', '--ops', 4000000, '--threads', 16, '--seed', seed]),
                                 ('mixed', ['tsan', '--what', 'mixed', '--threads', 16, '--rounds', 120, '--seed', seed + 7])], os.path.join(rundir, 'tsan'))


PLANS['C18'] = {
    'level': 'exploration',
    'rule': ('real OS threads run closed programs of new/clone/drop on SharedStrings; a controller parks every thread at each yield point (clone/drop entry at the client boundary, '
             'and the two cfg hooks: before the table lock in new(), and between the last release and the table clean-up in Drop) and releases one thread at a time; '
             'EVERY schedule of every program set in the scopes under exhaustive_scopes is executed (DFS over release choices, replayable from the choice string); '
             'oracle at every quiescent point: handle bytes, ==/Hash, all live handles of equal content share one buffer address, no deadlock, table back to its initial size after all drops; '
             'plus a 16-thread uncontrolled stress run with jitter injected at the hooks and the same oracle at barriers, ending with phases whose contents never come back, so that an entry left behind cannot be healed by a later new(): unique contents, a sliding alphabet shared by all threads, rendezvous drops (pairs of threads '
             'drop the last two handles of a unique string at the same instant) and ping-pong (the two threads of a pair run new()+drop of one content three times in step) before the final table-size check; a released thread that makes no progress for 45 s while all others are parked is reported as a deadlock, and a side thread watches the uncontrolled phases for 120 s without a single operation; handles also end by being overwritten in place (Clone::clone_from directly and through Vec / Option, assignment, mem::replace, Option::take); '
             'non-trivial = schedule with >=2 scheduling decisions; distinct = (program set, choice string)'),
    'floor': {'quick': 20000, 'thorough': 300000},
    'exhaustive': {},
    'assumptions': ['interleavings finer than the hook granularity (inside Arc / Mutex) are not enumerated; they are left to the stress run and the Miri leg',
                    'hooks sit outside the table lock, so no interleaving is manufactured that the program cannot have'],
    'run': _c18,
    'claim': ('held on every schedule (at critical-section / clean-up-window granularity) of all closed 2-3 thread programs in the listed scopes and on a multi-million-operation stress run: '
              'bytes, equality, single shared buffer per content, termination, empty table at the end'),
    'note': 'trusted: the schedule controller (harness/src/sstr.rs); contents are unique per schedule so runs do not interfere through the process-global table',
    'technique': 'controlled-schedule runtime monitoring of real threads (exhaustive at hook granularity) + stress with injected delays',
}


def _c17(m, tier, seed, rundir, extra):
    count = int(extra.get('count', 40000 if tier == 'quick' else 4000000))
    res = core.run_sharded('c17', ['--seed', seed, '--count', count, '--text', 100000 if tier == 'quick' else 2000000,
                                   '--blobs', 2000 if tier == 'quick' else 100000, '--repo', core.REPO], SH, rundir)
    m.add_results(res, 'c17')
    for n in m.notes:
        if n.startswith('INCONCLUSIVE'):
            m.inconclusive.append(n)
    if tier == 'thorough':
        core.miri_leg(m, 'C17', 'serde', [seed, seed + 1, seed + 2])


PLANS['C17'] = {
    'level': 'exploration',
    'rule': ('generated values of all 40 Variant types (boundary pools; finite floats for JSON) through serde_json to_string/from_str, from_slice, from_reader, to_value/from_value, '
             'bincode, MessagePack compact and named: decoded value must be bit-identical (canonical dump); fault injection: each JSON-capable value is also serialized into sinks that fail after k bytes '
             '(5 cut points; also bincode / MessagePack) and parsed from inputs cut at k: the failing call must report the error, and the next ordinary call on the same thread must give exactly what it gave before; Ref and UniqueId through Display/FromStr (boundaries incl. negative random parts + random); '
             'exhaustive small domains: all 65536 BrickColor numbers (number, name, serde), all 256 Faces/Axes raw bytes through the compact encodings (valid ones round-trip, invalid ones are errors); '
             'Tags and MaterialColors blob laws; every sample of rbx_dom_lua/src/allValues.json decodes (from text and from a serde_json::Value) to its stated type and re-encodes to the same JSON; '
             'non-trivial = every generated value; distinct = digest of (type, canonical value)'),
    'floor': {'quick': 30000, 'thorough': 1000000},
    'assumptions': ['serde_json is built with its float_roundtrip feature in the harness: without it serde_json itself parses some f64 texts 1 ulp off, which is not rbx_types behaviour'],
    'run': _c17,
    'claim': 'held on N values x 7 encodings, the exhaustive small domains and all 38 allValues.json samples',
    'note': 'trusted: harness generators, canonical dump; serde_json/bincode/rmp-serde as the encodings under test drive them',
    'technique': 'runtime encode/decode identity monitor per serde entry point + exhaustive small-domain sweeps',
}


def _c14run(args):
    import sys
    sys.path.insert(0, os.path.join(core.VERIF, 'lib'))
    from monitors import c14
    return c14.run(args)


def _c14(m, tier, seed, rundir, extra):
    count = int(extra.get('count', 6000 if tier == 'quick' else 400000))
    res = core.run_sharded('c14', ['--seed', seed, '--count', count], SH, rundir,
                           per_shard_args=lambda i: ['--caselog', os.path.join(rundir, f'attrs-{i}.jsonl')])
    m.add_results(res, 'c14')
    jobs = [(os.path.join(rundir, f'attrs-{i}.jsonl'), os.path.join(rundir, f'foreign-{i}.jsonl'), seed) for i in range(SH)]
    for s_ in _pool(_c14run, jobs):
        m.add_summary(s_)
    import concurrent.futures as cf
    with cf.ThreadPoolExecutor(max_workers=core.NCPU) as ex:
        futs = [ex.submit(core.run_vh, ['c14read', '--in', os.path.join(rundir, f'foreign-{i}.jsonl')], os.path.join(rundir, f'c14read-{i}.json')) for i in range(SH)]
        m.add_results([f.result() for f in futs], 'c14read')
    if tier == 'thorough':
        core.miri_leg(m, 'C14', 'attr', list(range(seed, seed + 8)))
    for i in range(SH):
        for f in (f'attrs-{i}.jsonl', f'foreign-{i}.jsonl'):
            p = os.path.join(rundir, f)
            if os.path.exists(p):
                os.remove(p)


PLANS['C14'] = {
    'level': 'exploration',
    'rule': ('generated attribute maps (0-40 entries, names incl. empty/multi-byte, all 19 types, every rotation id and BrickColor cycled, sequences of 0..4097 keypoints): '
             '(a) to_writer -> from_reader equals the source under the documented normalisations (String->BinaryString, rotation rule from the docs table), and to_writer gives the same bytes through a write()-only writer, '
             'a writer taking 1-7 bytes per call and a small BufWriter as into a Vec; '
             '(b) refattr.py, an independent decoder written from docs/attributes.md, reads the written bytes to the same map; '
             '(a2) two blobs and a trailer decoded from ONE stream: each from_reader call takes exactly its blob; '
             '(c) blobs built by the independent encoder (entry order shuffled, axis-aligned rotations in long form, non-0/1 Bool bytes) decode to the map they describe; '
             '(d) a file holding three instances of one class (a longer map, the map under test, an empty map): every PROP string in the binary file (refbin.py) and every base64 payload in the XML file (refxml.py) '
             'equals the to_writer bytes of that instance; '
             'non-trivial = map with >=2 entries; distinct = digest of the map / blob Every blob is also decoded through readers that are not slices: a few bytes per call, and ErrorKind::Interrupted on the very first call / every other call / every third call.'),
    'floor': {'quick': 5000, 'thorough': 300000},
    'assumptions': ['refattr.py / refbin.py / refxml.py written from the documents', 'rotation bases from the docs table (rot.rs)'],
    'run': _c14,
    'claim': 'held on N maps in all four directions (self round trip, independent decode, independent encode, file-level blob identity)',
    'note': 'trusted: Python reference codecs, harness oracle for the normalisations',
    'technique': 'runtime round-trip oracle + independent spec codec over recorded blobs (both directions)',
}


def _c13(m, tier, seed, rundir, extra):
    import sys
    sys.path.insert(0, os.path.join(core.VERIF, 'lib'))
    from monitors import c13
    profiles = [('release', None)] if tier == 'quick' else [('release', None), ('dbg', core.vh('dbg'))]
    corpus = os.path.join(rundir, 'structured.jsonl')
    c13.make(corpus, seed)
    for pname, worker in profiles:
        wargs = ['--profile-name', pname] + (['--worker', worker] if worker else [])
        sub = os.path.join(rundir, pname)
        n_mut = int(extra.get('count', 8000 if tier == 'quick' else 400000))
        m.add_results(core.run_sharded('c13', ['--mode', 'mutate', '--seed', seed, '--count', n_mut] + wargs, SH, os.path.join(sub, 'mutate'), timeout=7200), f'c13 mutate {pname}')
        m.add_results(core.run_sharded('c13', ['--mode', 'truncate', '--seed', seed, '--files', 32 if tier == 'quick' else 480] + wargs, SH, os.path.join(sub, 'truncate'), timeout=7200), f'c13 truncate {pname}')
        m.add_results(core.run_sharded('c13', ['--mode', 'sink', '--seed', seed, '--files', 16 if tier == 'quick' else 160] + wargs, SH, os.path.join(sub, 'sink'), timeout=7200), f'c13 sink {pname}')
        m.add_results(core.run_sharded('c13', ['--mode', 'corpus', '--in', corpus] + wargs, 4, os.path.join(sub, 'corpus')), f'c13 corpus {pname}')
    if tier == 'thorough':
        # memcheck over the decoders incl. the vendored lz4 / zstd C code fed hostile lengths
        import concurrent.futures as cf
        with cf.ThreadPoolExecutor(max_workers=8) as ex:
            for k in range(8):
                ex.submit(core.valgrind_leg, m, 'C13', ['c13', '--mode', 'mutate', '--seed', seed + 100 + k, '--count', 400, '--shard', k, '--nshards', 8, '--timeout', 300],
                          os.path.join(rundir, 'valgrind'), f'mutate-{k}', {'VH_WORKER_PREFIX': 'valgrind -q --error-exitcode=99'}, False)
            ex.submit(core.valgrind_leg, m, 'C13', ['c13', '--mode', 'corpus', '--in', corpus, '--timeout', 300], os.path.join(rundir, 'valgrind'), 'corpus',
                      {'VH_WORKER_PREFIX': 'valgrind -q --error-exitcode=99'}, False)
    m.extra['build_profiles'] = [p for p, _ in profiles]
    m.extra['exhaustive_parts'] = 'truncation at EVERY byte offset of each base file; sink failure at EVERY output offset (error, zero-length write) and every 16th offset (interrupted+short writes)'


PLANS['C13'] = {
    'level': 'fault_enumeration',
    'rule': ('a supervisor drives a worker process one case at a time (call/return over a pipe) so aborts, stack overflows and refused >1 GiB allocations are attributed to the open case; '
             'inputs: random bytes (with/without valid magic), valid binary (none/lz4/zstd), XML and attribute files mutated by bit flips, byte/u32 substitutions, off-by-one on length fields, '
             'insert/delete/duplicate/splice, header / chunk-header / leading-count edits and chunk reordering, XML element text edited in place (multi-byte characters at the same byte length, number syntax, '
             'off-by-one lengths, long runs); every 64 calls the same worker re-decodes three valid files and must report the digests it reported before it saw anything hostile (state left behind); XML bombs (nesting 1e2..1e5, entity expansion, huge numbers/attributes, invalid UTF-8); '
             'a structure-aware hostile corpus (~75 single-fault files built with the independent encoder primitives, plus ~250 well-formed binary and XML files whose blob-typed properties - MaterialColors, Tags, Attributes - '
             'carry blobs of every length 0..80 and hostile contents); '
             'fault enumeration: every strict prefix of each valid base file must be an error; every mutated/valid input is re-read through 1-byte, short-read and Interrupted readers and must give the same result; '
             'a sink failing at every output offset must make the writers return Err (or identical bytes when only interrupted). '
             'Oracles: outcome in {Ok, Err}, largest single allocation <= max(16 MiB, 1024 x input), no watchdog timeout; non-trivial = every input; distinct = hash of the input The structured corpus also holds XML documents with every child-element vocabulary docs/xml.md mentions for composite values (current, historical binary / hash, unknown) in typed positions, each with all of its byte prefixes. After three confirmed hangs further timeouts are counted without the 3x re-run and a shard stops after five of them. Zstandard frames built by hand whose forged content size AGREES with the forged uncompressed length of the chunk header (64 MiB, 1 GiB, 3 GiB, 8-byte field) are part of the structured corpus. XML documents of the structured corpus are decoded under all four property behaviours (ReadUnknown, ErrorOnUnknown, IgnoreUnknown, NoReflection) and include properties the database knows but never serializes, unknown properties and unknown classes.'),
    'floor': {'quick': 20000, 'thorough': 400000},
    'profiles': {'quick': [], 'thorough': ['dbg']},
    'assumptions': ['the worker runs each case on an 8 MiB stack', 'CPU/hang: 30 s wall-clock watchdog per case whose firing is reported as unconfirmed (inconclusive note), not as a violation'],
    'run': _c13,
    'claim': ('held on N inputs / fault points: no panic, abort, stack overflow, oversized allocation or hang; all strict prefixes rejected; results independent of read partitioning; '
              'all injected sink failures surfaced (thorough: release and overflow-checking builds)'),
    'note': 'trusted: supervisor/worker protocol, counting allocator, mutation engine; the XML nesting-depth stack overflow is a listed known finding',
    'technique': 'fault injection and mutation under outcome/allocation/progress monitors in a supervised worker process',
}


PLANS['C08'] = {
    'level': 'exploration',
    'rule': ('groups of 2-5 instances of one class (Part, MeshPart, TextLabel, ScreenGui, ImageLabel, StringValue, SpawnLocation, an unknown class, and every class whose own default for a property differs from an '
             'ancestor\'s - found by walking the database) each carrying a random subset of logical properties under a '
             'random spelling (canonical / alias / legacy migrating: Size|size, Color|Color3uint8|BrickColor|brickColor, Font|FontFace, IgnoreGuiInset|ScreenInsets, Image|ImageContent, MeshId|MeshContent ...); '
             'every instance is first round-tripped alone, then the group in ALL n! sibling orders (n<=4; 24 random orders above): every order must serialize, every instance must show exactly what it shows alone, '
             'gaps must hold the database default of the class (independent walk) or, if there is none, never a donor value; outcome classes must not depend on order; '
             'non-trivial = group using >=2 distinct spellings; distinct = digest of the group description Service classes (Lighting, Workspace, SoundService) are in the class pool: two copies of a service obey the same column rules. One group member in six also carries a property the database knows but never serializes.'),
    'floor': {'quick': 2000, 'thorough': 100000},
    'exhaustive': {},
    'assumptions': ['differential oracle: alone vs in-group (so a defect that changes both identically is C01/C15 territory)', 'database defaults via dbwalk.rs'],
    'run': _rt('c08', 4000, 300000),
    'claim': 'held on N groups x all sibling orders: success independent of order, own values kept, gaps filled with defaults and never with another instance\'s value',
    'note': 'trusted: harness generator of groups, differential oracle, dbwalk defaults',
    'technique': 'differential runtime oracle (alone vs group, all permutations) over generated same-class groups',
}


def _c07(m, tier, seed, rundir, extra):
    count = int(extra.get('count', 1600 if tier == 'quick' else 40000))
    procs = 4 if tier == 'quick' else 12
    tables = []
    for p in range(procs):
        res = core.run_sharded('c07', ['--seed', seed, '--count', count] + (['--reverse', '1'] if p % 2 else []) + (['--trace-log', 1] if p % 3 == 1 else []), SH, os.path.join(rundir, f'proc{p}'))
        per_shard = []
        for rc, summ, err in res:
            if summ is None:
                m.inconclusive.append(f'c07 process set {p} exited {rc}: {err[-300:]}')
                per_shard.append({})
            else:
                per_shard.append(summ.get('extra', {}).get('hashes', {}))
                summ['extra'] = {}
                if p > 0:
                    # the in-process checks of the repeated runs are the same executions again; keep their violations, not their counts
                    summ['samples'] = []
                m.add_summary(summ)
        tables.append(per_shard)
    compared = 0
    differing = 0
    for shard in range(SH):
        base = tables[0][shard]
        for key, h in base.items():
            vals = {t[shard].get(key) for t in tables}
            compared += 1
            if len(vals) > 1:
                differing += 1
                idx, fmt = key.split('/')
                kind = 'success-differs' if any(v and v.startswith('err') for v in vals) and any(v and v.startswith('ok') for v in vals) else 'bytes-differ'
                m.add_violation(f'C07:cross-process:{kind}:{"xml" if fmt == "xml" else "binary"}',
                                f'case {idx} ({fmt}): {len(vals)} different outputs across {procs} processes with the same seed: {sorted(str(v) for v in vals)[:4]}',
                                {'cmd': 'c07', 'seed': seed, 'index': int(idx)}, None)
    m.coverage['cross_process.outputs_compared'] = compared
    m.coverage['cross_process.processes'] = procs
    m.coverage['cross_process.outputs_differing'] = differing


PLANS['C07'] = {
    'level': 'exploration',
    'rule': ('each logical tree (generated, plus instances carrying several spellings of one logical property with different values) is built 6 ways (nested builders, chosen referents, shuffled '
             'property insertion order, reversed order + capacity, incremental inserts, flat insert + transfer_within) and serialized as binary x {lz4,none,zstd} and XML: all outputs byte-identical; '
             'the whole workload runs in P separate processes (other hash seeds; every other one runs the cases in the opposite order, so state kept between calls differs too) and their (case, format) -> output hashes are joined offline and must agree; '
             'one case in eight uses a class for which the database records no defaults (the writer must invent the gap value); one in twelve gives an instance an unknown THIRD spelling between two database names that differ only in letter case (Humanoid MaxHealth / maxHealth ...; found by walking the database); fault injection: after the first output of a case, saves are made to FAIL (sink refusing after k bytes, a tree the writer rejects) and the next save of the same tree must give the same bytes; '
             'fixed point: b2 = save(load(b1)), b3 = save(load(b2)) must be byte-identical; non-trivial = tree with >=3 nodes or >=2 properties; distinct = digest of the tree shape Multi-spelling trees include the two canonical Sound / MaterialService properties that share one serialized name.'),
    'floor': {'quick': 1500, 'thorough': 30000},
    'assumptions': ['process-level hash-seed diversity comes from ahash runtime keys: P processes sample P seeds, not all'],
    'run': _c07,
    'claim': 'held on N trees x 6 constructions x 4 encodings and across P processes: identical bytes; re-save is a fixed point',
    'note': 'trusted: TreeSpec builders (spec.rs); hash-order dependence can only be observed across processes, so P bounds what is seen',
    'technique': 'offline join of recorded output hashes across constructions and processes + in-process fixed-point monitor',
}


def _c16(m, tier, seed, rundir, extra):
    res = core.run_sharded('c16', ['--repo', core.REPO], SH, rundir)
    m.add_results(res, 'c16')
    for n in m.notes:
        if n.startswith('INCONCLUSIVE'):
            m.inconclusive.append(n)


PLANS['C16'] = {
    'level': 'exploration',
    'rule': ('exhaustive walk of rbx_reflection_database::get() through the public rbx_reflection types: every superclass chain (resolves, acyclic), every alias target (canonical, same class), '
             'every serializes-as target (same class, typed, leads back to a serializing property), every migration target (serializable), every enum reference, every default value (belongs to a reachable '
             'property; type = declared, serialized, or a documented widening); then for EACH class an instance populated with all its serializable defaults is written and read by both codecs and compared '
             'with the C01/C02 oracle; for EACH class a donor instance sets every default-carrying property to another value and a bare instance next to it must come back with the default visible on that class (nearest class wins); then EACH (class, own descriptor name) goes once through both writers and, where written, both readers (lookup paths must not panic; own output must be readable); '
             'the Lua-side copy rbx_dom_lua/src/database.json is cross-checked (version, classes, property sets, kinds); a modified copy of the database (one more serializes-as pair with a default) is handed to both codecs '
             'through their public options, and the bundled database is sent through the encodings rbx_reflector writes (MessagePack, human-readable MessagePack; JSON written and counted) and back with every class / descriptor / default / enum compared; the modified copy goes '
             'in both chain orders x all compression types / property behaviours and must be the database actually used (wire name, name on the way back, default, identical output for both orders). non-trivial = each class default instance per format; distinct = class x format Hoisted targets: for each migrating property a copy of the database in which the migration target (with its aliases and default) is declared by the superclass instead - coherent, as a regenerated database may be - must make both codecs produce what the bundled database produces. Added migration: a copy of the database in which Folder gains a legacy ContentId property migrating to a new Content property (both name orders) - legacy alone migrates, an explicit new value wins, in both codecs and insertion orders. Studio-style ContentId: every ContentId descriptor is read from a Content element holding null / url and must come back with the declared type. The added-migration database also has an alias of the legacy property (alone, and next to the explicit value).'),
    'floor': {'quick': 15000, 'thorough': 15000},
    'exhaustive': {'quick': True, 'thorough': True},
    'assumptions': ['the exhaustive walk covers the bundled database; a regenerated database is covered by re-running the same check (the codecs\' handling of a caller-supplied database is exercised with one modified copy)', 'two canonical descriptors sharing a wire name are reported as informational (see known findings of C01/C03)'],
    'run': _c16,
    'claim': 'exhaustive over the bundled database (797 classes, 3242 descriptors, 458 enums, 7231 defaults at the pinned version; counts are measured each run): structure coherent, every class default instance unchanged through both codecs, no lookup panics',
    'note': 'trusted: dbwalk.rs and the C01/C02 oracle; quick and thorough run the same exhaustive walk',
    'technique': 'structural invariant walk of the live database + per-class codec round-trip monitor (exhaustive enumeration of real executions)',
}


def _c06(m, tier, seed, rundir, extra):
    count = int(extra.get('count', 3000 if tier == 'quick' else 150000))
    values = 1 if tier == 'quick' else 8
    res = core.run_sharded('c06', ['--seed', seed, '--count', count, '--values', values], SH, rundir)
    m.add_results(res, 'c06')


PLANS['C06'] = {
    'level': 'exploration',
    'rule': ('for a database-only DOM D: B = read_bin(write_bin(D)), X = read_xml(write_xml(D)) must have the same shape/order/classes/names and hold every explicitly set property under the same '
             'canonical name (independent database walk) with equal values (NaN as a class); read_xml(write_xml(B)) and read_bin(write_bin(X)) must keep everything the first read produced. '
             'Workload: EVERY serializable, non-migrating descriptor of the database whose type both formats implement (2201 at the pinned version; skipped ones are counted with the reason) set on its '
             'owning class and a random subclass, through canonical and alias names, plus random multi-property DOMs over all 797 classes with Ref/SharedString topology. '
             'Near-basis rotations are replaced by the exact basis (binary snaps them by design); non-trivial = every case; distinct = descriptor#value or DOM digest'),
    'floor': {'quick': 4000, 'thorough': 100000},
    'assumptions': ['Content values holding object references are excluded (rbx_xml cannot write them: known finding of C02)'],
    'run': _c06,
    'claim': 'held on every covered descriptor (x1 value quick, x8 thorough) and N random DOMs: both formats agree and conversion in either direction loses nothing',
    'note': 'trusted: dbwalk.rs for expected names, generators; the two codecs are compared with each other (differential), so a mistake made identically in both is C01/C03/C05 territory',
    'technique': 'cross-codec differential monitor over generated DOMs, exhaustive over database descriptors',
}


def _c15make(args):
    import sys
    sys.path.insert(0, os.path.join(core.VERIF, 'lib'))
    from monitors import c15
    return c15.make(*args)


def _c15(m, tier, seed, rundir, extra):
    stride = 5 if tier == 'quick' else 1
    res = core.run_sharded('c15', ['--seed', seed, '--stride', stride], SH, rundir,
                           per_shard_args=lambda i: ['--cases', os.path.join(rundir, f'cases-{i}.jsonl')])
    m.add_results(res, 'c15 write paths')
    jobs = [(os.path.join(rundir, f'cases-{i}.jsonl'), os.path.join(rundir, f'files-{i}.jsonl'), seed) for i in range(SH)]
    made = sum(_pool(_c15make, jobs))
    import concurrent.futures as cf
    with cf.ThreadPoolExecutor(max_workers=core.NCPU) as ex:
        futs = [ex.submit(core.run_vh, ['readcmp', '--prop', 'C15', '--in', os.path.join(rundir, f'files-{i}.jsonl')], os.path.join(rundir, f'readcmp-{i}.json')) for i in range(SH)]
        m.add_results([f.result() for f in futs], 'c15 read paths')
    m.extra['read_path_files'] = made
    for i in range(SH):
        for f in (f'cases-{i}.jsonl', f'files-{i}.jsonl'):
            p = os.path.join(rundir, f)
            if os.path.exists(p):
                os.remove(p)


PLANS['C15'] = {
    'level': 'exploration',
    'rule': ('every Migrate descriptor of the database (found by an independent walk; 12 at the pinned version) on subclasses of its owner, for every legacy value (all items of the property\'s enum in the database, '
             'all valid BrickColor numbers, both booleans, a pool of URIs incl. empty; quick tier: every 5th value, all descriptors and paths), with and without an explicit value for the new property: '
             'path w-bin / w-xml: DOM with the legacy name through the real writer and reader; path r-bin / r-xml: files that contain the legacy PROP chunk / element (built by refbin.py / plain text, both '
             'chunk / element orders, and once more behind another class that carries the target property explicitly) through the real reader. On the write paths the instance under test stands in four positions of one file (alone; first and second child of a same-class parent that carries both '
             'spellings; first child of a parent carrying only the legacy one) and must decode identically in all of them. All four paths must produce the same new canonical property with equal value, never the legacy name, the explicit value must win, and no path may fail. '
             'non-trivial = every case; distinct = (class, legacy property, value, presence) Each case also runs with the explicit new value EXACTLY EQUAL to the database default of the new property. The added-migration database leg of C16 runs here too (a migration the bundled database does not know). Read paths also get the two legacy spellings of BasePart colour around the explicit value in all six element / chunk orders.'),
    'floor': {'quick': 300, 'thorough': 3000},
    'exhaustive': {'thorough': True},
    'assumptions': ['the four paths are compared with each other (differential): a wrong mapping made identically on all four is not visible here'],
    'run': _c15,
    'claim': 'held on every descriptor x value x presence x path/order in scope (thorough: all values): four-path agreement, explicit new value wins, legacy name never survives',
    'note': 'trusted: refbin.py encoder for r-bin files, hand-written XML for r-xml; Font=100 (Enum.Font.Unknown) is a listed known finding',
    'technique': 'four-path differential monitor over the database\'s migrating descriptors (exhaustive over legacy values in thorough)',
}


def _c05make(args):
    import sys
    sys.path.insert(0, os.path.join(core.VERIF, 'lib'))
    from monitors import c05
    return c05.make_files(args)


def _c05(m, tier, seed, rundir, extra):
    # writer direction: independent parser + decoder over recorded rbx_xml outputs
    count = int(extra.get('count', 1600 if tier == 'quick' else 60000))
    res = core.run_sharded('c02', ['--seed', seed, '--count', count], SH, rundir,
                           per_shard_args=lambda i: ['--caselog', os.path.join(rundir, f'cases-{i}.jsonl')])
    for rc, summ, err in res:
        if summ is None:
            m.inconclusive.append(f'c02 producer exited {rc}: {err[-300:]}')
    paths = [os.path.join(rundir, f'cases-{i}.jsonl') for i in range(SH) if os.path.exists(os.path.join(rundir, f'cases-{i}.jsonl'))]
    for s_ in _monitor_pool('c05', paths):
        for k in list(s_['coverage']):
            s_['coverage']['writer.' + k] = s_['coverage'].pop(k)
        m.add_summary(s_)
    for p in paths:
        os.remove(p)
    # reader direction: documents from the independent generator through the real reader
    rcount = int(extra.get('rcount', 800 if tier == 'quick' else 40000))
    res = core.run_sharded('foreigngen', ['--seed', seed, '--count', rcount, '--fmt', 'xml'], SH, os.path.join(rundir, 'gen'),
                           per_shard_args=lambda i: ['--cases', os.path.join(rundir, f'logical-{i}.jsonl')])
    for rc, summ, err in res:
        if summ is None:
            m.inconclusive.append(f'foreigngen exited {rc}: {err[-300:]}')
    jobs = [(os.path.join(rundir, f'logical-{i}.jsonl'), os.path.join(rundir, f'files-{i}.jsonl'), seed) for i in range(SH)]
    made = sum(_pool(_c05make, jobs))
    import concurrent.futures as cf
    with cf.ThreadPoolExecutor(max_workers=core.NCPU) as ex:
        futs = [ex.submit(core.run_vh, ['readcmp', '--prop', 'C05', '--in', os.path.join(rundir, f'files-{i}.jsonl')], os.path.join(rundir, f'readcmp-{i}.json')) for i in range(SH)]
        outs = [f.result() for f in futs]
    for rc, summ, err in outs:
        if summ is not None:
            for k in list(summ['coverage']):
                summ['coverage']['reader.' + k] = summ['coverage'].pop(k)
    m.add_results(outs, 'readcmp xml')
    m.extra['reader_direction_documents'] = made
    for i in range(SH):
        for f in (f'logical-{i}.jsonl', f'files-{i}.jsonl'):
            p = os.path.join(rundir, f)
            if os.path.exists(p):
                os.remove(p)


PLANS['C05'] = {
    'level': 'exploration',
    'rule': ('writer direction: every document rbx_xml writes for the C02 workload (three option pairings) is parsed by expat (an independent XML parser) and decoded by refxml.py, written from docs/xml.md: '
             'version 4, Item class + file-unique non-null referent, exactly one Properties per Item, documented element name and layout per type, null for empty refs, every SharedString use defined in the one '
             'dictionary; decoded values must equal the statement-derived expectation (an independent parser normalises line ends, so a raw CR in text shows here). '
             'reader direction: logical DOMs are rendered by refxml.encode varying declaration, xmlns attributes, Meta/External, RBX-uuid referents, property order, whitespace, forward refs, ProtectedString, '
             'wrapped base64, alternative float spellings, CDATA/escapes/character references, comments, FF colour byte, optional CachedFaceId; rbx_xml::from_reader must return exactly that DOM. '
             'non-trivial = document with >=2 instances; distinct = hash of the document Referent styles of the reference encoder include LOOKALIKES (strings that differ only in padding, letter case or leading zeros: different referents, compared verbatim). The second document of each case uses upper-case hex digits in UniqueIds and the pre-645 Content element for ContentId values, an empty database-declared ContentId the way Studio writes it (Content holding null).'),
    'floor': {'quick': 2000, 'thorough': 60000},
    'assumptions': ['refxml.py / refattr.py written from the documents; Python\'s expat as the independent XML parser', 'BrickColor values are rendered as <int> in the reader direction'],
    'run': _c05,
    'claim': 'held on N documents per direction: rbx_xml output is well-formed, structurally conformant and means the DOM written; foreign conformant documents decode to the DOM they describe',
    'note': 'trusted: refxml.py (35 recorded spec ambiguities), expat; the C02 generator for writer-direction reach',
    'technique': 'independent XML parser + spec value codec over recorded outputs, and independent generator -> real reader differential monitor',
}
