"""Build, sharded execution, merging, known-findings matching, evidence writing."""
import concurrent.futures as cf
import fcntl, hashlib, json, os, re, shutil, subprocess, sys, time

VERIF = os.path.dirname(os.path.dirname(os.path.dirname(os.path.abspath(__file__))))
REPO = os.environ.get('VERIF_REPO', '/repo')
NCPU = int(os.environ.get('VERIF_JOBS', str(os.cpu_count() or 8)))
GUARD = '--cfg rbx_dom_verif'


def harness_dir():
    """The harness crate is built in place for /repo; for any other VERIF_REPO (self-validation
    on scratch copies) a private copy of the crate is used so builds do not clobber each other."""
    if REPO == '/repo':
        return os.path.join(VERIF, 'harness')
    h = hashlib.sha1(REPO.encode()).hexdigest()[:10]
    d = os.path.join(os.environ.get('VERIF_SCRATCH', '/tmp'), f'vh-{h}')
    os.makedirs(d, exist_ok=True)
    src = os.path.join(VERIF, 'harness')
    for name in ('src', '.cargo', 'Cargo.toml.in'):
        s, t = os.path.join(src, name), os.path.join(d, name)
        if os.path.isdir(s):
            if os.path.exists(t):
                shutil.rmtree(t)
            shutil.copytree(s, t)
        else:
            shutil.copy2(s, t)
    return d


_HDIR = None


def hdir():
    global _HDIR
    if _HDIR is None:
        _HDIR = harness_dir()
    return _HDIR


def cargo_env(extra_rustflags=''):
    env = dict(os.environ)
    env['CARGO_NET_OFFLINE'] = 'true'
    env['RUSTFLAGS'] = (GUARD + ' ' + extra_rustflags).strip()
    env.pop('RUST_LOG', None)
    return env


def build(profile='release', verbose=False):
    d = hdir()
    with open(os.path.join(d, '.build.lock'), 'w') as lk:
        fcntl.flock(lk, fcntl.LOCK_EX)
        tmpl = open(os.path.join(d, 'Cargo.toml.in')).read().replace('@REPO@', REPO)
        ct = os.path.join(d, 'Cargo.toml')
        if not os.path.exists(ct) or open(ct).read() != tmpl:
            open(ct, 'w').write(tmpl)
        lock = os.path.join(d, 'Cargo.lock')
        if not os.path.exists(lock):
            shutil.copy2(os.path.join(REPO, 'Cargo.lock'), lock)
        cmd = ['cargo', 'build', '--profile', profile] if profile != 'release' else ['cargo', 'build', '--release']
        t0 = time.time()
        p = subprocess.run(cmd, cwd=d, env=cargo_env(), stdout=subprocess.PIPE, stderr=subprocess.STDOUT, text=True)
        if p.returncode != 0:
            sys.stdout.write(p.stdout[-6000:])
            return False
        if verbose:
            print(f'built harness ({profile}) in {time.time() - t0:.1f}s')
        return True


def vh(profile='release'):
    return os.path.join(hdir(), 'target', profile, 'vh')


def run_vh(args, out_path, profile='release', timeout=3600, env_extra=None, stdin=None):
    """Run one harness process; returns (returncode, summary-or-None, stderr-tail)."""
    env = dict(os.environ)
    if env_extra:
        env.update(env_extra)
    cmd = [vh(profile)] + [str(a) for a in args] + ['--out', out_path]
    try:
        p = subprocess.run(cmd, env=env, stdout=subprocess.PIPE, stderr=subprocess.PIPE, timeout=timeout, input=stdin)
    except subprocess.TimeoutExpired:
        return (-999, None, 'watchdog timeout')
    summ = None
    if p.returncode == 0 and os.path.exists(out_path):
        try:
            summ = json.load(open(out_path))
        except Exception as e:  # noqa
            summ = None
    return (p.returncode, summ, p.stderr.decode('utf-8', 'replace')[-2000:])


def run_sharded(cmd, base_args, nshards, rundir, profile='release', timeout=3600, per_shard_args=None, env_extra=None):
    """Run `vh cmd` in nshards processes (--shard i --nshards n); returns list of (rc, summary, err)."""
    os.makedirs(rundir, exist_ok=True)
    jobs = []
    with cf.ThreadPoolExecutor(max_workers=min(NCPU, nshards)) as ex:
        for i in range(nshards):
            a = [cmd] + list(base_args) + ['--shard', i, '--nshards', nshards]
            if i % 4 == 3 and '--trace-log' not in a:
                # every fourth shard runs with a logger that accepts and formats trace records (see report.rs)
                a += ['--trace-log', 1]
            if per_shard_args:
                a += per_shard_args(i)
            out = os.path.join(rundir, f'{cmd}-shard{i}.json')
            jobs.append(ex.submit(run_vh, a, out, profile, timeout, env_extra))
        return [j.result() for j in jobs]


class Merged:
    def __init__(self, pid):
        self.pid = pid
        self.evaluations = 0
        self.digests = set()
        self.coverage = {}
        self.samples = []
        self.violations = {}  # sig -> dict(count, what, replay, detail)
        self.notes = []
        self.extra = {}
        self.inconclusive = []

    def add_summary(self, s):
        self.evaluations += s.get('evaluations', 0)
        self.digests.update(s.get('digests', []))
        for k, v in s.get('coverage', {}).items():
            self.coverage[k] = self.coverage.get(k, 0) + v
        for x in s.get('samples', []):
            if len(self.samples) < 4:
                self.samples.append(x)
        for v in s.get('violations', []):
            self.add_violation(v['sig'], v['what'], v.get('replay'), v.get('detail'), v.get('count', 1))
        self.notes += s.get('notes', [])
        for k, v in s.get('extra', {}).items():
            self.extra.setdefault(k, v)

    def add_violation(self, sig, what, replay=None, detail=None, count=1):
        if sig in self.violations:
            self.violations[sig]['count'] += count
        else:
            self.violations[sig] = {'sig': sig, 'what': what, 'replay': replay, 'detail': detail, 'count': count}

    def add_results(self, results, what):
        for rc, summ, err in results:
            if summ is None:
                # A panic that escaped every guard of the harness and whose LOCATION (printed by the harness's panic hook)
                # lies in the code under test is an observation about that code: an operation panicked. Anything else
                # that kills a harness process stays inconclusive.
                m = re.search(r'/(rbx_[a-z_]+/src/[A-Za-z0-9_/]+\.rs):\d+(?: \[([A-Za-z0-9_:<>]+)\])?', err[-600:])
                if rc == 101 and m:
                    sig = f'{self.pid}:panic-killed-harness:{m.group(1)}' + (f':{m.group(2)}' if m.group(2) else '')
                    self.add_violation(sig, f'{what}: a panic in the code under test ended the harness process: {err[-400:]}', {'what': what}, None, 1)
                else:
                    self.inconclusive.append(f'{what}: harness process exited {rc}: {err[-400:]}')
            else:
                self.add_summary(summ)


def load_known_findings():
    kf = {}
    p = os.path.join(VERIF, 'known_findings.jsonl')
    if os.path.exists(p):
        for line in open(p):
            line = line.strip()
            if not line or line.startswith('#') or line.startswith('fixed:'):
                continue
            r = json.loads(line)
            if r.get('status', 'open') == 'open':
                kf[r['signature']] = r
    return kf


def finish(pid, tier, seed, merged, plan, t0, rundir):
    """Apply known findings, write evidence, print verdict lines, return exit code."""
    kf = load_known_findings()
    unlisted, listed = [], []
    for sig, v in sorted(merged.violations.items()):
        (listed if sig in kf and kf[sig]['property'] == pid else unlisted).append(v)
    floor = plan.get('floor', {}).get(tier, 1)
    if merged.evaluations < floor:
        merged.inconclusive.append(f'monitors observed {merged.evaluations} evaluations, floor for tier {tier} is {floor}')
    coverage = {
        'evaluations': merged.evaluations,
        'distinct_nontrivial': len(merged.digests),
        'rule': plan['rule'],
        'samples': merged.samples[:4] if merged.samples else [{'note': 'no sample recorded'}],
        'observed': dict(sorted(merged.coverage.items())),
    }
    if plan.get('exhaustive', {}).get(tier):
        coverage['exhaustive'] = True
    coverage.update(merged.extra)
    if merged.notes:
        coverage['notes'] = merged.notes[:20]
    coverage['known_findings_seen'] = [{'signature': v['sig'], 'count': v['count']} for v in listed]
    ev = {
        'property_id': pid,
        'tier': tier,
        'seed': seed,
        'level': plan['level'],
        'coverage': coverage,
        'assumptions': plan.get('assumptions', []),
        'wall_s': round(time.time() - t0, 2),
        'violations': len(unlisted),
    }
    if merged.inconclusive:
        ev['coverage']['inconclusive'] = merged.inconclusive[:10]
    os.makedirs(os.path.join(VERIF, 'evidence'), exist_ok=True)
    if REPO == '/repo':
        with open(os.path.join(VERIF, 'evidence', f'{pid}.json'), 'w') as f:
            json.dump(ev, f, indent=1, ensure_ascii=False)
    else:
        with open(os.path.join(rundir, f'evidence-{pid}.json'), 'w') as f:
            json.dump(ev, f, indent=1, ensure_ascii=False)
    print(f'{pid} tier={tier} seed={seed}: {merged.evaluations} evaluations, {len(merged.digests)} distinct non-trivial, '
          f'{len(unlisted)} violation signature(s), {len(listed)} known finding(s), {ev["wall_s"]}s')
    for v in listed:
        print(f'KNOWN-FINDING: property={pid} {kf[v["sig"]]["what"]} [signature={v["sig"]} seen={v["count"]}]')
    rc = 0
    for n, v in enumerate(unlisted):
        if n >= 8:
            print(f'  ... and {len(unlisted) - 8} more violation signature(s), see {rundir}')
            break
        path = os.path.join(rundir, f'violation-{n}.json')
        with open(path, 'w') as f:
            json.dump({'property': pid, 'tier': tier, 'seed': seed, **v}, f, indent=1, ensure_ascii=False)
        print(f'  violation: {v["sig"]} x{v["count"]}: {v["what"][:400]}')
        print(f'VIOLATION property={pid} replay={path}')
        rc = 1
    if rc == 0 and merged.inconclusive:
        for r in merged.inconclusive[:5]:
            print(f'INCONCLUSIVE property={pid} reason={r}')
        return 2
    return rc


def run_check(pid, tier, seed, extra):
    from driver import plans
    t0 = time.time()
    if pid not in plans.PLANS:
        print(f'INCONCLUSIVE property={pid} reason=no check registered')
        return 2
    plan = plans.PLANS[pid]
    suffix = '' if REPO == '/repo' else '-' + hashlib.sha1(REPO.encode()).hexdigest()[:8]
    rundir = os.path.join(VERIF, 'runs', f'{pid}-{tier}-{seed}{suffix}')
    if os.path.exists(rundir):
        shutil.rmtree(rundir)
    os.makedirs(rundir)
    if not build():
        print(f'INCONCLUSIVE property={pid} reason=harness build failed against {REPO}')
        return 2
    for prof in plan.get('profiles', {}).get(tier, []):
        if not build(prof):
            print(f'INCONCLUSIVE property={pid} reason=harness build ({prof}) failed')
            return 2
    merged = Merged(pid)
    try:
        plan['run'](merged, tier, seed, rundir, extra)
    except Exception as e:  # a driver bug is never a violation
        import traceback
        traceback.print_exc()
        merged.inconclusive.append(f'driver error: {e!r}')
    return finish(pid, tier, seed, merged, plan, t0, rundir)


def replay(path):
    v = json.load(open(path))
    rp = v.get('replay') or {}
    if not build():
        print('INCONCLUSIVE reason=build failed')
        return 2
    print(f'replaying {v["property"]} {v["sig"]}: {v["what"][:300]}')
    if 'cmd' in rp:
        args = [rp['cmd']]
        for k, val in rp.items():
            if k != 'cmd':
                args += [f'--{k}', str(val)]
        out = path + '.replay-out.json'
        rc, summ, err = run_vh(args + ['--verbose', '1'], out)
        sys.stdout.write(err)
        if summ:
            for x in summ.get('violations', []):
                print('reproduced:', x['sig'], '-', x['what'][:800])
            return 1 if summ.get('violations') else 0
        return 2
    print(json.dumps(v.get('detail'), indent=1)[:4000])
    return 0


def run_miri(vh_args, out_path, miriflags='', timeout=3000):
    """Run one harness workload under the Miri interpreter (nightly toolchain, offline).
    Returns (status, summary, report_text): status in ok | ub | inconclusive."""
    d = hdir()
    env = cargo_env()
    env['MIRIFLAGS'] = ('-Zmiri-disable-isolation ' + miriflags).strip()
    env['CARGO_TARGET_DIR'] = os.path.join(d, 'target-miri')
    cmd = ['cargo', '+nightly', 'miri', 'run', '-q', '--'] + [str(a) for a in vh_args] + ['--out', out_path]
    try:
        p = subprocess.run(cmd, cwd=d, env=env, stdout=subprocess.PIPE, stderr=subprocess.PIPE, timeout=timeout)
    except subprocess.TimeoutExpired:
        return ('inconclusive', None, 'miri watchdog timeout')
    err = p.stderr.decode('utf-8', 'replace')
    summ = None
    if os.path.exists(out_path):
        try:
            summ = json.load(open(out_path))
        except Exception:
            summ = None
    if 'Undefined Behavior' in err or 'Data race detected' in err or 'error: unsupported operation' in err and 'can\'t call foreign function' not in err:
        lines = [l for l in err.splitlines() if l.startswith('error')]
        return ('ub', summ, (lines[0] if lines else err[-400:]) + '\n' + err[-1500:])
    if p.returncode != 0 or summ is None:
        return ('inconclusive', summ, err[-600:])
    return ('ok', summ, '')


def miri_leg(m, pid, what, seeds, miriflags=''):
    """Run `vh miri --what <what>` for each seed in parallel; keep violations that belong to `pid`."""
    rundir = os.path.join(VERIF, 'runs', f'miri-{pid}-{what}')
    os.makedirs(rundir, exist_ok=True)
    # build once so the parallel runs do not all compile
    st, _, rep = run_miri(['miri', '--what', 'none'], os.path.join(rundir, 'warmup.json'))
    if st == 'inconclusive':
        m.inconclusive.append(f'miri leg could not build/run: {rep[-300:]}')
        return
    with cf.ThreadPoolExecutor(max_workers=min(NCPU, len(seeds))) as ex:
        futs = {s: ex.submit(run_miri, ['miri', '--what', what, '--seed', s], os.path.join(rundir, f'{what}-{s}.json'), miriflags) for s in seeds}
        for s, f in futs.items():
            st, summ, rep = f.result()
            m.coverage[f'miri.{what}.executions'] = m.coverage.get(f'miri.{what}.executions', 0) + 1
            if st == 'ub':
                first = rep.splitlines()[0][:120]
                m.add_violation(f'{pid}:miri:{what}:{first}', f'Miri reported: {rep[:1200]}', {'cmd': 'miri', 'what': what, 'seed': s, 'miriflags': miriflags}, None)
            elif st == 'inconclusive':
                m.inconclusive.append(f'miri {what} seed {s}: {rep[-300:]}')
            elif summ:
                for k, v in summ.get('coverage', {}).items():
                    m.coverage[k] = m.coverage.get(k, 0) + v
                m.evaluations += summ.get('evaluations', 0)
                for v in summ.get('violations', []):
                    if v['sig'].startswith(pid + ':'):
                        m.add_violation(v['sig'], v['what'] + ' (under Miri)', v.get('replay'), None, v.get('count', 1))
    m.coverage[f'miri.{what}.reports'] = sum(1 for k in m.violations if ':miri:' in k)


TSAN_TARGET = 'x86_64-unknown-linux-gnu'


def build_tsan():
    """Build the harness with ThreadSanitizer (nightly, -Zbuild-std so std itself is instrumented). Returns the binary path or None."""
    d = hdir()
    build()  # makes sure Cargo.toml / Cargo.lock exist for this repo
    env = cargo_env('-Zsanitizer=thread')
    env['CARGO_TARGET_DIR'] = os.path.join(d, 'target-tsan')
    with open(os.path.join(d, '.build-tsan.lock'), 'w') as lk:
        fcntl.flock(lk, fcntl.LOCK_EX)
        p = subprocess.run(['cargo', '+nightly', 'build', '--release', '-q', '-Zbuild-std', '--target', TSAN_TARGET], cwd=d, env=env,
                           stdout=subprocess.PIPE, stderr=subprocess.PIPE)
    b = os.path.join(d, 'target-tsan', TSAN_TARGET, 'release', 'vh')
    if p.returncode != 0 or not os.path.exists(b):
        return None, p.stderr.decode('utf-8', 'replace')[-400:]
    return b, ''


def _tsan_run(binary, vh_args, out, timeout=1800):
    env = dict(os.environ)
    env['TSAN_OPTIONS'] = 'halt_on_error=0 exitcode=66 second_deadlock_stack=1'
    try:
        p = subprocess.run([binary] + [str(a) for a in vh_args] + ['--out', out], env=env, stdout=subprocess.PIPE, stderr=subprocess.PIPE, timeout=timeout)
    except subprocess.TimeoutExpired:
        return None, '', 'watchdog timeout'
    return p.returncode, p.stderr.decode('utf-8', 'replace'), ''


def _tsan_reports(err):
    """Split ThreadSanitizer output into report blocks; key each by kind + first frame inside the repository (line numbers stripped)."""
    import re
    blocks = [b for b in err.split('==================') if 'WARNING: ThreadSanitizer' in b]
    out = {}
    for b in blocks:
        kind = re.search(r'WARNING: ThreadSanitizer: ([^(\n]+)', b)
        kind = kind.group(1).strip() if kind else '?'
        frame = '?'
        for l in b.splitlines():
            mm = re.search(r'#\d+ (\S+) (\S+?):\d+', l)
            if mm and ('/rbx_' in mm.group(2) or '/harness/src/' in mm.group(2)):
                frame = mm.group(1)[:80] + '@' + re.sub(r'^.*/(rbx_[^/]+/.*|harness/src/.*)$', r'\1', mm.group(2))
                break
        out.setdefault(f'{kind}:{frame}', b[:1500])
    return len(blocks), out


def tsan_leg(m, pid, workloads, rundir):
    """Thorough-tier ThreadSanitizer leg: build once, prove the detector sees a planted race, then run the given
    harness workloads (list of (label, vh_args)) under it. Every report block is a violation of `pid`."""
    os.makedirs(rundir, exist_ok=True)
    binary, why = build_tsan()
    if not binary:
        m.inconclusive.append(f'ThreadSanitizer build failed: {why}')
        return
    rc, err, why = _tsan_run(binary, ['tsan', '--what', 'selftest'], os.path.join(rundir, 'tsan-selftest.json'))
    n, _ = _tsan_reports(err)
    m.coverage['tsan.selftest.planted_race_reported'] = 1 if n > 0 else 0
    if n == 0:
        m.inconclusive.append(f'ThreadSanitizer did not report the planted race of the self-test (rc={rc} {why}): its silence would prove nothing')
        return
    for label, vh_args in workloads:
        out = os.path.join(rundir, f'tsan-{label}.json')
        rc, err, why = _tsan_run(binary, vh_args, out)
        if rc is None:
            m.inconclusive.append(f'tsan leg {label}: {why}')
            continue
        n, reps = _tsan_reports(err)
        m.coverage[f'tsan.{label}.runs'] = m.coverage.get(f'tsan.{label}.runs', 0) + 1
        m.coverage[f'tsan.{label}.report_blocks'] = m.coverage.get(f'tsan.{label}.report_blocks', 0) + n
        for key, text in reps.items():
            m.add_violation(f'{pid}:tsan:{key}', f'ThreadSanitizer reported: {text}', {'cmd': vh_args[0], 'args': [str(a) for a in vh_args[1:]], 'tool': 'tsan'}, None)
        if rc not in (0, 66) or not os.path.exists(out):
            m.inconclusive.append(f'tsan leg {label} exited {rc}: {err[-300:]}')
            continue
        summ = json.load(open(out))
        m.evaluations += summ.get('evaluations', 0)
        for k, v in summ.get('coverage', {}).items():
            m.coverage[k] = m.coverage.get(k, 0) + v
        for v in summ.get('violations', []):
            if v['sig'].startswith(pid + ':'):
                m.add_violation(v['sig'], v['what'] + ' (under ThreadSanitizer)', v.get('replay'), None, v.get('count', 1))


def valgrind_leg(m, pid, vh_args, rundir, label, env_extra=None, wrap_supervisor=True, timeout=3000):
    """Run one harness command under valgrind memcheck (instruments the vendored lz4 / zstd C code too)."""
    os.makedirs(rundir, exist_ok=True)
    out = os.path.join(rundir, f'valgrind-{label}.json')
    env = dict(os.environ)
    if env_extra:
        env.update(env_extra)
    cmd = (['valgrind', '-q', '--error-exitcode=99'] if wrap_supervisor else []) + [vh()] + [str(a) for a in vh_args] + ['--out', out]
    try:
        p = subprocess.run(cmd, env=env, stdout=subprocess.PIPE, stderr=subprocess.PIPE, timeout=timeout)
    except subprocess.TimeoutExpired:
        m.inconclusive.append(f'valgrind leg {label}: watchdog timeout')
        return
    err = p.stderr.decode('utf-8', 'replace')
    m.coverage[f'valgrind.{label}.runs'] = m.coverage.get(f'valgrind.{label}.runs', 0) + 1
    if p.returncode == 99 or 'Invalid read' in err or 'Invalid write' in err or 'uninitialised' in err:
        lines = [l for l in err.splitlines() if 'Invalid' in l or 'uninitialised' in l]
        first = (lines[0].split('== ')[-1] if lines else 'exit 99')[:100]
        m.add_violation(f'{pid}:valgrind:{first}', f'memcheck reported: {err[:1500]}', {'cmd': vh_args[0], 'args': [str(a) for a in vh_args[1:]], 'tool': 'valgrind'}, None)
        return
    if p.returncode != 0 or not os.path.exists(out):
        m.inconclusive.append(f'valgrind leg {label} exited {p.returncode}: {err[-300:]}')
        return
    summ = json.load(open(out))
    m.coverage[f'valgrind.{label}.executions'] = m.coverage.get(f'valgrind.{label}.executions', 0) + summ.get('evaluations', 0)
    for v in summ.get('violations', []):
        if v['sig'].startswith(pid + ':'):
            m.add_violation(v['sig'], v['what'] + ' (under valgrind)', v.get('replay'), None, v.get('count', 1))
