"""C14 monitor: (b) the independent blob decoder (refattr.py, from docs/attributes.md) reads what
Attributes::to_writer wrote and finds the source map; (c) blobs built by the independent encoder
for `vh c14read`; (d) the same blob is what the binary and the XML file store."""
import hashlib, json, os, random, sys
import sys as _sys
_sys.setrecursionlimit(20000)  # trees of the size scenarios are hundreds of levels deep

sys.path.insert(0, os.path.dirname(os.path.dirname(os.path.abspath(__file__))))
import refattr, refbin, refxml  # noqa: E402
from monitors.c03 import attrs_equiv, BASE_VARIANT  # noqa: E402


def for_encoder(a):
    out = {}
    for k, v in a.items():
        if v['t'] == 'BinaryString':
            out[k] = {'t': 'String', 'v': v['v']}
        elif v['t'] == 'String':
            out[k] = {'t': 'String', 'v': v['v'].encode('utf-8').hex()}
        else:
            out[k] = v
    return out


def run(args):
    caselog, foreign_path, seed = args
    stats, viol, digests, samples = {}, {}, set(), []
    n = 0

    def bad(sig, what, rec):
        v = viol.setdefault(sig, {'sig': sig, 'what': what, 'count': 0, 'replay': {'cmd': 'c14', 'seed': rec['seed'], 'index': rec['index']}, 'detail': None})
        v['count'] += 1

    with open(foreign_path, 'w') as fout:
        for line in open(caselog):
            rec = json.loads(line)
            if rec.get('kind') != 'attrs':
                continue
            n += 1
            blob = bytes.fromhex(rec['blob_hex'])
            if len(rec['expected']) >= 2:
                digests.add(hashlib.sha1(blob).hexdigest()[:16])
            if len(samples) < 2:
                samples.append({'index': rec['index'], 'blob_bytes': len(blob), 'entries': len(rec['expected'])})
            # (b) independent decode
            try:
                got, facts = refattr.decode_ex(blob)
                stats['ref_decoded'] = stats.get('ref_decoded', 0) + 1
                for rid in facts.get('cframe_ids', []) if isinstance(facts.get('cframe_ids'), list) else []:
                    stats[f'cframe_id.{rid:02x}' if isinstance(rid, int) else f'cframe_id.{rid}'] = stats.get(f'cframe_id.{rid:02x}' if isinstance(rid, int) else f'cframe_id.{rid}', 0) + 1
                if not attrs_equiv(rec['expected'], got):
                    diffs = [k for k in rec['expected'] if k not in got or not attrs_equiv({k: rec['expected'][k]}, {k: got[k]})]
                    k = diffs[0] if diffs else '?'
                    t = rec['expected'].get(k, {}).get('t', '?')
                    bad(f'C14:layout:{t}', f'independent decoder (docs/attributes.md) reads attribute {k!r} as {json.dumps(got.get(k))[:200]}, written value {json.dumps(rec["expected"].get(k))[:200]}', rec)
                if facts.get('order') is not None and facts['order'] != sorted(facts['order'], key=lambda s: s.encode('utf-8')) and False:
                    pass
            except refattr.RefError as e:
                msg = ''.join(c for c in str(e)[:60] if not c.isdigit())
                bad(f'C14:layout-rejected:{msg}', f'independent decoder rejects the blob: {e}', rec)
            # (c) independent encode
            rng = random.Random(f'{seed}-{rec["index"]}')
            opts = {'cframe_long_form': rng.random() < 0.5, 'bool_truthy': rng.random() < 0.5}
            try:
                fb = refattr.encode(for_encoder(rec['expected']), rng, opts)
                tags = [k for k, v in opts.items() if v]
                fout.write(json.dumps({'id': rec['index'], 'blob_hex': fb.hex(), 'expected': rec['expected'], 'tags': tags}) + '\n')
            except refattr.RefError:
                stats['ref_encode_skipped'] = stats.get('ref_encode_skipped', 0) + 1
            # (d) both file formats store exactly this blob
            if rec.get('bin_hex'):
                try:
                    m = refbin.decode(bytes.fromhex(rec['bin_hex']), variant=BASE_VARIANT)
                    vals = [c['body']['values'] for c in m['chunks'] if c['name'] == 'PROP' and c['body']['name'] == 'AttributesSerialize']
                    names = [c['body']['values'] for c in m['chunks'] if c['name'] == 'PROP' and c['body']['name'] == 'Name']
                    want = rec['file_blobs']
                    if not vals or not names or len(vals[0]) != len(names[0]) or len(vals[0]) != len(want):
                        bad('C14:file-blob:binary', 'the binary file does not store one Attributes blob per instance', rec)
                    else:
                        for nm, v in zip(names[0], vals[0]):
                            nm = bytes.fromhex(nm['v']).decode()
                            if want.get(nm) != v['v']:
                                bad('C14:file-blob:binary', f'the binary file does not store the to_writer blob for the Attributes property of instance {nm!r} '
                                    f'({len(v["v"]) // 2} bytes stored, {len(want.get(nm, "")) // 2} expected)', rec)
                    stats['file_blob.binary'] = stats.get('file_blob.binary', 0) + 1
                except refbin.RefError as e:
                    bad('C14:file-blob:binary-undecodable', f'{e}', rec)
            if rec.get('xml_text'):
                try:
                    d = refxml.decode(rec['xml_text'])
                    want = rec['file_blobs']
                    if len(d['roots']) != len(want):
                        bad('C14:file-blob:xml', 'the XML file does not hold the three instances written', rec)
                    for inst in d['roots']:
                        nm = inst.get('name')
                        p = inst['props'].get('AttributesSerialize')
                        w = want.get(nm)
                        if w == '' and p is None:
                            continue
                        if not p or p['t'] != 'BinaryString' or p['v'] != w:
                            bad('C14:file-blob:xml', f'the XML file does not store the to_writer blob for the Attributes property of {nm!r}: {json.dumps(p)[:200]}', rec)
                    stats['file_blob.xml'] = stats.get('file_blob.xml', 0) + 1
                except refxml.RefError as e:
                    bad('C14:file-blob:xml-undecodable', f'{e}', rec)
    return {'prop': 'C14', 'evaluations': n, 'digests': sorted(digests), 'coverage': stats, 'samples': samples,
            'violations': list(viol.values()), 'notes': [], 'extra': {}}
