"""C13: structure-aware hostile corpus for the binary reader, written with the independent
encoder's primitives: files that are well-framed but semantically wrong in exactly one place
(unknown parent, duplicate PRNT child, parent cycle, PROP for an undeclared class, fewer URIs than
Uri source types, SharedString index out of range, rotation id not in the table, ...).
Every one must produce Ok or Err from rbx_binary::from_reader, never a panic / abort."""
import json, os, random, struct, sys
import sys as _sys
_sys.setrecursionlimit(20000)  # trees of the size scenarios are hundreds of levels deep

sys.path.insert(0, os.path.dirname(os.path.dirname(os.path.abspath(__file__))))
import refbin  # noqa: E402
from refbin import _enc_i32, _enc_refs, _enc_u32be, _enc_f32, _pstr  # noqa: E402

HEADER = b'<roblox!\x89\xff\x0d\x0a\x1a\x0a\x00\x00'


def chunk(name, payload, comp=None, rng=None):
    comp = comp or (rng.choice(['none', 'lz4', 'zstd']) if rng else 'none')
    if comp == 'none' or not payload:
        return name + struct.pack('<III', 0, len(payload), 0) + payload
    data = refbin._compress(comp, payload)
    return name + struct.pack('<III', len(data), len(payload), 0) + data


def u32(x):
    return struct.pack('<I', x & 0xffffffff)


def inst(cid, cname, refs, fmt=0):
    p = u32(cid) + _pstr(cname.encode()) + bytes([fmt]) + u32(len(refs)) + _enc_refs(refs)
    if fmt == 1:
        p += b'\x01' * len(refs)
    return p


def prop(cid, name, tid, payload):
    return u32(cid) + _pstr(name.encode()) + bytes([tid]) + payload


def prnt(children, parents, version=0, count=None):
    return bytes([version]) + u32(len(children) if count is None else count) + _enc_refs(children) + _enc_refs(parents)


END = b'END\0' + struct.pack('<III', 0, 9, 0) + b'</roblox>'


def assemble(nclasses, ninst, chunks):
    return HEADER + u32(nclasses) + u32(ninst) + b'\0' * 8 + b''.join(chunks) + END


def names(cid, n):
    return prop(cid, 'Name', 0x01, b''.join(_pstr(b'n%d' % i) for i in range(n)))


def content_payload(source_types, uris, objs, ext=0, declared_uris=None, declared_objs=None):
    p = _enc_i32(source_types)
    p += u32(len(uris) if declared_uris is None else declared_uris) + b''.join(_pstr(u) for u in uris)
    p += u32(len(objs) if declared_objs is None else declared_objs) + _enc_refs(objs)
    p += u32(ext)
    return p


def corpus(rng):
    """yields (label, bytes)"""
    c = lambda n, p: chunk(n, p, rng=rng)  # noqa: E731
    base_inst = inst(0, 'Folder', [0, 1, 2])
    good_prnt = prnt([0, 1, 2], [-1, 0, 0])

    def f(label, chunks, ncl=1, ninst=3):
        return (label, assemble(ncl, ninst, [c(b'INST', base_inst)] + chunks))

    yield f('baseline-valid', [c(b'PROP', names(0, 3)), c(b'PRNT', good_prnt)])
    # --- PRNT
    yield f('prnt-unknown-parent', [c(b'PRNT', prnt([0, 1, 2], [-1, 7, 0]))])
    yield f('prnt-unknown-child', [c(b'PRNT', prnt([0, 1, 9], [-1, 0, 0]))])
    yield f('prnt-duplicate-child', [c(b'PRNT', prnt([0, 1, 1], [-1, 0, 0]))])
    yield f('prnt-cycle', [c(b'PRNT', prnt([0, 1, 2], [1, 0, -1]))])
    yield f('prnt-self-parent', [c(b'PRNT', prnt([0, 1, 2], [0, -1, -1]))])
    yield f('prnt-version-1', [c(b'PRNT', prnt([0, 1, 2], [-1, 0, 0], version=1))])
    yield f('prnt-count-huge', [c(b'PRNT', prnt([0, 1, 2], [-1, 0, 0], count=0xffffffff))])
    yield f('prnt-count-short', [c(b'PRNT', prnt([0, 1, 2], [-1, 0, 0], count=2))])
    yield f('prnt-twice', [c(b'PRNT', good_prnt), c(b'PRNT', good_prnt)])
    yield f('prnt-missing', [])
    yield f('prnt-negative-child', [c(b'PRNT', prnt([-5, 1, 2], [-1, 0, 0]))])
    # raw deltas whose running sum leaves the i32 range
    yield f('prnt-referent-delta-overflow', [c(b'PRNT', b'\0' + u32(3) + _enc_i32([2147483647, 2147483647, 5]) + _enc_refs([-1, 0, 0]))])
    yield f('inst-referent-delta-overflow', [c(b'INST', u32(1) + _pstr(b'Part') + b'\0' + u32(3) + _enc_i32([2147483647, 1, 1])), c(b'PRNT', good_prnt)], ncl=2, ninst=6)
    # --- INST
    yield ('inst-duplicate-class-id', assemble(2, 6, [c(b'INST', base_inst), c(b'INST', inst(0, 'Part', [3, 4, 5])), c(b'PRNT', prnt([0, 1, 2, 3, 4, 5], [-1] * 6))]))
    yield ('inst-same-referent-twice', assemble(2, 6, [c(b'INST', base_inst), c(b'INST', inst(1, 'Part', [0, 1, 2])), c(b'PRNT', prnt([0, 1, 2], [-1] * 3))]))
    yield ('inst-count-huge', assemble(1, 3, [c(b'INST', u32(0) + _pstr(b'Folder') + b'\0' + u32(0x7fffffff) + _enc_refs([0, 1, 2])), c(b'PRNT', good_prnt)]))
    yield ('inst-name-not-utf8', assemble(1, 3, [c(b'INST', u32(0) + _pstr(b'\xff\xfe') + b'\0' + u32(3) + _enc_refs([0, 1, 2])), c(b'PRNT', good_prnt)]))
    yield ('inst-format-7', assemble(1, 3, [c(b'INST', inst(0, 'Workspace', [0, 1, 2], fmt=1).replace(b'\x01\x03', b'\x07\x03', 1)), c(b'PRNT', good_prnt)]))
    yield ('header-counts-zero', HEADER + u32(0) + u32(0) + b'\0' * 8 + c(b'INST', base_inst) + c(b'PRNT', good_prnt) + END)
    yield ('header-counts-huge', HEADER + u32(0xffffffff) + u32(0xffffffff) + b'\0' * 8 + c(b'INST', base_inst) + c(b'PRNT', good_prnt) + END)
    # --- PROP framing
    yield f('prop-undeclared-class', [c(b'PROP', names(5, 3)), c(b'PRNT', good_prnt)])
    yield f('prop-before-inst', [c(b'PRNT', good_prnt)], ncl=1)
    yield ('prop-precedes-its-inst', assemble(1, 3, [c(b'PROP', names(0, 3)), c(b'INST', base_inst), c(b'PRNT', good_prnt)]))
    yield f('prop-short-values', [c(b'PROP', prop(0, 'Zz', 0x03, _enc_i32([1, 2]))), c(b'PRNT', good_prnt)])
    yield f('prop-no-type', [c(b'PROP', u32(0) + _pstr(b'Zz')), c(b'PRNT', good_prnt)])
    yield f('prop-unknown-type', [c(b'PROP', prop(0, 'Zz', 0x7f, b'abc')), c(b'PRNT', good_prnt)])
    yield f('prop-name-not-utf8', [c(b'PROP', u32(0) + _pstr(b'\xc3\x28') + b'\x02\0\0\0'), c(b'PRNT', good_prnt)])
    yield f('prop-empty-payload', [c(b'PROP', b''), c(b'PRNT', good_prnt)])
    yield f('name-not-utf8', [c(b'PROP', prop(0, 'Name', 0x01, _pstr(b'\xff') * 3)), c(b'PRNT', good_prnt)])
    yield f('name-wrong-type', [c(b'PROP', prop(0, 'Name', 0x02, b'\x01\x00\x01')), c(b'PRNT', good_prnt)])
    yield f('string-length-huge', [c(b'PROP', prop(0, 'Zz', 0x01, u32(0xfffffff0) + b'abc')), c(b'PRNT', good_prnt)])
    # --- value types
    yield f('content-fewer-uris', [c(b'PROP', prop(0, 'Zz', 0x22, content_payload([1, 1, 0], [b'a'], []))), c(b'PRNT', good_prnt)])
    yield f('content-fewer-objects', [c(b'PROP', prop(0, 'Zz', 0x22, content_payload([2, 2, 2], [], [0]))), c(b'PRNT', good_prnt)])
    yield f('content-bad-source-type', [c(b'PROP', prop(0, 'Zz', 0x22, content_payload([3, 0, -1], [], []))), c(b'PRNT', good_prnt)])
    yield f('content-declared-uris-huge', [c(b'PROP', prop(0, 'Zz', 0x22, content_payload([1, 0, 0], [b'a'], [], declared_uris=0xffffffff))), c(b'PRNT', good_prnt)])
    yield f('content-declared-objects-huge', [c(b'PROP', prop(0, 'Zz', 0x22, content_payload([2, 0, 0], [], [1], declared_objs=0x7fffffff))), c(b'PRNT', good_prnt)])
    yield f('content-no-external-count', [c(b'PROP', prop(0, 'Zz', 0x22, content_payload([0, 0, 0], [], [])[:-4])), c(b'PRNT', good_prnt)])
    yield f('content-external-huge', [c(b'PROP', prop(0, 'Zz', 0x22, content_payload([0, 0, 0], [], [], ext=0xffffffff))), c(b'PRNT', good_prnt)])
    yield f('content-object-unknown-referent', [c(b'PROP', prop(0, 'Zz', 0x22, content_payload([2, 0, 0], [], [77]))), c(b'PRNT', good_prnt)])
    yield f('sharedstring-index-out-of-range', [c(b'PROP', prop(0, 'Zz', 0x1c, _enc_u32be([0, 5, 0xffffffff]))), c(b'PRNT', good_prnt)])
    yield ('sstr-version-1', assemble(1, 3, [c(b'SSTR', u32(1) + u32(0)), c(b'INST', base_inst), c(b'PRNT', good_prnt)]))
    yield ('sstr-count-huge', assemble(1, 3, [c(b'SSTR', u32(0) + u32(0xffffffff)), c(b'INST', base_inst), c(b'PRNT', good_prnt)]))
    yield ('meta-count-huge', assemble(1, 3, [c(b'META', u32(0xffffffff)), c(b'INST', base_inst), c(b'PRNT', good_prnt)]))
    for rid in (0x01, 0x04, 0x24, 0xff):
        yield f(f'cframe-rotation-id-{rid:02x}', [c(b'PROP', prop(0, 'Zz', 0x10, bytes([rid, 0x02, 0x02]) + _enc_f32(['00000000'] * 3) * 3)), c(b'PRNT', good_prnt)])
    yield f('optionalcframe-bad-inner-type', [c(b'PROP', prop(0, 'Zz', 0x1e, bytes([0x11, 0x02, 0x02, 0x02]) + _enc_f32(['00000000'] * 3) * 3 + bytes([0x02, 1, 1, 1]))), c(b'PRNT', good_prnt)])
    yield f('optionalcframe-bad-bool-type', [c(b'PROP', prop(0, 'Zz', 0x1e, bytes([0x10, 0x02, 0x02, 0x02]) + _enc_f32(['00000000'] * 3) * 3 + bytes([0x03, 1, 1, 1]))), c(b'PRNT', good_prnt)])
    yield f('faces-ff', [c(b'PROP', prop(0, 'Zz', 0x09, b'\xff\x40\x3f')), c(b'PRNT', good_prnt)])
    yield f('axes-ff', [c(b'PROP', prop(0, 'Zz', 0x0a, b'\xff\x08\x07')), c(b'PRNT', good_prnt)])
    yield f('brickcolor-invalid', [c(b'PROP', prop(0, 'Zz', 0x0b, _enc_u32be([0, 999999, 0xffffffff]))), c(b'PRNT', good_prnt)])
    yield f('font-bad-weight-style', [c(b'PROP', prop(0, 'Zz', 0x20, (_pstr(b'f') + struct.pack('<HB', 123, 7) + _pstr(b'')) * 3)), c(b'PRNT', good_prnt)])
    yield f('font-not-utf8', [c(b'PROP', prop(0, 'Zz', 0x20, (_pstr(b'\xff') + struct.pack('<HB', 400, 0) + _pstr(b'\xfe')) * 3)), c(b'PRNT', good_prnt)])
    yield f('tags-not-utf8', [c(b'PROP', prop(0, 'Tags', 0x01, _pstr(b'\xff\x00\xfe') * 3)), c(b'PRNT', good_prnt)])
    yield f('attributes-garbage', [c(b'PROP', prop(0, 'AttributesSerialize', 0x01, _pstr(b'\x05\x00\x00\x00garbage') * 3)), c(b'PRNT', good_prnt)])
    yield f('attributes-count-huge', [c(b'PROP', prop(0, 'AttributesSerialize', 0x01, _pstr(u32(0xffffffff)) * 3)), c(b'PRNT', good_prnt)])
    yield f('numbersequence-count-huge', [c(b'PROP', prop(0, 'Zz', 0x15, u32(0xffffffff) + b'\0' * 12)), c(b'PRNT', good_prnt)])
    yield f('colorsequence-count-huge', [c(b'PROP', prop(0, 'Zz', 0x16, u32(0x7fffffff) + b'\0' * 20)), c(b'PRNT', good_prnt)])
    yield f('physicalproperties-flag-2', [c(b'PROP', prop(0, 'Zz', 0x19, b'\x02\x03\x04')), c(b'PRNT', good_prnt)])
    yield f('ref-unknown-target', [c(b'PROP', prop(0, 'Zz', 0x13, _enc_refs([55, -7, 2147483640]))), c(b'PRNT', good_prnt)])
    yield f('uniqueid-duplicates', [c(b'PROP', prop(0, 'UniqueId', 0x1f, refbin._interleave(b'\x01' * 48, 16))), c(b'PRNT', good_prnt)])
    # known property, wrong wire type
    yield f('known-prop-wrong-type', [c(b'PROP', prop(0, 'archivable', 0x03, _enc_i32([1, 2, 3]))), c(b'PRNT', good_prnt)])
    # --- framing
    yield ('no-end-chunk', (HEADER + u32(1) + u32(3) + b'\0' * 8 + c(b'INST', base_inst) + c(b'PRNT', good_prnt)))
    yield ('end-compressed', HEADER + u32(1) + u32(3) + b'\0' * 8 + c(b'INST', base_inst) + c(b'PRNT', good_prnt) + chunk(b'END\0', b'</roblox>' * 20, 'lz4'))
    yield ('data-after-end', assemble(1, 3, [c(b'INST', base_inst), c(b'PRNT', good_prnt)]) + b'trailing')
    yield ('lz4-claims-huge', HEADER + u32(1) + u32(3) + b'\0' * 8 + b'INST' + struct.pack('<III', 5, 0x7fffffff, 0) + b'\x10aaaa' + END)
    yield ('lz4-claims-negative', HEADER + u32(1) + u32(3) + b'\0' * 8 + b'INST' + struct.pack('<III', 5, 0xffffffff, 0) + b'\x10aaaa' + END)
    yield ('zstd-claims-huge', HEADER + u32(1) + u32(3) + b'\0' * 8 + b'INST' + struct.pack('<III', len(refbin._compress('zstd', base_inst)), 0xfffffff0, 0) + refbin._compress('zstd', base_inst) + END)
    yield ('zstd-bomb', HEADER + u32(1) + u32(3) + b'\0' * 8 + chunk(b'XXXX', b'\0' * (4 << 20), 'zstd') + c(b'INST', base_inst) + c(b'PRNT', good_prnt) + END)
    # two length fields that AGREE with each other and are both forged: the chunk header's uncompressed length and the
    # content-size field of a hand-made Zstandard frame (single segment, 4- or 8-byte content size, one raw block of 5 bytes)
    for label, forged in (('1gib', 1 << 30), ('3gib', 3 << 30), ('64mib', 1 << 26)):
        for chunk_name in (b'INST', b'PROP', b'ZzZz'):
            frame = b'\x28\xb5\x2f\xfd' + b'\xa0' + struct.pack('<I', forged) + struct.pack('<I', (5 << 3) | 1)[:3] + b'hello'
            yield ('zstd-frame-and-header-agree-on-forged-size-' + label, HEADER + u32(1) + u32(3) + b'\0' * 8 + chunk_name + struct.pack('<III', len(frame), forged, 0) + frame + c(b'INST', base_inst) + c(b'PRNT', good_prnt) + END)
    frame8 = b'\x28\xb5\x2f\xfd' + b'\xe0' + struct.pack('<Q', 0xfffffff0) + struct.pack('<I', (5 << 3) | 1)[:3] + b'hello'
    yield ('zstd-frame-and-header-agree-on-forged-size-8byte', HEADER + u32(1) + u32(3) + b'\0' * 8 + b'INST' + struct.pack('<III', len(frame8), 0xfffffff0, 0) + frame8 + c(b'PRNT', good_prnt) + END)
    yield ('zstd-truncated-frame', HEADER + u32(1) + u32(3) + b'\0' * 8 + b'INST' + struct.pack('<III', 6, len(base_inst), 0) + refbin._compress('zstd', base_inst)[:6] + END)
    yield ('compressed-len-gt-file', HEADER + u32(1) + u32(3) + b'\0' * 8 + b'INST' + struct.pack('<III', 0x7fffffff, 10, 0) + b'abc')
    yield ('len-gt-file-uncompressed', HEADER + u32(1) + u32(3) + b'\0' * 8 + b'INST' + struct.pack('<III', 0, 0xffffffff, 0) + b'abc')


def blob_corpus(rng):
    """yields (label, decoder, bytes): well-formed binary and XML files whose BLOB-typed properties (decoded a second
    time by the readers: Terrain.MaterialColors, Tags, Attributes) carry blobs of every length around the sizes those
    decoders expect, and contents they do not expect."""
    import base64

    def bin_file(cls, pname, blobs):
        n = len(blobs)
        refs = list(range(n))
        chunks = [chunk(b'INST', inst(0, cls, refs), rng=rng),
                  chunk(b'PROP', prop(0, 'Name', 0x01, b''.join(_pstr(b'n%d' % i) for i in range(n))), rng=rng),
                  chunk(b'PROP', prop(0, pname, 0x01, b''.join(_pstr(b) for b in blobs)), rng=rng),
                  chunk(b'PRNT', prnt(refs, [-1] * n), rng=rng)]
        return assemble(1, n, chunks)

    def xml_file(cls, pname, blobs):
        items = ''.join('<Item class="%s" referent="R%d"><Properties><string name="Name">n%d</string><BinaryString name="%s">%s</BinaryString></Properties></Item>'
                        % (cls, i, i, pname, base64.b64encode(b).decode()) for i, b in enumerate(blobs))
        return ('<roblox version="4">' + items + '</roblox>').encode()

    def rnd(n):
        return bytes(rng.randrange(256) for _ in range(n))

    # MaterialColors: the real blob is 69 bytes (6 reserved + 21 x 3)
    mc = [rnd(n) for n in range(0, 81)] + [rnd(n) for n in (138, 207, 255, 256, 1000)]
    # Tags: NUL-separated UTF-8
    tags = [b'', b'\0', b'\0\0', b'a\0', b'\0a', b'a\0\0b', b'\xff', b'a\0\xc3', b'\xed\xa0\x80', 'é\0é'.encode(), b'a' * 5000, rnd(40)]
    # Attributes: count, then name / type id / value
    good = struct.pack('<I', 1) + _pstr(b'k') + b'\x03' + b'\x01'
    attrs = [b'', good, good[:-1], good + b'\x00', struct.pack('<I', 0), struct.pack('<I', 2) + good[4:], struct.pack('<I', 0xffffffff), struct.pack('<I', 1) + _pstr(b'k') + b'\x7f',
             struct.pack('<I', 1) + struct.pack('<I', 0xfffffff0) + b'k', struct.pack('<I', 1) + _pstr(b'\xff') + b'\x03\x01', struct.pack('<I', 1) + _pstr(b'k') + b'\x02' + struct.pack('<I', 0x7fffffff)] + [rnd(n) for n in (1, 3, 4, 5, 9, 17, 64)]
    for label, cls, pname, blobs in [('blob-materialcolors', 'Terrain', 'MaterialColors', mc), ('blob-tags', 'Folder', 'Tags', tags), ('blob-attributes', 'Folder', 'AttributesSerialize', attrs)]:
        # one file per blob (so one bad blob cannot hide the next) and one file with all of them
        for i, b in enumerate(blobs):
            yield ('%s-len%d' % (label, len(b)) if label == 'blob-materialcolors' else '%s-%d' % (label, i), 'bin', bin_file(cls, pname, [b]))
            yield ('%s-xml-len%d' % (label, len(b)) if label == 'blob-materialcolors' else '%s-xml-%d' % (label, i), 'xml', xml_file(cls, pname, [b]))
        yield (label + '-all', 'bin', bin_file(cls, pname, blobs))
        yield (label + '-xml-all', 'xml', xml_file(cls, pname, blobs))


def name_corpus(rng):
    """yields (label, decoder, bytes): property / class / instance names of lengths around 2^6, 100, 2^7, 2^8 and 2^16 with a multi-byte
    character straddling the boundary, on PROP chunks whose VALUE is malformed (so that error paths that quote the name are taken)."""
    for L in (63, 64, 99, 100, 101, 127, 128, 255, 256, 1000, 65535, 65536):
        for ch in ('\u00e9', '\u4e2d', '\U0001f600'):
            name = ('x' * (L - 1) + ch + 'tail').encode()
            bad_values = [(0x0a, b'\xff', 'faces'), (0x10, b'\x7f' + b'\0' * 12, 'cframe-rotation-id'), (0x0b, _enc_u32be([99999]), 'brickcolor'),
                          (0x1c, _enc_u32be([77]), 'sharedstring-index'), (0x02, b'\x01', 'type-mismatch-bool')]
            for tid, payload, what in bad_values:
                chunks = [chunk(b'INST', inst(0, 'Part', [0]), rng=rng),
                          chunk(b'PROP', u32(0) + _pstr(name) + bytes([tid]) + payload, rng=rng),
                          chunk(b'PRNT', prnt([0], [-1]), rng=rng)]
                yield ('longname-prop-%s' % what, 'bin', assemble(1, 1, chunks))
            # the same name as class name and as instance name (valid values)
            chunks = [chunk(b'INST', inst(0, name.decode(), [0]), rng=rng), chunk(b'PROP', prop(0, 'Name', 0x01, _pstr(name)), rng=rng), chunk(b'PRNT', prnt([0], [-1]), rng=rng)]
            yield ('longname-class-and-instance', 'bin', assemble(1, 1, chunks))
            xml = ('<roblox version="4"><Item class="Part" referent="R0"><Properties><string name="Name">%s</string><Faces name="%s"><faces>999</faces></Faces>'
                   '<token name="%s">notanumber</token></Properties></Item></roblox>' % (name.decode(), name.decode(), name.decode())).encode()
            yield ('longname-xml', 'xml', xml)


def xml_vocabulary_corpus(rng):
    """yields (label, decoder, bytes): small XML documents that use every child-element vocabulary docs/xml.md mentions for
    composite values - the current one, the HISTORICAL one (Content / ContentId children named `binary` or `hash`, whose
    contents 'SHOULD be disregarded') and names no version ever had - in typed positions (database-known properties), each
    followed by every one of its byte prefixes and a few breakages inside the child. Whatever a reader does with an old or
    unknown child element, it has to come back: a value, or an error."""
    def doc(cls, body):
        return '<roblox version="4"><Item class="%s" referent="R0"><Properties><string name="Name">n</string>%s</Properties></Item></roblox>' % (cls, body)
    kids = ['<url>rbxassetid://1</url>', '<null></null>', '<hash>0123456789abcdef</hash>', '<binary>UmJ4LWRvbQ==</binary>', '<uri>rbxassetid://1</uri>', '<Ref>R0</Ref>', '<Ref>null</Ref>',
            '<bogus>x</bogus>', '<hash></hash>', '<binary/>', '<hash><nested>1</nested></hash>', '<binary><![CDATA[x]]></binary>', '<hash>a</hash><url>b</url>', 'bare text']
    bodies = []
    for k in kids:
        bodies.append(('Sound', '<Content name="SoundId">%s</Content>' % k))
        bodies.append(('MeshPart', '<Content name="MeshContent">%s</Content>' % k))
        bodies.append(('Decal', '<ContentId name="Texture">%s</ContentId>' % k))
        bodies.append(('TextLabel', '<Font name="FontFace"><Family>%s</Family><Weight>400</Weight><Style>Normal</Style><CachedFaceId>%s</CachedFaceId></Font>' % (k, k)))
        bodies.append(('Folder', '<Content name="Unknown1">%s</Content>' % k))
    bodies += [('Part', '<Vector3 name="Size"><X>1</X><bogus>2</bogus><Z>3</Z></Vector3>'),
               ('Part', '<CoordinateFrame name="CFrame"><X>1</X><Y>2</Y><Z>3</Z><R00>1</R00><hash>x</hash></CoordinateFrame>'),
               ('Model', '<OptionalCoordinateFrame name="WorldPivotData"><hash>1</hash></OptionalCoordinateFrame>'),
               ('Model', '<OptionalCoordinateFrame name="WorldPivotData"><CFrame><X>1</X><binary>2</binary></CFrame></OptionalCoordinateFrame>'),
               ('Part', '<PhysicalProperties name="CustomPhysicalProperties"><CustomPhysics>true</CustomPhysics><hash>1</hash></PhysicalProperties>'),
               ('Part', '<Color3 name="Color"><R>1</R><hash>1</hash></Color3>'),
               ('Frame', '<UDim2 name="Size"><XS>1</XS><binary>1</binary></UDim2>'),
               ('ObjectValue', '<Ref name="Value"><hash>R0</hash></Ref>'),
               ('UnionOperation', '<SharedString name="MeshData2"><hash>x</hash></SharedString>'),
               ('Part', '<UniqueId name="UniqueId"><hash>x</hash></UniqueId>'),
               ('ParticleEmitter', '<NumberSequence name="Size"><hash>0 1 0 1 1 0</hash></NumberSequence>'),
               ('Part', '<token name="Material"><binary>256</binary></token>')]
    # properties the database KNOWS but never serializes (as a third-party tool, or rbx_xml itself with WriteUnknown, writes
    # them), an unknown property, an unknown class: every decode behaviour has its own path for these
    nonser = [('Part', '<Vector3 name="Position"><X>1</X><Y>2</Y><Z>3</Z></Vector3>'), ('Part', '<Vector3 name="Orientation"><X>1</X><Y>2</Y><Z>3</Z></Vector3>'),
              ('Part', '<Vector3 name="Rotation"><X>1</X><Y>2</Y><Z>3</Z></Vector3>'), ('Part', '<Ref name="Parent">R0</Ref>'), ('Part', '<string name="ClassName">Part</string>'),
              ('Model', '<float name="Scale">2</float>'), ('Folder', '<int name="ZzNoSuchProperty">1</int>'), ('ZzNoSuchClass', '<int name="Whatever">1</int>'),
              ('Part', '<float name="Mass">1</float>'), ('Part', '<bool name="Locked">true</bool><Vector3 name="Position"><X>1</X><Y>2</Y><Z>3</Z></Vector3><bool name="Anchored">true</bool>')]
    for i, (cls, body) in enumerate(nonser):
        d = doc(cls, body).encode()
        for dec in ('xml', 'xml-strict', 'xml-default', 'xml-noreflect'):
            yield ('xml-nonserializing-%d-%s' % (i, dec), dec, d)
    seen = set()
    for i, (cls, body) in enumerate(bodies):
        d = doc(cls, body).encode()
        yield ('xml-vocab-%d' % i, 'xml', d)
        for dec in ('xml-strict', 'xml-default', 'xml-noreflect'):
            yield ('xml-vocab-%d-%s' % (i, dec), dec, d)
        start = d.find(b'<Properties>')
        for cut in range(start, len(d)):
            p = d[:cut]
            if p not in seen:
                seen.add(p)
                yield ('xml-vocab-%d-prefix' % i, 'xml', p)
        # breakages inside the value element
        at = d.find(b'</', start + 60)
        if at > 0:
            yield ('xml-vocab-%d-broken-lt' % i, 'xml', d[:at] + b'<' + d[at:])
            yield ('xml-vocab-%d-broken-amp' % i, 'xml', d[:at] + b'&nosuch;' + d[at:])
            yield ('xml-vocab-%d-broken-ctrl' % i, 'xml', d[:at] + b'\x01' + d[at:])


def make(path, seed):
    rng = random.Random(f'c13-{seed}')
    n = 0
    with open(path, 'w') as out:
        for rep in range(3):
            for label, data in corpus(rng):
                out.write(json.dumps({'label': label, 'hex': data.hex()}) + '\n')
                n += 1
        for label, dec, data in blob_corpus(rng):
            out.write(json.dumps({'label': label, 'dec': dec, 'hex': data.hex()}) + '\n')
            n += 1
        for label, dec, data in name_corpus(rng):
            out.write(json.dumps({'label': label, 'dec': dec, 'hex': data.hex()}) + '\n')
            n += 1
        for label, dec, data in xml_vocabulary_corpus(rng):
            out.write(json.dumps({'label': label, 'dec': dec, 'hex': data.hex()}) + '\n')
            n += 1
    return n
