"""C05. Writer direction: every XML document recorded in a C02 case log is parsed by an
independent XML parser (expat via xml.etree) and decoded by refxml.py (written from docs/xml.md);
structural facts and every value are compared with the statement-derived expectation.
Reader direction: logical DOMs are rendered by refxml.encode with every freedom of the document
varied, for `vh readcmp --prop C05`."""
import copy, hashlib, json, os, random, sys
sys.setrecursionlimit(20000)  # trees of the size scenarios are hundreds of levels deep

sys.path.insert(0, os.path.dirname(os.path.dirname(os.path.abspath(__file__))))
import refxml, refattr  # noqa: E402
from monitors.c03 import attrs_equiv  # noqa: E402
from monitors.c04 import attrs_for_encoder  # noqa: E402


def norm_eol(s):
    return s.replace('\r\n', '\n').replace('\r', '\n')


def xml_equiv(ev, xv, stats):
    """ev: expected canonical value; xv: value as the independent decoder read it. Returns None or (kind, text)."""
    et, xt = ev['t'], xv['t']
    v, w = ev['v'], xv['v']

    def diff(kind='value'):
        return (kind, f'expected {json.dumps(ev, ensure_ascii=False)[:240]} read {json.dumps(xv, ensure_ascii=False)[:240]}')

    if et in ('String', 'ContentId'):
        if xt != et:
            return diff('element')
        if v == w:
            return None
        if norm_eol(v) == w:
            return ('raw-CR', 'a carriage return was written raw into element text; a conforming parser normalises it to a line feed')
        return diff()
    if et == 'Content':
        if xt != 'Content':
            return diff('element')
        if v == w:
            return None
        if v.get('k') == 'Uri' and w.get('k') == 'Uri' and norm_eol(v['uri']) == w['uri']:
            return ('raw-CR', 'a carriage return was written raw into element text')
        return diff()
    if et in ('BinaryString', 'MaterialColors'):
        return None if (xt == 'BinaryString' and v == w) else diff('element' if xt != 'BinaryString' else 'value')
    if et == 'Tags':
        return None if (xt == 'BinaryString' and '\0'.join(v).encode('utf-8').hex() == w) else diff()
    if et in ('Attributes', 'BinaryString@Attributes'):
        if xt != 'BinaryString':
            return diff('element')
        try:
            got = refattr.decode(bytes.fromhex(w))
        except refattr.RefError as e:
            return ('value', f'attribute blob rejected by the reference decoder: {e}')
        stats['attr_blobs'] = stats.get('attr_blobs', 0) + 1
        return None if attrs_equiv(attrs_nan_fold(v), attrs_nan_fold(got)) else diff()
    if et == 'BrickColor':
        # xml.md: BrickColor values are written as int (or BrickColor) elements
        return None if (xt in ('Int32', 'BrickColor') and v == w) else diff()
    if et == 'Font':
        same = (v['family'], v['weight'], v['style'], v['cached'] or None) == (w['family'], w['weight'], w['style'], w['cached'] or None)
        if same:
            return None
        if (norm_eol(v['family']), norm_eol(v['cached'] or '')) == (w['family'], w['cached'] or '') and (v['weight'], v['style']) == (w['weight'], w['style']):
            return ('raw-CR', 'a carriage return was written raw into element text')
        return diff()
    if et == 'ColorSequence':
        return None if (xt == et and v == w) else diff()
    if xt != et:
        return diff('element')
    return None if v == w else diff()


def _nan_fold(p):
    if isinstance(p, str):
        if len(p) == 8:
            try:
                b = int(p, 16)
                if (b & 0x7f800000) == 0x7f800000 and (b & 0x007fffff):
                    return '7fc00000'
            except ValueError:
                pass
        if len(p) == 16:
            try:
                b = int(p, 16)
                if (b & 0x7ff0000000000000) == 0x7ff0000000000000 and (b & 0x000fffffffffffff):
                    return '7ff8000000000000'
            except ValueError:
                pass
        return p
    if isinstance(p, list):
        return [_nan_fold(x) for x in p]
    if isinstance(p, dict):
        return {k: _nan_fold(v) for k, v in p.items()}
    return p


def attrs_nan_fold(a):
    """the expectation for XML folds NaNs (decimal text cannot carry payloads); attribute blobs are binary and keep them"""
    return {k: (v if v['t'] in ('String', 'BinaryString') else {'t': v['t'], 'v': _nan_fold(v['v'])}) for k, v in a.items()}


# value types whose dump payload can hold float bit patterns; everything else (names, strings, byte strings, URIs, hashes)
# is left alone - a BinaryString of 8 bytes that happen to look like a NaN must not be "canonicalised"
FLOAT_BEARING = {'Float32', 'Float64', 'Vector2', 'Vector3', 'CFrame', 'OptionalCFrame', 'Color3', 'UDim', 'UDim2', 'Ray', 'Rect', 'NumberRange',
                 'NumberSequence', 'ColorSequence', 'PhysicalProperties', 'Region3'}


def canon_nan(x):
    """fold NaN bit patterns (decimal XML text cannot carry payloads), by value type"""
    if isinstance(x, dict):
        if 't' in x and 'v' in x and isinstance(x['t'], str):
            if x['t'] in FLOAT_BEARING:
                return {'t': x['t'], 'v': _nan_fold(x['v'])}
            if x['t'].endswith('Attributes') and isinstance(x['v'], dict):
                return x  # attribute blobs are binary and keep payloads; compared by attrs_equiv
            return x
        return {k: canon_nan(v) for k, v in x.items()}
    if isinstance(x, list):
        return [canon_nan(v) for v in x]
    return x


def check_doc(rec, stats):
    out = []
    text = bytes.fromhex(rec['bytes_hex'])
    # Two known deviations from the letter of docs/xml.md are reported once each and then
    # normalised, so that the rest of the document is still checked:
    #  - non-finite floats inside composite values are spelled inf / -inf / NaN instead of INF / -INF / NAN
    #  - <null> elements carry indentation whitespace although the document says they must be empty
    import re
    known = []
    t2 = text.decode('utf-8', 'replace')
    t3 = re.sub(r'<null>\s+</null>', '<null></null>', t2)
    if t3 != t2:
        known.append(('C05:writer:null-element-not-empty', 'a <null> element is written with whitespace inside; docs/xml.md says it must be empty'))
    t4 = re.sub(r'(?<=[> ])(-?)inf(?=[ <])', lambda m: m.group(1) + 'INF', t3)
    t4 = re.sub(r'(?<=[> ])NaN(?=[ <])', 'NAN', t4)
    if t4 != t3:
        # only count it when the unmodified text is really rejected for that reason
        try:
            refxml.decode_ex(t3.encode('utf-8'))
        except refxml.RefError as e0:
            if 'is not a valid float' in str(e0):
                known.append(('C05:writer:nonfinite-float-spelling', f'a non-finite float inside a composite value is not spelled INF/-INF/NAN: {e0}'))
            else:
                t4 = t3
        else:
            t4 = t3
    text = t4.encode('utf-8')
    try:
        dump, facts = refxml.decode_ex(text)
    except refxml.RefError as e:
        msg = ''.join(c for c in str(e)[:70] if not c.isdigit())
        return known + [(f'C05:writer:reference-decoder-rejects:{msg}', f'independent parser/decoder rejects the document: {e}')]
    if facts.get('version') != '4':
        out.append(('C05:writer:version', f'roblox version attribute is {facts.get("version")!r}'))
    if facts.get('items_without_referent'):
        out.append(('C05:writer:item-without-referent', 'an Item has no referent'))
    refs = facts.get('referents', [])
    if len(set(refs)) != len(refs) or 'null' in refs:
        out.append(('C05:writer:referent-not-unique', 'Item referents are not file-unique or one is "null"'))
    if any(n != 1 for n in facts.get('properties_elements_per_item', [])):
        out.append(('C05:writer:properties-elements', 'an Item does not have exactly one Properties element'))
    if set(facts.get('sharedstring_uses', [])) - set(facts.get('sharedstring_defs', [])):
        out.append(('C05:writer:sharedstring-undefined', 'a SharedString hash is used but not defined in the dictionary'))
    if facts.get('sharedstrings_elements', 0) > 1:
        out.append(('C05:writer:sharedstrings-twice', 'more than one SharedStrings element'))
    for v in facts.get('violations', []):
        out.append(('C05:writer:' + ''.join(c for c in str(v)[:50] if not c.isdigit()), f'{v}'))
    if facts.get('unknown_elements'):
        out.append(('C05:writer:undocumented-element:' + str(sorted(set(facts['unknown_elements']))[:3]), f'property elements not in docs/xml.md: {sorted(set(facts["unknown_elements"]))[:5]}'))
    if out:
        return known + out
    exp = rec['expected']
    wire = rec.get('wire', {}) if rec.get('xml_mode') != 'NoReflection' else {}

    def node(e, x, path):
        if e['class'] != x['class']:
            return ('C05:writer:value:class', f'{path}: class {x["class"]!r} expected {e["class"]!r}')
        if e['name'] != x['name']:
            if norm_eol(e['name']) == x['name']:
                return ('C05:writer:raw-CR-in-text', f'{path}: instance name holds a carriage return that is written raw')
            return ('C05:writer:value:name', f'{path}: name {x["name"]!r} expected {e["name"]!r}')
        cls = e['class']
        wmap = wire.get(cls, {})
        used = set()
        for back, ev in e['props'].items():
            wn = wmap.get(back, [back])[0]
            used.add(wn)
            if wn not in x['props']:
                return (f'C05:writer:missing:{ev["t"]}', f'{path}: {cls}.{back} expected under element name {wn!r}; document has {sorted(x["props"])[:10]}')
            stats['compared.' + ev['t']] = stats.get('compared.' + ev['t'], 0) + 1
            r = xml_equiv(ev, x['props'][wn], stats)
            if r:
                kind, what = r
                if kind == 'raw-CR':
                    return ('C05:writer:raw-CR-in-text', f'{path}: {cls}.{back}: {what}')
                return (f'C05:writer:{kind}:{ev["t"]}', f'{path}: {cls}.{back} ({wn}): {what}')
        for wn in x['props']:
            if wn not in used:
                return ('C05:writer:unexpected-property', f'{path}: document carries {wn!r} which the DOM did not')
        if len(e['children']) != len(x['children']):
            return ('C05:writer:value:child-count', f'{path}: {len(x["children"])} children, expected {len(e["children"])}')
        for i, (ce, cx) in enumerate(zip(e['children'], x['children'])):
            r = node(ce, cx, f'{path}/{i}')
            if r:
                return r
        return None

    xd = canon_nan(dump)
    if len(exp['roots']) != len(xd['roots']):
        return known + [('C05:writer:value:root-count', f'{len(xd["roots"])} roots, expected {len(exp["roots"])}')]
    for i, (e, x) in enumerate(zip(exp['roots'], xd['roots'])):
        r = node(e, x, f'/{i}')
        if r:
            return known + [r]
    return known


def run(caselog):
    sys.setrecursionlimit(20000)
    stats, viol, digests, samples = {}, {}, set(), []
    n = 0
    for line in open(caselog):
        rec = json.loads(line)
        if rec.get('kind') != 'case':
            continue
        n += 1
        stats['mode.' + rec.get('xml_mode', '?')] = stats.get('mode.' + rec.get('xml_mode', '?'), 0) + 1
        try:
            res = check_doc(rec, stats)
        except RecursionError:
            stats['skipped.recursion'] = stats.get('skipped.recursion', 0) + 1
            continue
        if json.dumps(rec['expected']).count('"class"') >= 2:
            digests.add(hashlib.sha1(rec['bytes_hex'].encode()).hexdigest()[:16])
        if len(samples) < 2:
            samples.append({'seed': rec['seed'], 'index': rec['index'], 'mode': rec.get('xml_mode'), 'document_bytes': len(rec['bytes_hex']) // 2})
        for sig, what in res:
            v = viol.setdefault(sig, {'sig': sig, 'what': what, 'count': 0, 'replay': {'cmd': 'c02', 'seed': rec['seed'], 'index': rec['index']},
                                      'detail': {'monitor': 'lib/monitors/c05.py (writer direction)'}})
            v['count'] += 1
    return {'prop': 'C05', 'evaluations': n, 'digests': sorted(digests), 'coverage': stats, 'samples': samples,
            'violations': list(viol.values()), 'notes': [], 'extra': {}}


# ---------------------------------------------------------------- reader direction

def to_xml_value(v, rng):
    t, p = v['t'], v['v']
    if t == 'Tags':
        return {'t': 'BinaryString', 'v': '\0'.join(p).encode('utf-8').hex()}
    if t == 'MaterialColors':
        return {'t': 'BinaryString', 'v': p}
    if t in ('Attributes', 'BinaryString@Attributes'):
        return {'t': 'BinaryString', 'v': refattr.encode(attrs_for_encoder(p), rng).hex()}
    return {'t': t, 'v': copy.deepcopy(p)}


def fixed_documents():
    """hand-written conformant documents for combinations the random encoder reaches too rarely: every string-like element
    spelling x line ends written as character references x CDATA / text mixes. ProtectedString 'MUST have its contents
    maintained exactly' (docs/xml.md); expat and every conforming parser deliver &#13; as a CR that is NOT normalised."""
    docs = []
    bodies = [('crlf-charref', 'a&#13;\nb&#xD;\n', 'a\r\nb\r\n'), ('cr-only-charref', 'a&#13;b&#13;', 'a\rb\r'), ('lf-only', 'a\nb\n', 'a\nb\n'),
              ('crlf-in-cdata-plus-charref', '<![CDATA[x]]>&#13;\ny', 'x\r\ny'), ('tab-and-nbsp', '&#9;t\u00a0', '\tt\u00a0'), ('leading-trailing-charref-space', '&#32;s&#32;', ' s ')]
    for tag in ('string', 'ProtectedString'):
        for label, raw, val in bodies:
            text = ('<roblox version="4"><Item class="Script" referent="RBX0"><Properties><%s name="Source">%s</%s><string name="Name">n</string></Properties></Item></roblox>'
                    % (tag, raw, tag))
            exp = {'roots': [{'class': 'Script', 'name': 'n', 'props': {'Source': {'t': 'String', 'v': val}}, 'children': []}]}
            docs.append({'id': 'fixed.%s.%s' % (tag, label), 'origin': {'fixed': label, 'element': tag}, 'fmt': 'xml', 'text': text, 'expected': exp,
                         'tags': ['fixed-document', 'fixed.' + tag + '.' + label]})
    return docs


def make_files(args):
    cases_path, files_path, seed = args
    n = 0
    with open(files_path, 'w') as out:
        if files_path.endswith('-0.jsonl'):
            for d in fixed_documents():
                out.write(json.dumps(d) + '\n')
                n += 1
        for line in open(cases_path):
            rec = json.loads(line)
            if rec.get('kind') != 'logical':
                continue
            wire = rec['wire']
            for k in range(2):
                rng = random.Random(f'c05-{seed}-{rec["index"]}-{k}')

                declared_cid = set()

                def conv(nd):
                    wmap = wire.get(nd['class'], {})
                    props = {}
                    for back, v in nd['props'].items():
                        props[wmap[back][0] if back in wmap else back] = to_xml_value(v, rng)
                        if back in wmap and v['t'] == 'ContentId':
                            declared_cid.add(wmap[back][0])
                    return {'class': nd['class'], 'name': nd['name'], 'props': props, 'children': [conv(c) for c in nd['children']]}

                xdump = {'roots': [conv(r) for r in rec['logical']['roots']]}
                # BrickColor values are written as <int> (what rbx_xml itself and Studio do); see DESIGN.md C05
                opts = {'brickcolor_as_int': True, 'font_cached_null': 'omit'}
                if k == 1:
                    # the second document of a case also uses freedoms the text leaves open and another writer might use:
                    # upper-case hex digits in a UniqueId ("hexadecimal-encoded", no case prescribed) and the pre-645 <Content>
                    # element for ContentId values (described in the document as the historical spelling)
                    opts['hex_upper'] = True
                    opts['legacy_content'] = True
                    opts['contentid_declared_names'] = declared_cid
                try:
                    text = refxml.encode(xdump, rng, opts)
                except refxml.RefError:
                    continue
                tags = []
                low = text
                if '<?xml' in low:
                    tags.append('declaration')
                if 'xmlns' in low:
                    tags.append('xmlns')
                if '<Meta' in low:
                    tags.append('meta')
                if '<External' in low:
                    tags.append('external')
                if 'referent="RBX' in low:
                    tags.append('rbx-referents')
                if '<![CDATA[' in low:
                    tags.append('cdata')
                if '<!--' in low:
                    tags.append('comments')
                if '<ProtectedString' in low:
                    tags.append('protectedstring')
                if '&#' in low:
                    tags.append('charrefs')
                if '+INF' in low:
                    tags.append('plus-inf')
                if '/>' in low:
                    tags.append('self-closing')
                out.write(json.dumps({'id': f'{rec["index"]}.{k}', 'origin': {'cmd': 'c05r', 'seed': rec['seed'], 'index': rec['index'], 'variant': k},
                                      'fmt': 'xml', 'text': text, 'expected': rec['logical'], 'tags': tags}) + '\n')
                n += 1
    return n
