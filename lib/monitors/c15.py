"""C15 read paths: files that CONTAIN the legacy property (binary PROP chunk / XML element), with
and without the new property, in both chunk / element orders, built without rbx-dom."""
import json, os, random, sys
import sys as _sys
_sys.setrecursionlimit(20000)  # trees of the size scenarios are hundreds of levels deep
from xml.sax.saxutils import escape

sys.path.insert(0, os.path.dirname(os.path.dirname(os.path.abspath(__file__))))
import refbin  # noqa: E402
from monitors.c04 import to_wire_value, ENC_VARIANT  # noqa: E402


def esc(s):
    return escape(s).replace('\r', '&#13;')


EMPTY_URL_ELEMENT = [False]


def xml_elem(name, wire_ty, v, legacy):
    t, p = v['t'], v['v']
    if t == 'Enum':
        return f'<token name="{name}">{p}</token>'
    if t == 'BrickColor':
        return f'<int name="{name}">{p}</int>'
    if t == 'Bool':
        return f'<bool name="{name}">{"true" if p else "false"}</bool>'
    if t == 'ContentId':
        # the empty value has two conformant spellings: the null element, and a url element with no text
        inner = f'<url>{esc(p)}</url>' if (p or EMPTY_URL_ELEMENT[0]) else '<null></null>'
        return f'<Content name="{name}">{inner}</Content>'
    if t == 'Content':
        if p['k'] == 'None':
            inner = '<null></null>'
        else:
            inner = f'<uri>{esc(p["uri"])}</uri>'
        return f'<Content name="{name}">{inner}</Content>'
    if t == 'Color3uint8':
        r, g, b = p
        return f'<Color3uint8 name="{name}">{0xff000000 | r << 16 | g << 8 | b}</Color3uint8>'
    if t == 'Font':
        cached = f'<CachedFaceId><url>{esc(p["cached"])}</url></CachedFaceId>' if p['cached'] else ''
        fam = f'<url>{esc(p["family"])}</url>' if p['family'] else '<null></null>'
        return (f'<Font name="{name}"><Family>{fam}</Family><Weight>{p["weight"]}</Weight>'
                f'<Style>{"Italic" if p["style"] == 1 else "Normal"}</Style>{cached}</Font>')
    raise ValueError(t)


def make(cases_path, files_path, seed, fmts=('bin', 'xml')):
    n = 0
    with open(files_path, 'w') as out:
        for line in open(cases_path):
            rec = json.loads(line)
            if rec.get('kind') != 'c15':
                continue
            leg, new = rec['legacy'], rec.get('new')
            expected = {'roots': [{'class': rec['class'], 'name': 'n', 'props': rec['expected_props'], 'children': []}]}
            if any(v is None for v in rec['expected_props'].values()):
                continue
            rng = random.Random(f'{seed}-{rec["n"]}')
            # ---- binary, both PROP chunk orders
            for order in (('legacy-first', 'new-first') if new else ('legacy-only',)) if 'bin' in fmts else ():
                props = {leg['name']: to_wire_value(leg['value'], rng)}
                if new:
                    props[new['wire_name']] = to_wire_value(new['value'], rng)
                try:
                    model = refbin.model_from_dump({'roots': [{'class': rec['class'], 'name': 'n', 'props': props, 'children': []}]}, rng, {'force': {'chunk_order': 'grouped'}})
                except refbin.RefError:
                    continue
                if new:
                    idx = {c['body']['name']: i for i, c in enumerate(model['chunks']) if c['name'] == 'PROP'}
                    i, j = idx[leg['name']], idx[new['wire_name']]
                    if (order == 'legacy-first') != (i < j):
                        model['chunks'][i], model['chunks'][j] = model['chunks'][j], model['chunks'][i]
                data = refbin.encode(model, variant=ENC_VARIANT)
                out.write(json.dumps({'id': f'{rec["n"]}.bin.{order}', 'origin': {'label': rec['label'], 'order': order}, 'fmt': 'bin', 'bytes_hex': data.hex(),
                                      'expected': expected, 'tags': ['r-bin', order, leg['name']], 'sig': f':r-bin:{leg["name"]}' + (f'={leg["value"]["v"]}' if leg['value']['t'] == 'Enum' else '')}) + '\n')
                n += 1
                # ---- legacy only, next to a chunk for the TARGET property that the document says must be skipped (it ends
                #      after its name, or its value type id is unknown): "skipped without affecting any other property"
                tw = rec.get('target_wire_name')
                if not new and tw and tw != leg['name']:
                    for kind in ('no-type-byte', 'unknown-type-id'):
                        for where in ('skipped-first', 'skipped-last'):
                            m2 = json.loads(json.dumps(model))
                            li = next(i for i, c in enumerate(m2['chunks']) if c['name'] == 'PROP' and c['body']['name'] == leg['name'])
                            body = {'class_id': m2['chunks'][li]['body']['class_id'], 'name': tw, 'type_id': None, 'values': None, 'trailing': 0}
                            if kind == 'unknown-type-id':
                                body['type_id'] = rng.choice([0x1d, 0x23, 0x7f, 0xff])
                                body['raw_values'] = bytes(rng.randrange(256) for _ in range(rng.randrange(0, 24))).hex()
                            ch = {'name': 'PROP', 'compression': rng.choice(['none', 'lz4', 'zstd']), 'compressed_len': 0, 'len': 0, 'reserved': 0, 'body': body}
                            m2['chunks'].insert(li if where == 'skipped-first' else li + 1, ch)
                            try:
                                data2 = refbin.encode(m2, variant=ENC_VARIANT)
                            except refbin.RefError:
                                continue
                            out.write(json.dumps({'id': f'{rec["n"]}.bin.{kind}.{where}', 'origin': {'label': rec['label'], 'order': where, 'skipped': kind}, 'fmt': 'bin', 'bytes_hex': data2.hex(),
                                                  'expected': expected, 'tags': ['r-bin', where, 'skip.' + kind, leg['name']], 'sig': f':r-bin:{leg["name"]}' + (f'={leg["value"]["v"]}' if leg['value']['t'] == 'Enum' else '')}) + '\n')
                            n += 1
            # ---- binary: another class that carries the TARGET property (explicitly) earlier in the same file;
            #      what the reader remembers about one class must not change how the next class's legacy chunk is read
            other = rec.get('other')
            if other and 'bin' in fmts:
                props = {leg['name']: to_wire_value(leg['value'], rng)}
                if new:
                    props[new['wire_name']] = to_wire_value(new['value'], rng)
                try:
                    model = refbin.model_from_dump({'roots': [
                        {'class': other['class'], 'name': 'other', 'props': {other['wire_name']: to_wire_value(other['value'], rng)}, 'children': []},
                        {'class': rec['class'], 'name': 'n', 'props': props, 'children': []}]}, rng, {'force': {'chunk_order': 'grouped'}})
                    insts = {c['body']['class_name']: c['body']['class_id'] for c in model['chunks'] if c['name'] == 'INST'}
                    oi = next(i for i, c in enumerate(model['chunks']) if c['name'] == 'PROP' and c['body']['class_id'] == insts[other['class']] and c['body']['name'] == other['wire_name'])
                    li = next(i for i, c in enumerate(model['chunks']) if c['name'] == 'PROP' and c['body']['class_id'] == insts[rec['class']] and c['body']['name'] == leg['name'])
                    if oi > li:
                        model['chunks'][oi], model['chunks'][li] = model['chunks'][li], model['chunks'][oi]
                    data = refbin.encode(model, variant=ENC_VARIANT)
                    exp2 = {'roots': [{'class': other['class'], 'name': 'other', 'props': {other['back']: other['value']}, 'children': []}, expected['roots'][0]]}
                    out.write(json.dumps({'id': f'{rec["n"]}.bin.other-class-first', 'origin': {'label': rec['label'], 'order': 'other-class-first'}, 'fmt': 'bin', 'bytes_hex': data.hex(),
                                          'expected': exp2, 'tags': ['r-bin', 'other-class-first', leg['name']], 'sig': f':r-bin:{leg["name"]}' + (f'={leg["value"]["v"]}' if leg['value']['t'] == 'Enum' else '')}) + '\n')
                    n += 1
                except (refbin.RefError, StopIteration, KeyError):
                    pass
            if other and 'xml' in fmts:
                try:
                    elems = [xml_elem(leg['name'], leg['wire_ty'], leg['value'], True)]
                    if new:
                        elems.append(xml_elem(new['wire_name'], new['wire_ty'], new['value'], False))
                    oe = xml_elem(other['wire_name'], other['wire_ty'], other['value'], False)
                    doc = (f'<roblox version="4"><Item class="{other["class"]}" referent="RBX0"><Properties><string name="Name">other</string>{oe}</Properties></Item>'
                           f'<Item class="{rec["class"]}" referent="RBX1"><Properties><string name="Name">n</string>' + ''.join(elems) + '</Properties></Item></roblox>')
                    exp2 = {'roots': [{'class': other['class'], 'name': 'other', 'props': {other['back']: other['value']}, 'children': []}, expected['roots'][0]]}
                    out.write(json.dumps({'id': f'{rec["n"]}.xml.other-class-first', 'origin': {'label': rec['label'], 'order': 'other-class-first'}, 'fmt': 'xml', 'text': doc,
                                          'expected': exp2, 'tags': ['r-xml', 'other-class-first', leg['name']], 'sig': f':r-xml:{leg["name"]}' + (f'={leg["value"]["v"]}' if leg['value']['t'] == 'Enum' else '')}) + '\n')
                    n += 1
                except ValueError:
                    pass
            # ---- XML, both element orders
            for order in (('legacy-first', 'new-first') if new else ('legacy-only', 'legacy-only-empty-url-element')) if 'xml' in fmts else ():
                EMPTY_URL_ELEMENT[0] = order.endswith('empty-url-element')
                if EMPTY_URL_ELEMENT[0] and not (leg['wire_ty'] == 'ContentId' and leg['value']['v'] == ''):
                    continue
                try:
                    elems = [xml_elem(leg['name'], leg['wire_ty'], leg['value'], True)]
                    if new:
                        ne = xml_elem(new['wire_name'], new['wire_ty'], new['value'], False)
                        elems = elems + [ne] if order == 'legacy-first' else [ne] + elems
                except ValueError:
                    continue
                doc = (f'<roblox version="4"><Item class="{rec["class"]}" referent="RBX1"><Properties><string name="Name">n</string>'
                       + ''.join(elems) + '</Properties></Item></roblox>')
                out.write(json.dumps({'id': f'{rec["n"]}.xml.{order}', 'origin': {'label': rec['label'], 'order': order}, 'fmt': 'xml', 'text': doc,
                                      'expected': expected, 'tags': ['r-xml', order, leg['name']], 'sig': f':r-xml:{leg["name"]}' + (f'={leg["value"]["v"]}' if leg['value']['t'] == 'Enum' else '')}) + '\n')
                n += 1
        # ---- two legacy spellings of one target on the same instance around the explicit value (BasePart: BrickColor,
        #      brickColor -> Color, stored as Color3uint8): the explicit value wins in all six orders, in both formats
        import itertools
        for cls in ('Part', 'SpawnLocation'):
            explicit = {'t': 'Color3uint8', 'v': [0, 255, 0]}
            parts = {'BrickColor': ('BrickColor', {'t': 'BrickColor', 'v': 23}), 'brickColor': ('BrickColor', {'t': 'BrickColor', 'v': 21}), 'Color3uint8': ('Color3uint8', explicit)}
            expected = {'roots': [{'class': cls, 'name': 'n', 'props': {'Color': explicit}, 'children': []}]}
            for perm in itertools.permutations(['BrickColor', 'brickColor', 'Color3uint8']):
                order = '>'.join(perm)
                if 'xml' in fmts:
                    try:
                        elems = [xml_elem(nm, parts[nm][0], parts[nm][1], nm != 'Color3uint8') for nm in perm]
                        doc = (f'<roblox version="4"><Item class="{cls}" referent="RBX1"><Properties><string name="Name">n</string>' + ''.join(elems) + '</Properties></Item></roblox>')
                        out.write(json.dumps({'id': f'three.{cls}.xml.{order}', 'origin': {'label': 'two legacy spellings and the explicit value', 'order': order}, 'fmt': 'xml', 'text': doc,
                                              'expected': expected, 'tags': ['r-xml', 'three-spellings', order], 'sig': ':r-xml:three-spellings'}) + '\n')
                        n += 1
                    except (ValueError, KeyError):
                        pass
                if 'bin' in fmts:
                    try:
                        rng = random.Random(f'{seed}-three-{cls}-{order}')
                        props = {nm: to_wire_value(parts[nm][1], rng) for nm in perm}
                        model = refbin.model_from_dump({'roots': [{'class': cls, 'name': 'n', 'props': props, 'children': []}]}, rng, {'force': {'chunk_order': 'grouped'}})
                        idx = [i for i, c in enumerate(model['chunks']) if c['name'] == 'PROP' and c['body']['name'] in parts]
                        chunks = {model['chunks'][i]['body']['name']: model['chunks'][i] for i in idx}
                        for slot, nm in zip(sorted(idx), perm):
                            model['chunks'][slot] = chunks[nm]
                        data = refbin.encode(model, variant=ENC_VARIANT)
                        out.write(json.dumps({'id': f'three.{cls}.bin.{order}', 'origin': {'label': 'two legacy spellings and the explicit value', 'order': order}, 'fmt': 'bin', 'bytes_hex': data.hex(),
                                              'expected': expected, 'tags': ['r-bin', 'three-spellings', order], 'sig': ':r-bin:three-spellings'}) + '\n')
                        n += 1
                    except (refbin.RefError, KeyError):
                        pass
    return n


def run_make(args):
    return make(*args)
