"""C12: files that contain duplicate UniqueIds, produced without rbx-dom (refbin.py for binary,
plain text for XML), to be decoded by the real readers (`vh c12read`)."""
import json, os, random, sys
import sys as _sys
_sys.setrecursionlimit(20000)  # trees of the size scenarios are hundreds of levels deep

sys.path.insert(0, os.path.dirname(os.path.dirname(os.path.abspath(__file__))))
import refbin  # noqa: E402
from monitors.c04 import ENC_VARIANT  # noqa: E402

POOL = [{'index': 0, 'time': 0, 'random': 0}, {'index': 1, 'time': 2, 'random': 3}, {'index': 7, 'time': 7, 'random': 7},
        {'index': 4294967295, 'time': 1, 'random': 9223372036854775807}]


def uid_hex(u):
    return '%016x%08x%08x' % (u['random'] & 0xffffffffffffffff, u['time'], u['index'])


def make(files_path, seed, count):
    rng = random.Random(f'c12-{seed}')
    n = 0
    with open(files_path, 'w') as out:
        for i in range(count):
            k = rng.randrange(2, 6)
            ids = [rng.choice(POOL[: rng.randrange(1, 5)]) for _ in range(k)]
            dups = k - len({json.dumps(x, sort_keys=True) for x in ids})
            nested = rng.random() < 0.5
            # binary
            nodes = [{'class': 'Folder', 'name': f'f{j}', 'props': {'UniqueId': {'t': 'UniqueId', 'v': ids[j]}}, 'children': []} for j in range(k)]
            roots = nodes
            if nested:
                for j in range(k - 1, 0, -1):
                    nodes[j - 1]['children'].append(nodes[j])
                roots = [nodes[0]]
            model = refbin.model_from_dump({'roots': roots}, rng, {})
            data = refbin.encode(model, variant=ENC_VARIANT)
            out.write(json.dumps({'id': f'bin.{i}', 'fmt': 'bin', 'bytes_hex': data.hex(), 'duplicates': dups}) + '\n')
            # xml
            def item(j, inner=''):
                return (f'<Item class="Folder" referent="RBX{j}"><Properties><string name="Name">f{j}</string>'
                        f'<UniqueId name="UniqueId">{uid_hex(ids[j])}</UniqueId></Properties>{inner}</Item>')
            if nested:
                body = ''
                for j in range(k - 1, -1, -1):
                    body = item(j, body)
            else:
                body = ''.join(item(j) for j in range(k))
            out.write(json.dumps({'id': f'xml.{i}', 'fmt': 'xml', 'text': f'<roblox version="4">{body}</roblox>', 'duplicates': dups}) + '\n')
            n += 2
    return n
