"""C04 file generator: turns logical DOMs (canonical dumps emitted by `vh foreigngen`) into
spec-conformant binary files with the independent encoder refbin.py, varying every freedom the
document leaves open, plus the documented skip / widening cases. The files are then decoded by
the real reader (`vh readcmp`) and compared with `expected`."""
import copy, hashlib, itertools, json, os, random, struct, sys
sys.setrecursionlimit(20000)  # trees of the size scenarios are hundreds of levels deep

sys.path.insert(0, os.path.dirname(os.path.dirname(os.path.abspath(__file__))))
import refbin, refattr  # noqa: E402

# errata resolutions (DESIGN.md 2.4): E1 UniqueId layout, E2 Content SourceTypes
ENC_VARIANT = {'uniqueid': 'interleaved_be_rotated', 'content_sourcetypes': 'zigzag'}

STRINGLIKE = {'String', 'BinaryString', 'ContentId', 'Tags', 'Attributes', 'MaterialColors', 'BinaryString@Attributes'}


def attrs_for_encoder(a):
    out = {}
    for k, v in a.items():
        if v['t'] == 'BinaryString':
            out[k] = {'t': 'String', 'v': v['v']}
        elif v['t'] == 'String':
            out[k] = {'t': 'String', 'v': v['v'].encode('utf-8').hex()}
        else:
            out[k] = v
    return out


def to_wire_value(v, rng):
    t, p = v['t'], v['v']
    if t in ('String', 'ContentId'):
        return {'t': 'String', 'v': p.encode('utf-8').hex()}
    if t in ('BinaryString', 'MaterialColors'):
        return {'t': 'String', 'v': p}
    if t == 'Tags':
        return {'t': 'String', 'v': '\0'.join(p).encode('utf-8').hex()}
    if t in ('Attributes', 'BinaryString@Attributes'):
        return {'t': 'String', 'v': refattr.encode(attrs_for_encoder(p), rng).hex()}
    if t == 'ColorSequence':
        return {'t': t, 'v': [k + ['00000000'] for k in p]}
    return {'t': t, 'v': copy.deepcopy(p)}


def f32_exact(h64):
    x = struct.unpack('<d', bytes.fromhex(h64)[::-1])[0]
    if x != x:
        return None  # NaN payloads do not survive f32->f64 widening rules portably
    try:
        y = struct.unpack('<f', struct.pack('<f', x))[0]
    except OverflowError:
        return None
    if y == x and (x != 0 or struct.pack('<d', x) == struct.pack('<d', float(y))):
        return struct.pack('>f', x).hex()
    return None


def walk(dump):
    stack = [(n, (i,)) for i, n in enumerate(dump['roots'])]
    while stack:
        n, path = stack.pop()
        yield n, path
        for i, c in enumerate(n['children']):
            stack.append((c, path + (i,)))


def homogenise(L, rng):
    """Every instance of a class must carry the same columns in a binary file: fill the gaps by
    copying another instance's value (fresh UniqueIds), so the filled value is part of `expected`."""
    L = copy.deepcopy(L)
    by_class = {}
    for n, _ in walk(L):
        by_class.setdefault(n['class'], []).append(n)
    used_uid = set()
    for n, _ in walk(L):
        for v in n['props'].values():
            if v['t'] == 'UniqueId':
                used_uid.add(json.dumps(v['v'], sort_keys=True))
    for cls, nodes in by_class.items():
        union = {}
        for n in nodes:
            for k, v in n['props'].items():
                union.setdefault(k, v)
        for n in nodes:
            for k, v in union.items():
                if k not in n['props']:
                    nv = copy.deepcopy(v)
                    if nv['t'] == 'UniqueId':
                        while True:
                            nv['v'] = {'index': rng.randrange(1 << 32), 'time': rng.randrange(1 << 32), 'random': rng.randrange(1 << 62)}
                            key = json.dumps(nv['v'], sort_keys=True)
                            if key not in used_uid:
                                used_uid.add(key)
                                break
                    n['props'][k] = nv
    return L


def build_file(L, wire, services, rng, force=None):
    """returns (bytes, expected dump, tags)"""
    tags = []
    expected = homogenise(L, rng)
    by_class = {}
    for n, _ in walk(expected):
        by_class.setdefault(n['class'], []).append(n)
    # decide per (class, column) whether a legacy narrower numeric type is used on the wire
    narrow = {}
    for cls, nodes in by_class.items():
        wmap = wire.get(cls, {})
        for k, v in nodes[0]['props'].items():
            if k not in wmap:
                continue
            declared = wmap[k][2] if len(wmap[k]) > 2 else None
            if v['t'] == 'Int64' and declared == 'Int64' and rng.random() < 0.5:
                if all(-2**31 <= n['props'][k]['v'] < 2**31 for n in nodes):
                    narrow[(cls, k)] = 'Int32'
            if v['t'] == 'Float64' and declared == 'Float64' and rng.random() < 0.5:
                if all(f32_exact(n['props'][k]['v']) is not None for n in nodes):
                    narrow[(cls, k)] = 'Float32'
    if narrow:
        tags.append('narrow-numeric')
        for (cls, k), t in narrow.items():
            tags.append('narrow.' + t)
    W = {'roots': []}

    def conv(n):
        cls = n['class']
        wmap = wire.get(cls, {})
        props = {}
        for k, v in n['props'].items():
            wn = wmap[k][0] if k in wmap else k
            nt = narrow.get((cls, k))
            if nt == 'Int32':
                props[wn] = {'t': 'Int32', 'v': v['v']}
            elif nt == 'Float32':
                props[wn] = {'t': 'Float32', 'v': f32_exact(v['v'])}
            else:
                props[wn] = to_wire_value(v, rng)
        return {'class': cls, 'name': n['name'], 'props': props, 'children': [conv(c) for c in n['children']]}

    W['roots'] = [conv(r) for r in expected['roots']]
    opts = {'services': services, 'force': dict(force or {})}
    model = refbin.model_from_dump(W, rng, opts)
    # documented skips: a PROP chunk that ends after its name, and one with an unknown value type id
    insts = [c for c in model['chunks'] if c['name'] == 'INST']
    if insts and rng.random() < 0.5:
        inst = rng.choice(insts)
        pos = model['chunks'].index(inst) + 1
        end = len(model['chunks']) - 2  # before PRNT
        at = rng.randrange(pos, max(pos + 1, end))
        kind = rng.choice(['no-type-byte', 'unknown-type-id'])
        body = {'class_id': inst['body']['class_id'], 'name': 'ZzSkipped' + kind[:2], 'type_id': None, 'values': None, 'trailing': 0}
        if kind == 'unknown-type-id':
            body['type_id'] = rng.choice([0x0f, 0x11, 0x1d, 0x23, 0x7f, 0xff])
            body['raw_values'] = bytes(rng.randrange(256) for _ in range(rng.randrange(0, 40))).hex()
        model['chunks'].insert(at, {'name': 'PROP', 'compression': rng.choice(['none', 'lz4', 'zstd']), 'compressed_len': 0, 'len': 0, 'reserved': 0, 'body': body})
        tags.append('skip.' + kind)
    # a class that the file declares but that has NO instances (the document sets no minimum), with PROP chunks of its own
    # that carry zero values: nothing of it may reach the DOM, and nothing else may be disturbed
    if rng.random() < 0.15:
        used = {c['body'].get('class_id') for c in model['chunks'] if c['name'] in ('INST', 'PROP')}
        cid = next(i for i in itertools.count(rng.choice([0, 1, 7, 1000])) if i not in used)
        cname = rng.choice(['Folder', 'Part', 'ZzEmptyClass', 'Workspace'])
        if all(c['body'].get('class_name') != cname for c in model['chunks'] if c['name'] == 'INST'):
            first_prnt = next(i for i, c in enumerate(model['chunks']) if c['name'] == 'PRNT')
            first_inst = next(i for i, c in enumerate(model['chunks']) if c['name'] == 'INST')
            at = rng.randrange(first_inst, first_prnt + 1)
            new = [{'name': 'INST', 'compression': rng.choice(['none', 'lz4', 'zstd']), 'compressed_len': 0, 'len': 0, 'reserved': 0,
                    'body': {'class_id': cid, 'class_name': cname, 'format': 0, 'referents': [], 'markers': None}}]
            for pn, tid in (('Name', 1), ('Anchored', 2), ('ZzCount', 3))[:rng.randrange(0, 4)]:
                new.append({'name': 'PROP', 'compression': rng.choice(['none', 'lz4', 'zstd']), 'compressed_len': 0, 'len': 0, 'reserved': 0,
                            'body': {'class_id': cid, 'name': pn, 'type_id': tid, 'values': [], 'trailing': 0}})
            model['chunks'][at:at] = new
            model['num_classes'] += 1
            tags.append('empty-class')
    # payloads that LOOK compressed but are stored uncompressed (compressed length 0: the magic test does not apply):
    # a class id whose little-endian bytes are the Zstandard magic number, and an unknown chunk that carries a Zstandard
    # frame of its own as opaque data
    if rng.random() < 0.1 and insts:
        inst = rng.choice(insts)
        old_id, magic_id = inst['body']['class_id'], 0xFD2FB528
        if all(c['body'].get('class_id') != magic_id for c in model['chunks'] if c['name'] in ('INST', 'PROP')):
            for c in model['chunks']:
                if c['name'] in ('INST', 'PROP') and c['body'].get('class_id') == old_id:
                    c['body']['class_id'] = magic_id
                    c['compression'] = 'none'
            tags.append('class-id-is-zstd-magic')
    if rng.random() < 0.1:
        blob = refbin._compress('zstd', bytes(rng.randrange(256) for _ in range(rng.randrange(1, 60))))
        model['chunks'].insert(rng.randrange(0, len(model['chunks']) - 1),
                               {'name': 'ZsBl', 'compression': 'none', 'compressed_len': 0, 'len': 0, 'reserved': 0, 'body': {'raw': blob.hex()}})
        tags.append('unknown-chunk-holds-zstd-frame')
    for ch in model['chunks']:
        if ch['compression'] == 'zstd' and rng.random() < 0.5:
            # a frame without the optional content-size field (streaming encoders)
            ch['zstd_form'] = 'nosize'
            tags.append('comp.zstd.no-content-size')
        tags.append('comp.' + ch['compression'])
        if ch['name'] not in ('META', 'SSTR', 'INST', 'PROP', 'PRNT', 'END\0'):
            tags.append('unknown-chunk')
        if ch['name'] == 'META':
            tags.append('meta')
        if ch['name'] == 'INST' and ch['body']['format'] == 1:
            tags.append('service-inst')
    # forward references: a Ref / Content PROP chunk placed before the INST chunk that declares the target
    inst_pos = {}
    for pos, ch in enumerate(model['chunks']):
        if ch['name'] == 'INST':
            for r in ch['body']['referents']:
                inst_pos[r] = pos
    for pos, ch in enumerate(model['chunks']):
        if ch['name'] == 'PROP' and ch['body'].get('values'):
            for wv in ch['body']['values']:
                tgt = None
                if wv['t'] == 'Ref':
                    tgt = wv['v']
                elif wv['t'] == 'Content' and wv['v'].get('k') == 'Object':
                    tgt = wv['v'].get('ref')
                if tgt is not None and tgt >= 0 and inst_pos.get(tgt, -1) > pos:
                    tags.append('forward-ref')
    data = refbin.encode(model, variant=ENC_VARIANT)
    return data, expected, sorted(set(tags))


def make_files(cases_path, files_path, seed, variants=2):
    n = 0
    with open(files_path, 'w') as out:
        for line in open(cases_path):
            rec = json.loads(line)
            if rec.get('kind') != 'logical':
                continue
            for k in range(variants):
                rng = random.Random(f'{seed}-{rec["index"]}-{k}')
                try:
                    data, expected, tags = build_file(rec['logical'], rec['wire'], rec.get('services', []), rng)
                except refbin.RefError as e:
                    # the reference encoder cannot express this DOM (e.g. non-UTF-8 where the document demands UTF-8): not a case
                    continue
                out.write(json.dumps({'id': f'{rec["index"]}.{k}', 'origin': {'cmd': 'c04', 'seed': rec['seed'], 'index': rec['index'], 'variant': k},
                                      'fmt': 'bin', 'bytes_hex': data.hex(), 'expected': expected, 'tags': tags,
                                      'sig_ref': ':forward-ref' if 'forward-ref' in tags else ''}) + '\n')
                n += 1
    return n


def make_widen_files(list_path, files_path, seed):
    """One file per Int64/Float64 descriptor of the database with the value stored in the narrower
    wire type (exhaustive over the database)."""
    items = json.load(open(list_path))
    n = 0
    with open(files_path, 'w') as out:
        for it in items:
            rng = random.Random(f'{seed}-widen-{it["class"]}-{it["back"]}')
            vals = []
            for _ in range(3):
                if it['declared'] == 'Int64':
                    v = rng.choice([0, 1, -1, 2**31 - 1, -2**31, rng.randrange(-2**31, 2**31)])
                    vals.append(({'t': 'Int32', 'v': v}, {'t': 'Int64', 'v': v}))
                else:
                    f = struct.unpack('<f', struct.pack('<I', rng.choice([0, 0x80000000, 0x3f800000, 0x7f7fffff, 0x00000001, 0x7f800000, 0xff800000, rng.randrange(0, 0x7f800000)])))[0]
                    vals.append(({'t': 'Float32', 'v': struct.pack('>f', f).hex()}, {'t': 'Float64', 'v': struct.pack('>d', f).hex()}))
            W = {'roots': [{'class': it['class'], 'name': f'n{i}', 'props': {it['wire']: w}, 'children': []} for i, (w, _) in enumerate(vals)]}
            E = {'roots': [{'class': it['class'], 'name': f'n{i}', 'props': {it['back']: e}, 'children': []} for i, (_, e) in enumerate(vals)]}
            try:
                model = refbin.model_from_dump(W, rng, {})
                data = refbin.encode(model, variant=ENC_VARIANT)
            except refbin.RefError:
                continue
            out.write(json.dumps({'id': f'widen.{it["class"]}.{it["back"]}', 'origin': {'widen': it}, 'fmt': 'bin', 'bytes_hex': data.hex(),
                                  'expected': E, 'tags': ['widen.' + it['declared']], 'sig': ':widen-' + it['declared']}) + '\n')
            n += 1
    return n


def studio_files(files_path):
    """The four Studio-written files: expected = what the reference decoder reads, canonicalised by
    the harness is not possible here (names/types are wire level), so they are checked for
    acceptance and instance count only."""
    n = 0
    base = '/repo/rbx_binary/benches/files'
    with open(files_path, 'w') as out:
        for name in sorted(os.listdir(base)) if os.path.isdir(base) else []:
            p = os.path.join(base, name)
            if not name.endswith('.rbxm') or os.path.getsize(p) == 0:
                continue
            data = open(p, 'rb').read()
            out.write(json.dumps({'id': 'studio.' + name, 'fmt': 'bin', 'bytes_hex': data.hex()}) + '\n')
            n += 1
    return n


def run_make(args):
    cases_path, files_path, seed = args
    return make_files(cases_path, files_path, seed)


# ---------------------------------------------------------------- Studio-written anchor files

def _studio_expected(model, wiremap):
    """Interpret a Studio-written file with the document (refbin) and the database facts (wiremap)
    into the canonical dump the reader should produce, for the properties whose interpretation is
    unambiguous; everything else is left out (subset comparison)."""
    wd = refbin.dump_from_model(model, dangling='null')
    skipped = {}

    def conv(cls, wname, wv):
        info = wiremap.get((cls, wname), {'status': 'unknown'})
        st = info['status']
        t, p = wv['t'], wv['v']
        if st in ('noserialize', 'migrate', 'unknown-kind'):
            skipped[st] = skipped.get(st, 0) + 1
            return None
        if st == 'unknown':
            back, declared = wname, None
        else:
            back, declared = info['back'], info['declared']
        if t == 'String':
            raw = bytes.fromhex(p)
            if declared in (None, 'BinaryString'):
                return back, {'t': 'BinaryString', 'v': p}
            if declared in ('String', 'ContentId'):
                try:
                    return back, {'t': declared, 'v': raw.decode('utf-8')}
                except UnicodeDecodeError:
                    skipped['non-utf8-string'] = skipped.get('non-utf8-string', 0) + 1
                    return None
            if declared == 'Tags':
                try:
                    return back, {'t': 'Tags', 'v': [x.decode('utf-8') for x in raw.split(b'\0') if x]}
                except UnicodeDecodeError:
                    return None
            if declared == 'Attributes':
                try:
                    a = refattr.decode(raw)
                except refattr.RefError:
                    return None
                norm = {k: ({'t': 'BinaryString', 'v': v['v']} if v['t'] == 'String' else v) for k, v in a.items()}
                return back, {'t': 'Attributes', 'v': norm}
            if declared == 'MaterialColors' and len(raw) == 69:
                return back, {'t': 'MaterialColors', 'v': (b'\0' * 6 + raw[6:]).hex()}
            skipped['string-as-' + str(declared)] = skipped.get('string-as-' + str(declared), 0) + 1
            return None
        if t == 'BrickColor':
            return back, {'t': 'BrickColor', 'v': p & 0xffff} if p <= 0xffff else None
        if t == 'ColorSequence':
            return back, {'t': t, 'v': [k[:4] for k in p]}
        if t == 'Int32' and declared == 'Int64':
            return back, {'t': 'Int64', 'v': p}
        if t == 'Float32' and declared == 'Float64':
            x = struct.unpack('>f', bytes.fromhex(p))[0]
            return back, {'t': 'Float64', 'v': struct.pack('>d', x).hex()}
        if t == 'Font' and not p.get('cached'):
            p = dict(p, cached=None)
        if declared is not None and declared != t and not (t == 'Color3uint8' and declared == 'Color3') and not (t == 'Enum' and declared == 'Enum'):
            skipped[f'{t}-as-{declared}'] = skipped.get(f'{t}-as-{declared}', 0) + 1
            return None
        return back, {'t': t, 'v': p}

    def node(n):
        props = {}
        for wname, wv in n['props'].items():
            r = conv(n['class'], wname, wv)
            if r and r[1] is not None:
                props[r[0]] = r[1]
        return {'class': n['class'], 'name': n['name'], 'props': props, 'children': [node(c) for c in n['children']]}

    return {'roots': [node(r) for r in wd['roots']]}, skipped


def studio_cases(files_path, wiremap_cmd):
    """wiremap_cmd(pairs) -> list of dicts. Writes readcmp records for the Studio-written files."""
    base = '/repo/rbx_binary/benches/files'
    n = 0
    info = {}
    with open(files_path, 'w') as out:
        for name in sorted(os.listdir(base)) if os.path.isdir(base) else []:
            p = os.path.join(base, name)
            if not name.endswith('.rbxm') or os.path.getsize(p) == 0:
                continue
            data = open(p, 'rb').read()
            try:
                model = refbin.decode(data, variant={'uniqueid': 'interleaved_be_rotated'})
            except refbin.RefError:
                model = refbin.decode(data, variant={'uniqueid': 'interleaved_be_rotated', 'content_sourcetypes': 'zigzag'})
            classes = {c['body']['class_id']: c['body']['class_name'] for c in model['chunks'] if c['name'] == 'INST'}
            pairs = sorted({(classes[c['body']['class_id']], c['body']['name']) for c in model['chunks'] if c['name'] == 'PROP' and c['body']['name'] != 'Name'})
            wm = {(r['class'], r['wire']): r for r in wiremap_cmd([list(x) for x in pairs])}
            expected, skipped = _studio_expected(model, wm)
            sys.setrecursionlimit(100000)
            nprops = sum(len(nd['props']) for nd, _ in walk(expected))
            info[name] = {'bytes': len(data), 'instances': sum(1 for _ in walk(expected)), 'property_values_compared': nprops, 'not_interpreted': skipped}
            out.write(json.dumps({'id': 'studio.' + name, 'origin': {'studio_file': name}, 'fmt': 'bin', 'bytes_hex': data.hex(), 'expected': expected,
                                  'subset': True, 'tags': ['studio-file'], 'sig': ':studio-file'}) + '\n')
            n += 1
    return n, info
