"""C03 monitor: every binary file recorded in a C01 case log is decoded by the independent
reference decoder (refbin.py, written from docs/binary.md) and checked structurally and by value
against the statement-derived expected dump. No rbx_binary code is involved."""
import hashlib, json, os, sys
sys.setrecursionlimit(20000)  # trees of the size scenarios are hundreds of levels deep

sys.path.insert(0, os.path.dirname(os.path.dirname(os.path.abspath(__file__))))
import refbin, refattr  # noqa: E402

# Resolution of documented spec errata (DESIGN.md section 2.4): E1 UniqueId byte layout.
BASE_VARIANT = {'uniqueid': 'interleaved_be_rotated'}

STRINGLIKE = {'String', 'BinaryString', 'ContentId', 'Tags', 'Attributes', 'MaterialColors', 'BinaryString@Attributes'}


def wire_type_for(t):
    return 'String' if t in STRINGLIKE else t


def attrs_equiv(exp, got):
    """exp: canon Attributes payload (String already normalised to BinaryString by the oracle);
    got: refattr.decode output (String values as {"t":"String","v":hex})."""
    if set(exp) != set(got):
        return False
    for k, ev in exp.items():
        gv = got[k]
        et, gt = ev['t'], gv['t']
        if et in ('BinaryString', 'String') and gt == 'String':
            evv = ev['v'] if et == 'BinaryString' else ev['v'].encode('utf-8').hex()
            if evv != gv['v']:
                return False
        elif et != gt or ev['v'] != gv['v']:
            return False
    return True


def value_equiv(ev, wv, stats):
    """ev: expected canon value, wv: wire value from refbin.dump_from_model."""
    et, wt = ev['t'], wv['t']
    if wire_type_for(et) != wt:
        return f'wire type {wt}, expected {wire_type_for(et)}'
    v, w = ev['v'], wv['v']
    if et == 'String' or et == 'ContentId':
        ok = v.encode('utf-8').hex() == w
    elif et == 'BinaryString' or et == 'MaterialColors':
        ok = v == w
    elif et == 'Tags':
        ok = '\0'.join(v).encode('utf-8').hex() == w
    elif et in ('Attributes', 'BinaryString@Attributes'):
        try:
            got = refattr.decode(bytes.fromhex(w))
        except refattr.RefError as e:
            return f'attribute blob rejected by the reference decoder: {e}'
        ok = attrs_equiv(v, got)
        stats['attr_blobs'] = stats.get('attr_blobs', 0) + 1
    elif et == 'ColorSequence':
        ok = len(v) == len(w) and all(a == b[:4] for a, b in zip(v, w))
    elif et == 'Font':
        ok = (v['family'], v['weight'], v['style'], v['cached'] or None) == (w['family'], w['weight'], w['style'], w['cached'] or None)
    else:
        ok = v == w
    return None if ok else f'value differs: expected {json.dumps(ev)[:300]} wire {json.dumps(wv)[:300]}'


def check_file(rec, stats):
    """Returns list of (sig, what)."""
    out = []
    data = bytes.fromhex(rec['bytes_hex'])
    variant = dict(BASE_VARIANT)
    try:
        model = refbin.decode(data, variant=variant)
    except refbin.RefError as e1:
        err = e1
        model = None
        if 'SourceType' in str(e1) or 'Content' in str(e1):
            # E2: Content SourceTypes are documented as Array(Enum) but may be written zig-zag transformed
            try:
                variant['content_sourcetypes'] = 'zigzag'
                model = refbin.decode(data, variant=variant)
                stats['errata.E2_content_sourcetypes_zigzag_files'] = stats.get('errata.E2_content_sourcetypes_zigzag_files', 0) + 1
            except refbin.RefError as e2:
                err = e2
        if model is None:
            msg = str(err)
            # drop chunk numbers / counts so the signature names the rule, class and property only
            key = msg.split(': ', 1)[1] if msg.startswith('chunk #') and ': ' in msg else msg
            if 'appears more than once' not in key:
                import re
                key = re.sub(r'PROP \S+ ', 'PROP ', key)
            key = ''.join(c for c in key[:80] if not c.isdigit())
            return [(f'C03:reference-decoder-rejects:{key}', f'independent spec decoder rejects the file: {msg}')]
    # ---- structural monitor (beyond what the strict decoder already enforces) ----
    insts = {}
    inst_chunks = 0
    class_names = set()
    sstr = []
    prnt = None
    for ch in model['chunks']:
        stats['chunk.' + ch['name'].rstrip('\0') + '.' + ch['compression']] = stats.get('chunk.' + ch['name'].rstrip('\0') + '.' + ch['compression'], 0) + 1
        b = ch['body']
        if ch['name'] == 'INST':
            inst_chunks += 1
            if b['class_name'] in class_names:
                out.append(('C03:struct:duplicate-inst-chunk', f'two INST chunks for class {b["class_name"]}'))
            class_names.add(b['class_name'])
            insts[b['class_id']] = b
        elif ch['name'] == 'PROP':
            if b['values'] is None:
                out.append(('C03:struct:undecodable-prop', f'PROP {b["name"]} has type id {b["type_id"]} unknown to the document'))
            elif b['trailing'] != 0:
                out.append((f'C03:struct:prop-trailing-bytes', f'PROP {b["name"]} (type {b["type_id"]}) leaves {b["trailing"]} unconsumed bytes'))
            elif len(b['values']) != len(insts[b['class_id']]['referents']):
                out.append(('C03:struct:prop-count', f'PROP {b["name"]} carries {len(b["values"])} values for {len(insts[b["class_id"]]["referents"])} instances'))
            if b['values']:
                stats['wire.' + b['values'][0]['t']] = stats.get('wire.' + b['values'][0]['t'], 0) + len(b['values'])
        elif ch['name'] == 'SSTR':
            sstr = [s['data'] for s in b['strings']]
        elif ch['name'] == 'PRNT':
            prnt = b
        if ch['reserved'] != 0:
            out.append(('C03:struct:reserved-nonzero', f'chunk {ch["name"]} reserved field {ch["reserved"]}'))
    if len(set(sstr)) != len(sstr):
        out.append(('C03:struct:sstr-duplicate', 'SSTR stores the same content more than once'))
    if model['num_classes'] != inst_chunks:
        out.append(('C03:struct:header-class-count', f'header says {model["num_classes"]} classes, file has {inst_chunks} INST chunks'))
    if prnt is None:
        out.append(('C03:struct:no-prnt', 'no PRNT chunk'))
    else:
        seen = set()
        for c, p in zip(prnt['children'], prnt['parents']):
            if p != -1 and p in seen:
                out.append(('C03:struct:prnt-order', f'PRNT lists parent {p} before its child {c}'))
                break
            seen.add(c)
        if len(set(prnt['children'])) != len(prnt['children']):
            out.append(('C03:struct:prnt-duplicate', 'an instance appears twice as PRNT child'))
    last = model['chunks'][-1]
    if last['name'] != 'END\0' or last['compression'] != 'none' or last['body'].get('payload') != b'</roblox>'.hex():
        out.append(('C03:struct:end-chunk', 'last chunk is not an uncompressed END holding </roblox>'))
    if out:
        return out
    # ---- values ----
    try:
        wdump = refbin.dump_from_model(model, dangling='error')
    except refbin.RefError as e:
        return [('C03:struct:dangling-referent', f'{e}')]
    exp = rec['expected']
    wire = rec.get('wire', {})
    carried = rec.get('carried', {})

    def node(e, w, path):
        if e['class'] != w['class']:
            return (f'C03:value:class', f'{path}: class {w["class"]!r} expected {e["class"]!r}')
        if e['name'] != w['name']:
            return (f'C03:value:name', f'{path}: name {w["name"]!r} expected {e["name"]!r}')
        cls = e['class']
        wmap = wire.get(cls, {})
        used = set()
        for back, ev in e['props'].items():
            wn = wmap.get(back, [back])[0]
            used.add(wn)
            if wn not in w['props']:
                return (f'C03:value:missing:{wire_type_for(ev["t"])}', f'{path}: {cls}.{back} expected under wire name {wn!r}, file has {sorted(w["props"])[:12]}')
            r = value_equiv(ev, w['props'][wn], stats)
            stats['compared.' + ev['t']] = stats.get('compared.' + ev['t'], 0) + 1
            if r:
                return (f'C03:value:{ev["t"]}', f'{path}: {cls}.{back} (wire {wn}): {r}')
        allowed = {wmap.get(b, [b])[0] for b in carried.get(cls, [])}
        for wn in w['props']:
            if wn not in used and wn not in allowed:
                return ('C03:value:unexpected-column', f'{path}: {cls} has column {wn!r} that no written instance of the class carried')
        if len(e['children']) != len(w['children']):
            return ('C03:value:child-count', f'{path}: {len(w["children"])} children, expected {len(e["children"])}')
        for i, (ce, cw) in enumerate(zip(e['children'], w['children'])):
            r = node(ce, cw, f'{path}/{i}')
            if r:
                return r
        return None

    if len(exp['roots']) != len(wdump['roots']):
        return [('C03:value:root-count', f'{len(wdump["roots"])} roots, expected {len(exp["roots"])}')]
    for i, (e, w) in enumerate(zip(exp['roots'], wdump['roots'])):
        r = node(e, w, f'/{i}')
        if r:
            return [r]
    return []


def run(caselog):
    sys.setrecursionlimit(20000)
    stats = {}
    viol = {}
    n = 0
    digests = set()
    samples = []
    for line in open(caselog):
        rec = json.loads(line)
        if rec.get('kind') != 'case':
            continue
        n += 1
        try:
            res = check_file(rec, stats)
        except RecursionError:
            stats['skipped.recursion'] = stats.get('skipped.recursion', 0) + 1
            continue
        ninst = json.dumps(rec['expected']).count('"class"')
        if ninst >= 2:
            digests.add(hashlib.sha1(rec['bytes_hex'].encode()).hexdigest()[:16])
        if len(samples) < 2:
            samples.append({'seed': rec['seed'], 'index': rec['index'], 'variant': rec['variant'], 'file_bytes': len(rec['bytes_hex']) // 2, 'instances': ninst})
        for sig, what in res:
            v = viol.setdefault(sig, {'sig': sig, 'what': what, 'count': 0,
                                      'replay': {'cmd': 'c01', 'seed': rec['seed'], 'index': rec['index']},
                                      'detail': {'variant': rec['variant'], 'monitor': 'lib/monitors/c03.py'}})
            v['count'] += 1
    return {'prop': 'C03', 'evaluations': n, 'digests': sorted(digests), 'coverage': stats, 'samples': samples,
            'violations': list(viol.values()), 'notes': [], 'extra': {}}


if __name__ == '__main__':
    print(json.dumps(run(sys.argv[1]))[:3000])
