#!/usr/bin/env python3
"""keep_seed.py <ID> <name> --caught C01,C03 [--silent C05] [--note text]: file a confirmed sub-agent change under /verif/seeded/<name>/"""
import json, os, shutil, sys
id_, name = sys.argv[1], sys.argv[2]
args = sys.argv[3:]
def opt(k):
    return args[args.index(k) + 1] if k in args else ''
src = opt('--src') or f'/tmp/seed/{id_}.out'
dst = f'/verif/seeded/{name}'
os.makedirs(dst, exist_ok=True)
for f in ('patch.diff', 'demo.rs', 'RUN.md'):
    if os.path.exists(os.path.join(src, f)):
        shutil.copy2(os.path.join(src, f), os.path.join(dst, f))
meta = json.load(open(os.path.join(src, 'meta.json'))) if os.path.exists(os.path.join(src, 'meta.json')) else {}
meta.update({
    'property': id_,
    'origin': 'independent sub-agent given only the property text and a scratch worktree',
    'confirmed': 'scripts/confirm_seed.sh: patch applies, workspace compiles, 177/177 baseline tests pass with the patch, demo passes without and fails with the patch',
    'checks_run': 'scripts/try_mutant.sh (quick tier, seed 1, scratch worktree via VERIF_REPO)',
    'caught_by': [x for x in opt('--caught').split(',') if x],
    'silent_as_expected': [x for x in opt('--silent').split(',') if x],
    'note': opt('--note'),
})
json.dump(meta, open(os.path.join(dst, 'meta.json'), 'w'), indent=1)
print('kept', dst)
