#!/usr/bin/env python3
"""Regenerate MANIFEST.json from lib/driver/plans.py metadata; validates against the schema."""
import json, os, subprocess, sys
VERIF = os.path.dirname(os.path.dirname(os.path.abspath(__file__)))
sys.path.insert(0, os.path.join(VERIF, 'lib'))
from driver import plans
props = [json.loads(l) for l in open(os.path.join(VERIF, 'properties.jsonl'))]
hooks_commits = []
try:
    out = subprocess.run(['git', '-C', '/repo', 'log', '--format=%H %s'], stdout=subprocess.PIPE, text=True).stdout
    hooks_commits = [l.split()[0] for l in out.splitlines() if l.split(' ', 1)[1].startswith('verif hook')]
except Exception:
    pass
checks, na = [], []
for p in props:
    pid = p['id']
    pl = plans.PLANS.get(pid)
    if not pl or pl.get('unclaimed'):
        na.append({'property_id': pid, 'reason': (pl or {}).get('unclaimed', 'check not built yet (work in progress, see DESIGN.md section 9)')})
        continue
    c = {
        'property_id': pid,
        'quick_cmd': f'./check {pid} --tier quick',
        'thorough_cmd': f'./check {pid} --tier thorough',
        'evidence_file': f'/verif/evidence/{pid}.json',
        'replay_cmd_template': './check --replay {path}',
        'engine': 'vh',
        'level_claimed': {'category': pl['level'], 'text': pl['claim'], 'design_ref': pl.get('design_ref', f'DESIGN.md section 4, {pid}')},
        'level_note': pl['note'],
        'technique': pl['technique'],
    }
    checks.append(c)
m = {
    'version': 1,
    'setup_cmd': './check --build',
    'hooks': {
        'guard': 'rbx_dom_verif',
        'enable': 'RUSTFLAGS="--cfg rbx_dom_verif" (set by ./check for every harness build; /repo sources are compiled as path dependencies of /verif/harness)',
        'baseline_off_cmd': 'python3 /verif/scripts/baseline.py',
        'source_commits': hooks_commits,
        'add_only': True,
    },
    'engines': [
        {'name': 'vh', 'path': '/verif/harness', 'serves_properties': [c['property_id'] for c in checks],
         'kind_free_text': 'Rust harness linking the real crates from /repo: generators, statement-derived oracles, reference model, workers; driven by /verif/check (python3) which shards runs, runs the Python monitors over the case logs, matches known findings and writes evidence'},
        {'name': 'refcodecs', 'path': '/verif/lib', 'serves_properties': ['C03', 'C04', 'C05', 'C14', 'C15'],
         'kind_free_text': 'independent Python reference codecs written from docs/*.md only (refbin.py, refxml.py, refattr.py) used by offline monitors over recorded outputs and as foreign-file generators'},
    ],
    'checks': checks,
    'not_applicable': na,
    'notes': 'Technique family: runtime monitoring and sanitizers. Known findings: /verif/known_findings.jsonl. Design: /verif/DESIGN.md.',
}
json.dump(m, open(os.path.join(VERIF, 'MANIFEST.json'), 'w'), indent=1)
try:
    import jsonschema
    jsonschema.validate(m, json.load(open('/root/.vp/MANIFEST.schema.json')))
    print('MANIFEST.json valid;', len(checks), 'checks,', len(na), 'not_applicable')
except ImportError:
    print('jsonschema not available in this python; wrote MANIFEST.json unvalidated')
