#!/bin/bash
# usage: confirm_seed.sh <ID> [outdir]   -- confirms a sub-agent's seeded change in a fresh scratch worktree:
#   patch applies, workspace compiles, the 177 baseline tests still pass, demo fails with / passes without the patch.
set -u
id=$1; out=${2:-/tmp/seed/$id.out}
wt=/tmp/vconf/$id
mkdir -p /tmp/vconf
git -C /repo worktree remove --force "$wt" >/dev/null 2>&1
git -C /repo worktree add --detach "$wt" HEAD >/dev/null 2>&1 || exit 2
crate=$(grep -oE "cargo test -p [a-z_]+" "$out/RUN.md" | head -1 | awk '{print $4}')
[ -z "$crate" ] && crate=$(grep -oE "\-p [a-z_]+" "$out/RUN.md" | head -1 | awk '{print $2}')
mkdir -p "$wt/$crate/tests"; cp "$out/demo.rs" "$wt/$crate/tests/demo.rs"
cd "$wt"
export CARGO_NET_OFFLINE=true
cargo test -p "$crate" --test demo --offline > /tmp/vconf/$id.demo_without.txt 2>&1; rc_without=$?
git apply "$out/patch.diff" || { echo "$id: PATCH DOES NOT APPLY"; exit 2; }
cargo test -p "$crate" --test demo --offline > /tmp/vconf/$id.demo_with.txt 2>&1; rc_with=$?
rm -f "$wt/$crate/tests/demo.rs"
REPO_DIR="$wt" python3 /verif/scripts/baseline.py > /tmp/vconf/$id.baseline.txt 2>&1; rc_base=$?
echo "$id: crate=$crate demo_without_patch_rc=$rc_without demo_with_patch_rc=$rc_with baseline_rc=$rc_base ($(head -1 /tmp/vconf/$id.baseline.txt))"
cd /; git -C /repo worktree remove --force "$wt" >/dev/null 2>&1
[ $rc_without -eq 0 ] && [ $rc_with -ne 0 ] && [ $rc_base -eq 0 ]
