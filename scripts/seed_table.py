#!/usr/bin/env python3
"""seed_table.py: regenerate the seeded-change table of DESIGN.md section 10.6 from /verif/seeded/*/meta.json (between the markers)."""
import json, os, re
base = '/verif/seeded'
rows = ['| seeded change (dir under /verif/seeded) | what it needs to manifest | caught by | silent, correctly | status |', '|---|---|---|---|---|']
for name in sorted(os.listdir(base)):
    mp = f'{base}/{name}/meta.json'
    if not os.path.exists(mp):
        continue
    m = json.load(open(mp))
    needs = (m.get('needs') or m.get('trigger') or m.get('summary') or '').replace('|', '/').replace('\n', ' ')[:170]
    note = m.get('note', '')
    status = 'missed first, check strengthened' if 'MISSED' in note else 'caught'
    rows.append(f"| {name} | {needs} | {', '.join(m.get('caught_by', [])) or '-'} | {', '.join(m.get('silent_as_expected', [])) or '-'} | {status} |")
p = '/verif/DESIGN.md'
s = open(p).read()
a, b = '<!-- seed-table:begin -->', '<!-- seed-table:end -->'
block = a + '\n' + '\n'.join(rows) + '\n' + b
if a in s:
    s = re.sub(re.escape(a) + '.*?' + re.escape(b), lambda _: block, s, flags=re.S)
else:
    # first use: replace the existing table
    i = s.index('| seeded change (dir under /verif/seeded)')
    j = s.index('\n\n', i)
    s = s[:i] + block + s[j:]
open(p, 'w').write(s)
print(len(rows) - 2, 'rows')
