#!/bin/bash
# usage: try_mutant.sh <patch.diff> <name> <check ids...>
# Applies the patch to a scratch worktree of /repo (never to /repo itself), runs the given checks
# against it through VERIF_REPO, prints the verdict lines, removes the worktree and its build output.
set -u
patch=$(readlink -f "$1"); name=$2; shift 2
wt=/tmp/vmut/$name
mkdir -p /tmp/vmut
git -C /repo worktree remove --force "$wt" >/dev/null 2>&1
git -C /repo worktree add --detach "$wt" HEAD >/dev/null 2>&1 || { echo "cannot create worktree"; exit 2; }
if ! git -C "$wt" apply "$patch"; then echo "PATCH DOES NOT APPLY"; git -C /repo worktree remove --force "$wt"; exit 2; fi
cp /repo/Cargo.lock "$wt/Cargo.lock" 2>/dev/null
rc_all=0
for id in "$@"; do
  out=$(cd /verif && VERIF_REPO="$wt" VERIF_SCRATCH=/tmp/vmut ./check "$id" ${TIER:+--tier $TIER} ${SEED:+--seed $SEED} 2>&1)
  rc=$?
  echo "== $name $id exit=$rc"
  echo "$out" | grep -E "^(C[0-9]+ tier|  violation:|VIOLATION|INCONCLUSIVE)" | cut -c1-300 | head -8
  [ $rc -ne 0 ] && rc_all=$rc
done
h=$(python3 -c "import hashlib,sys;print(hashlib.sha1(sys.argv[1].encode()).hexdigest()[:10])" "$wt")
rm -rf "/tmp/vmut/vh-$h"
git -C /repo worktree remove --force "$wt" >/dev/null 2>&1
exit $rc_all
