#!/usr/bin/env python3
"""rerun_seeds.py [-j N] [name-prefix ...]: re-run every filed seeded change (/verif/seeded/*/patch.diff) against the checks its
meta.json lists under caught_by, each in a scratch worktree through scripts/try_mutant.sh, and report CAUGHT / MISSED per check.
Exit 0 when every listed check still reports a violation for its change. Nothing is written to /repo."""
import json, os, subprocess, sys
from concurrent.futures import ThreadPoolExecutor
args = sys.argv[1:]
j = 3
if args[:1] == ['-j']:
    j = int(args[1]); args = args[2:]
base = '/verif/seeded'
names = sorted(d for d in os.listdir(base) if os.path.exists(f'{base}/{d}/patch.diff'))
if args:
    names = [n for n in names if any(n.startswith(a) for a in args)]
def one(name):
    meta = json.load(open(f'{base}/{name}/meta.json'))
    checks = meta.get('caught_by', [])
    p = subprocess.run(['/verif/scripts/try_mutant.sh', f'{base}/{name}/patch.diff', 'rs-' + name.split('-')[0], *checks],
                       capture_output=True, text=True, env=dict(os.environ, TIER=os.environ.get('TIER', 'quick'), SEED=os.environ.get('SEED', '1')))
    res = {}
    for line in p.stdout.splitlines():
        if line.startswith('== '):
            _, _, cid, ex = line.split()
            res[cid] = ex
    if 'PATCH DOES NOT APPLY' in p.stdout + p.stderr:
        return name, {c: 'noapply' for c in checks}
    return name, {c: res.get(c, 'norun') for c in checks}
bad = 0
with ThreadPoolExecutor(j) as ex:
    for name, res in ex.map(one, names):
        parts = []
        for c, r in res.items():
            ok = r == 'exit=1'
            bad += 0 if ok else 1
            parts.append(f'{c}:{"CAUGHT" if ok else "MISSED(" + r + ")"}')
        print(f'{name:60s} ' + ' '.join(parts), flush=True)
print('all caught' if not bad else f'{bad} (change, check) pairs not caught')
sys.exit(1 if bad else 0)
