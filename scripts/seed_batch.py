#!/usr/bin/env python3
"""seed_batch.py <letter> [-j N]: run scripts/try_mutant.sh for every /tmp/seed/C??<letter>.out/patch.diff against the check of its own
property (scratch worktrees, nothing touches /repo) and print one line per proposal. Logs: /tmp/s<ID>.log"""
import os, subprocess, sys
from concurrent.futures import ThreadPoolExecutor
letter = sys.argv[1]
j = int(sys.argv[sys.argv.index('-j') + 1]) if '-j' in sys.argv else 4
ids = [f'C{i:02d}{letter}' for i in range(1, 19) if os.path.exists(f'/tmp/seed/C{i:02d}{letter}.out/patch.diff')]
def one(i):
    p = subprocess.run(['/verif/scripts/try_mutant.sh', f'/tmp/seed/{i}.out/patch.diff', 's' + i, i[:3]], capture_output=True, text=True)
    open(f'/tmp/s{i}.log', 'w').write(p.stdout + p.stderr)
    head = [l for l in p.stdout.splitlines() if l.startswith('== ')]
    first = next((l.strip()[:170] for l in p.stdout.splitlines() if l.startswith('  violation:')), '')
    return i, (head[0].split()[-1] if head else 'norun'), first
with ThreadPoolExecutor(j) as ex:
    for i, res, first in ex.map(one, ids):
        print(f'{i}: {"CAUGHT" if res == "exit=1" else "MISSED " + res}  {first}', flush=True)
