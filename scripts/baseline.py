#!/usr/bin/env python3
"""Run the repository's test suite with the verification cfg OFF and compare with BASELINE.json.
Exit 0 iff every test in stable_pass passes."""
import json, os, re, subprocess, sys
base = json.load(open('/root/.vp/BASELINE.json'))
stable = set(base['stable_pass'])
env = dict(os.environ, CARGO_NET_OFFLINE='true')
env.pop('RUSTFLAGS', None)
p = subprocess.run(['cargo', 'test', '--workspace', '--no-fail-fast', '--offline'], cwd=os.environ.get('REPO_DIR', '/repo'), env=env,
                   stdout=subprocess.PIPE, stderr=subprocess.STDOUT, text=True)
passed, failed = set(), set()
crate = None
for line in p.stdout.splitlines():
    m = re.match(r'\s*Running (?:unittests )?\S+ \(target/debug/deps/([a-z_]+)-', line)
    if m:
        crate = m.group(1)
    m = re.match(r'test (\S+)(?: - should panic)? \.\.\. (ok|FAILED|ignored)', line)
    if m and crate:
        name = f'{crate}::{m.group(1)}'
        (passed if m.group(2) == 'ok' else failed).add(name)
missing = sorted(stable - passed)
print(f'baseline: {len(stable & passed)}/{len(stable)} stable tests pass; {len(passed)} passed total, {len(failed)} failed total')
if missing:
    print('MISSING/FAILED stable tests:')
    for m in missing:
        print('  ', m)
    sys.exit(1)
