//! C09-C12: histories of WeakDom operations executed on real DOMs in lock-step with a plain
//! reference model of the documented meaning of each operation; after every step the real DOMs
//! are walked through the public API (plus the cfg-guarded bookkeeping hooks) and compared.

use std::collections::{BTreeMap, BTreeSet, HashMap, HashSet};

use crate::canon;
use crate::report::{catch, panic_sig, Report};
use crate::rng::Rng;
use crate::Args;
use rbx_dom_weak::types::{Ref, UniqueId, Variant};
use rbx_dom_weak::{InstanceBuilder, WeakDom};
use serde_json::{json, Value as J};

// ---------------------------------------------------------------- choice sources

pub trait Chooser {
    fn choose(&mut self, n: usize) -> usize;
}

pub struct RandCh(pub Rng);
impl Chooser for RandCh {
    fn choose(&mut self, n: usize) -> usize {
        self.0.below(n.max(1))
    }
}

/// Odometer over all choice sequences: replays the recorded prefix, extends with 0s.
pub struct EnumCh {
    pub stack: Vec<(usize, usize)>,
    pub pos: usize,
}
impl Chooser for EnumCh {
    fn choose(&mut self, n: usize) -> usize {
        let n = n.max(1);
        if self.pos < self.stack.len() {
            let (_, i) = self.stack[self.pos];
            self.pos += 1;
            i
        } else {
            self.stack.push((n, 0));
            self.pos += 1;
            0
        }
    }
}
impl EnumCh {
    /// advance to the next choice sequence; false when the space is exhausted
    pub fn advance(&mut self) -> bool {
        self.stack.truncate(self.pos);
        while let Some((n, i)) = self.stack.last().copied() {
            if i + 1 < n {
                self.stack.last_mut().unwrap().1 = i + 1;
                self.pos = 0;
                return true;
            }
            self.stack.pop();
        }
        false
    }
}

// ---------------------------------------------------------------- reference model

#[derive(Clone, Debug, PartialEq)]
pub enum MRef {
    Null,
    Node(usize),
    Dangling(Ref),
}

#[derive(Clone, Debug, PartialEq)]
pub enum MV {
    V(J),
    Ref(MRef),
    Uid(UniqueId),
}

#[derive(Clone, Debug)]
pub struct MNode {
    pub class: String,
    pub name: String,
    pub props: BTreeMap<String, MV>,
    pub parent: Option<usize>,
    pub children: Vec<usize>,
    pub dom: usize,
}

#[derive(Default)]
pub struct Model {
    pub nodes: BTreeMap<usize, MNode>,
    pub roots: Vec<usize>,
    pub next: usize,
}

impl Model {
    fn subtree_bfs(&self, x: usize) -> Vec<usize> {
        let mut out = vec![x];
        let mut i = 0;
        while i < out.len() {
            let c = self.nodes[&out[i]].children.clone();
            out.extend(c);
            i += 1;
        }
        out
    }
    fn in_subtree(&self, anc: usize, mut n: usize) -> bool {
        loop {
            if n == anc {
                return true;
            }
            match self.nodes[&n].parent {
                Some(p) => n = p,
                None => return false,
            }
        }
    }
    fn dom_nodes(&self, d: usize) -> Vec<usize> {
        self.nodes.iter().filter(|(_, n)| n.dom == d).map(|(i, _)| *i).collect()
    }
    fn held_uids(&self, d: usize) -> Vec<UniqueId> {
        self.nodes
            .values()
            .filter(|n| n.dom == d)
            .filter_map(|n| match n.props.get("UniqueId") {
                Some(MV::Uid(u)) => Some(*u),
                _ => None,
            })
            .collect()
    }
}

// ---------------------------------------------------------------- history description

#[derive(Clone, Debug)]
pub struct NewNode {
    pub class: String,
    pub name: String,
    /// a UniqueId entry pushed onto the builder BEFORE the effective one (same key twice: the last one counts)
    pub shadowed_uid: Option<UniqueId>,
    pub props: Vec<(String, MV)>,
    pub children: Vec<NewNode>,
    pub self_ref_prop: bool,
    pub other_thread: bool,
    /// a Bool property literally named Archivable (Roblox's own Clone() skips such descendants; WeakDom's clone
    /// operations are documented as copying the subtree and nothing else)
    pub archivable: Option<bool>,
    pub ctor: u8,
    /// build with the referent that this live node of ANOTHER DOM carries (mirrored trees)
    pub mirror_of: Option<usize>,
    /// a String property literally keyed "Name" (the instance's name is the builder's name, whatever properties say)
    pub name_prop: Option<String>,
    /// a Content property holding an object reference to this live model node (it is a value, not a Ref property)
    pub content_obj: Option<usize>,
    /// a "UniqueId" property that is a String (nothing documented forbids it on insert; it is simply not an id)
    pub mistyped_uid: bool,
}

#[derive(Clone, Debug)]
pub enum Op {
    Insert { dom: usize, parent: usize, sub: NewNode },
    Destroy { x: usize },
    TransferWithin { x: usize, np: usize },
    Transfer { x: usize, dest: usize, np: usize },
    CloneWithin { x: usize },
    CloneInto { x: usize, dest: usize },
    CloneMulti { xs: Vec<usize>, dest: usize },
    /// `into_raw` followed by `from_raw` (the documented escape hatch) and `reserve`: nothing observable may change,
    /// and the id bookkeeping `from_raw` rebuilds must be the one the following operations need
    RawRoundTrip { dom: usize, reserve: usize },
    /// WeakDom::reserve on a live DOM (documented as a capacity hint: nothing observable may change)
    Reserve { dom: usize, additional: usize },
}

fn op_name(op: &Op) -> &'static str {
    match op {
        Op::Insert { .. } => "insert",
        Op::Destroy { .. } => "destroy",
        Op::TransferWithin { .. } => "transfer_within",
        Op::Transfer { .. } => "transfer",
        Op::CloneWithin { .. } => "clone_within",
        Op::CloneInto { .. } => "clone_into_external",
        Op::CloneMulti { .. } => "clone_multiple_into_external",
        Op::RawRoundTrip { .. } => "into_raw+from_raw",
        Op::Reserve { .. } => "reserve",
    }
}

pub struct Cfg {
    pub exhaustive: bool,
    pub ndoms: usize,
    pub init_nodes: usize,
    pub steps: usize,
    pub max_live: usize,
    pub uid_pool: usize,
    /// first pool entry used (so that small pools can sit on the unusual ids too)
    pub uid_base: usize,
    pub rich_props: bool,
    pub max_insert: usize,
    /// 0 = none; 1 = "wide": two folders of 65-130 children, every child of the first pointing at a child of the second;
    /// 2 = "mass": 460 id-carrying children, a parentless clone of one of them, then the whole folder destroyed
    pub scenario: u8,
}

// (index, time, random). Beyond the small values: indices half the number range apart, and ids that share one NEGATIVE
// random part while index and time differ (equality and hashing must look at all three fields)
const UID_POOL: [(u32, u32, i64); 12] = [(0, 0, 0), (1, 1, 1), (2, 2, 2), (3, 3, 3), (0x1000_0000, 5, 9), (0x6000_0000, 5, 9), (0xB000_0000, 5, 9), (0x9000_0000, 5, 9),
    (1, 0x0100_0000, -0x1234_5678_9abc_def0), (2, 0x0200_0000, -0x1234_5678_9abc_def0), (2, 0x0100_0000, -0x1234_5678_9abc_def0), (1, 0x0100_0000, i64::MIN)];

// ---------------------------------------------------------------- execution state

pub struct World {
    pub m: Model,
    pub doms: Vec<WeakDom>,
    pub r: HashMap<usize, Ref>,
    /// referent -> model nodes that carry it (several only when DOMs mirror each other's referents)
    pub back: HashMap<Ref, Vec<usize>>,
    pub gone: Vec<(usize, Ref)>,
    pub mirror: bool,
    pub all_refs_ever: HashSet<Ref>,
    pub log: Vec<String>,
}

pub struct V {
    pub prop: &'static str,
    pub sig: String,
    pub what: String,
}

fn v(prop: &'static str, sig: &str, what: String) -> V {
    V { prop, sig: format!("{}:{}", prop, sig), what }
}

impl World {
    /// the model node that carries referent `g` in DOM `d` (referents are only unique within one DOM)
    fn back_in(&self, d: usize, g: &Ref) -> Option<usize> {
        let c = self.back.get(g)?;
        c.iter().rev().copied().find(|i| self.m.nodes.get(i).map(|n| n.dom == d).unwrap_or(false)).or_else(|| c.last().copied())
    }
    fn builder_of(&self, n: &NewNode, ids: &mut Vec<(InstanceBuilderInfo, usize)>, m: &mut Model, dom: usize, parent: Option<usize>) -> (InstanceBuilder, usize) {
        // `other_thread`: the builder (and with it the new referent) is created on a freshly started thread, as a
        // program that prepares subtrees on worker threads would; where it was made must not matter once it is inserted
        // every public constructor of InstanceBuilder is used: new, with_property_capacity, empty + with_class / set_class
        let make = || match n.ctor {
            1 => InstanceBuilder::with_property_capacity(n.class.as_str(), 3),
            2 => InstanceBuilder::empty().with_class(n.class.as_str()),
            3 => {
                let mut b = InstanceBuilder::empty();
                b.set_class(n.class.as_str());
                b
            }
            // 4-7: what the builder documentation says about names: `new(class)` also names the instance after that class
            // "unless overwritten later", `with_class` / `set_class` change the class and nothing else, `empty()` leaves
            // every field empty
            5 => InstanceBuilder::new("Decoy").with_class(n.class.as_str()),
            6 => InstanceBuilder::new("Decoy").with_name(n.name.clone()).with_class(n.class.as_str()),
            7 => InstanceBuilder::empty().with_class(n.class.as_str()),
            _ => InstanceBuilder::new(n.class.as_str()),
        };
        let made = if n.other_thread { std::thread::scope(|s| s.spawn(make).join().expect("builder thread")) } else { make() };
        // the chosen referent must not be in use in the target DOM (then the builder keeps its fresh one)
        let made = match n.mirror_of.and_then(|t| self.r.get(&t)).copied() {
            Some(r) if m.nodes.get(&n.mirror_of.unwrap()).map(|t| t.dom != dom).unwrap_or(false) && self.doms[dom].get_by_ref(r).is_none() && !ids.iter().any(|(i, _)| i.referent == r) => made.with_referent(r),
            _ => made,
        };
        let (mut b, effective_name) = match n.ctor {
            4 => (made, n.class.clone()),
            5 => (made, "Decoy".to_owned()),
            6 => (made, n.name.clone()),
            7 => (made, String::new()),
            8 => {
                let mut b = made;
                b.set_name(n.name.clone());
                (b, n.name.clone())
            }
            _ => (made.with_name(n.name.clone()), n.name.clone()),
        };
        let id = m.next;
        m.next += 1;
        let mut props = BTreeMap::new();
        if let Some(u) = n.shadowed_uid {
            b.add_property("UniqueId", Variant::UniqueId(u));
        }
        for (k, mv) in &n.props {
            let var = match mv {
                MV::V(_) => unreachable!("NewNode props are refs and ids only"),
                MV::Ref(MRef::Null) => Variant::Ref(Ref::none()),
                MV::Ref(MRef::Node(t)) => Variant::Ref(self.r[t]),
                MV::Ref(MRef::Dangling(r)) => Variant::Ref(*r),
                MV::Uid(u) => Variant::UniqueId(*u),
            };
            b.add_property(k.as_str(), var);
            props.insert(k.clone(), mv.clone());
        }
        if n.self_ref_prop {
            b.add_property("SelfRef", Variant::Ref(b.referent()));
            props.insert("SelfRef".to_owned(), MV::Ref(MRef::Node(id)));
        }
        let raw = |r: Ref| if r.is_none() { J::Null } else { J::String(r.to_string()) };
        if let Some(np) = &n.name_prop {
            b.add_property("Name", Variant::String(np.clone()));
            props.insert("Name".to_owned(), MV::V(canon::value(&Variant::String(np.clone()), &raw)));
        }
        if let Some(t) = n.content_obj {
            if let Some(tr) = self.r.get(&t) {
                let v = Variant::Content(rbx_dom_weak::types::Content::from_referent(*tr));
                props.insert("Obj".to_owned(), MV::V(canon::value(&v, &raw)));
                b.add_property("Obj", v);
            }
        }
        if let Some(av) = n.archivable {
            b.add_property("Archivable", Variant::Bool(av));
            props.insert("Archivable".to_owned(), MV::V(canon::value(&Variant::Bool(av), &raw)));
        }
        if n.mistyped_uid && !props.contains_key("UniqueId") {
            b.add_property("UniqueId", Variant::String("not-an-id".into()));
            props.insert("UniqueId".to_owned(), MV::V(canon::value(&Variant::String("not-an-id".into()), &raw)));
        }
        // a plain value property so that "properties unchanged" is observable
        let tag = format!("{}#{}", n.name, id);
        b.add_property("Tag", Variant::String(tag.clone()));
        props.insert("Tag".to_owned(), MV::V(canon::value(&Variant::String(tag), &canon::no_refs)));
        m.nodes.insert(
            id,
            MNode { class: n.class.clone(), name: effective_name, props, parent, children: vec![], dom },
        );
        ids.push((InstanceBuilderInfo { referent: b.referent() }, id));
        for c in &n.children {
            let (cb, cid) = self.builder_of(c, ids, m, dom, Some(id));
            m.nodes.get_mut(&id).unwrap().children.push(cid);
            b.add_child(cb);
        }
        (b, id)
    }
}

pub struct InstanceBuilderInfo {
    pub referent: Ref,
}

fn uid_of(i: usize) -> UniqueId {
    let (a, b, c) = UID_POOL[i % 12];
    UniqueId::new(a, b, c)
}

fn gen_newnode(ch: &mut dyn Chooser, w: &World, cfg: &Cfg, depth: usize, budget: &mut usize) -> NewNode {
    let class = ["Folder", "Part", "ObjectValue", "Model"][ch.choose(4)].to_owned();
    let name = ["a", "b", "c"][ch.choose(3)].to_owned();
    let mut props = vec![];
    let mut shadowed_uid = None;
    if cfg.uid_pool > 0 && ch.choose(3) != 0 {
        props.push(("UniqueId".to_owned(), MV::Uid(uid_of(cfg.uid_base + ch.choose(cfg.uid_pool)))));
        // builders may carry a key twice (with_properties(template) then with_property): the last entry is the value
        if cfg.rich_props && ch.choose(5) == 0 {
            shadowed_uid = Some(uid_of(cfg.uid_base + ch.choose(cfg.uid_pool)));
        }
    }
    let mut self_ref = false;
    if cfg.rich_props {
        let ids: Vec<usize> = w.m.nodes.keys().copied().collect();
        match ch.choose(6) {
            0 => props.push(("Value".to_owned(), MV::Ref(MRef::Null))),
            1 => props.push(("Value".to_owned(), MV::Ref(MRef::Dangling(Ref::new())))),
            2 | 3 if !ids.is_empty() => {
                let t = ids[ch.choose(ids.len())];
                props.push(("Value".to_owned(), MV::Ref(MRef::Node(t))));
            }
            4 => self_ref = true,
            _ => {}
        }
        // a second outward Ref on the same instance (each Ref property is rewritten on its own)
        if !ids.is_empty() && ch.choose(3) == 0 {
            let t = ids[ch.choose(ids.len())];
            props.push(("Link".to_owned(), MV::Ref(MRef::Node(t))));
        }
    }
    let mut children = vec![];
    if depth < 2 {
        let k = ch.choose(3);
        for _ in 0..k {
            if *budget == 0 {
                break;
            }
            *budget -= 1;
            children.push(gen_newnode(ch, w, cfg, depth + 1, budget));
        }
    }
    let other_thread = cfg.rich_props && !cfg.exhaustive && ch.choose(6) == 0;
    let ctor = if cfg.rich_props && !cfg.exhaustive { [0u8, 0, 0, 1, 2, 3, 4, 5, 6, 7, 8][ch.choose(11)] } else { 0 };
    let rich = cfg.rich_props && !cfg.exhaustive;
    let name_prop = if rich && ch.choose(12) == 0 { Some(["Other", "", "a"][ch.choose(3)].to_owned()) } else { None };
    let live_ids: Vec<usize> = w.m.nodes.keys().copied().collect();
    let content_obj = if rich && !live_ids.is_empty() && ch.choose(8) == 0 { Some(live_ids[ch.choose(live_ids.len())]) } else { None };
    let mistyped_uid = rich && ch.choose(30) == 0;
    let mirror_of = if w.mirror && depth == 0 && !live_ids.is_empty() && ch.choose(4) == 0 { Some(live_ids[ch.choose(live_ids.len())]) } else { None };
    let archivable = if rich && ch.choose(6) == 0 { Some(ch.choose(3) == 0) } else { None };
    NewNode { class, name, shadowed_uid, props, children, self_ref_prop: self_ref, other_thread, archivable, ctor, mirror_of, name_prop, content_obj, mistyped_uid }
}

fn gen_op(ch: &mut dyn Chooser, w: &World, cfg: &Cfg) -> Option<Op> {
    let live: Vec<usize> = w.m.nodes.keys().copied().collect();
    let nonroot: Vec<usize> = live.iter().copied().filter(|i| !w.m.roots.contains(i)).collect();
    let kinds = 9;
    if cfg.rich_props && !cfg.exhaustive && ch.choose(14) == 0 {
        if ch.choose(2) == 0 {
            return Some(Op::Reserve { dom: ch.choose(cfg.ndoms), additional: [0usize, 1, 7, 64, 1000, 100_000][ch.choose(6)] });
        }
        return Some(Op::RawRoundTrip { dom: ch.choose(cfg.ndoms), reserve: [0usize, 1, 64][ch.choose(3)] });
    }
    for _ in 0..8 {
        let k = ch.choose(kinds);
        match k {
            0 | 1 => {
                if live.len() >= cfg.max_live {
                    continue;
                }
                let parent = live[ch.choose(live.len())];
                let mut budget = cfg.max_insert.saturating_sub(1);
                let sub = gen_newnode(ch, w, cfg, if cfg.max_insert <= 1 { 2 } else { 0 }, &mut budget);
                return Some(Op::Insert { dom: w.m.nodes[&parent].dom, parent, sub });
            }
            2 => {
                if nonroot.is_empty() {
                    continue;
                }
                return Some(Op::Destroy { x: nonroot[ch.choose(nonroot.len())] });
            }
            3 | 4 => {
                if nonroot.is_empty() {
                    continue;
                }
                let x = nonroot[ch.choose(nonroot.len())];
                let d = w.m.nodes[&x].dom;
                // destination: same DOM, not inside x's own subtree (no tree can represent that)
                let cands: Vec<usize> = live.iter().copied().filter(|n| w.m.nodes[n].dom == d && !w.m.in_subtree(x, *n)).collect();
                if cands.is_empty() {
                    continue;
                }
                return Some(Op::TransferWithin { x, np: cands[ch.choose(cands.len())] });
            }
            5 => {
                if nonroot.is_empty() || cfg.ndoms < 2 {
                    continue;
                }
                let x = nonroot[ch.choose(nonroot.len())];
                let d = w.m.nodes[&x].dom;
                let cands: Vec<usize> = live.iter().copied().filter(|n| w.m.nodes[n].dom != d).collect();
                if cands.is_empty() {
                    continue;
                }
                let np = cands[ch.choose(cands.len())];
                let dest = w.m.nodes[&np].dom;
                // precondition of transfer: none of the moved referents is in use in the destination (only mirrored
                // histories can get there)
                if w.mirror && w.m.subtree_bfs(x).iter().any(|i| w.r.get(i).map(|r| w.doms[dest].get_by_ref(*r).is_some()).unwrap_or(false)) {
                    continue;
                }
                return Some(Op::Transfer { x, dest, np });
            }
            6 => {
                if live.len() >= cfg.max_live {
                    continue;
                }
                let x = live[ch.choose(live.len())];
                if w.m.subtree_bfs(x).len() + live.len() > cfg.max_live + 8 {
                    continue;
                }
                return Some(Op::CloneWithin { x });
            }
            7 => {
                if live.len() >= cfg.max_live || cfg.ndoms < 2 {
                    continue;
                }
                let x = live[ch.choose(live.len())];
                let d = w.m.nodes[&x].dom;
                let dest = (d + 1 + ch.choose(cfg.ndoms - 1)) % cfg.ndoms;
                if w.m.subtree_bfs(x).len() + live.len() > cfg.max_live + 8 {
                    continue;
                }
                return Some(Op::CloneInto { x, dest });
            }
            _ => {
                if live.len() >= cfg.max_live || cfg.ndoms < 2 {
                    continue;
                }
                let d = ch.choose(cfg.ndoms);
                let dest = (d + 1 + ch.choose(cfg.ndoms - 1)) % cfg.ndoms;
                // pairwise disjoint subtrees of dom d
                let cands: Vec<usize> = live.iter().copied().filter(|n| w.m.nodes[n].dom == d).collect();
                let mut xs: Vec<usize> = vec![];
                let want = 1 + ch.choose(3);
                // the documentation asks for nothing about the list: one time in four it may name an
                // instance twice or an instance together with one of its descendants
                let overlap_ok = ch.choose(4) == 0;
                for _ in 0..want * 2 {
                    if xs.len() >= want || cands.is_empty() {
                        break;
                    }
                    let c = cands[ch.choose(cands.len())];
                    if overlap_ok || xs.iter().all(|s| !w.m.in_subtree(*s, c) && !w.m.in_subtree(c, *s)) {
                        xs.push(c);
                    }
                }
                if xs.is_empty() {
                    continue;
                }
                let total: usize = xs.iter().map(|x| w.m.subtree_bfs(*x).len()).sum();
                if total + live.len() > cfg.max_live + 12 {
                    continue;
                }
                return Some(Op::CloneMulti { xs, dest });
            }
        }
    }
    None
}

/// Every valid operation in the current state (exhaustive mode): structure-only inserts of one
/// node (optionally with a pooled UniqueId and one Ref property), every other operation with
/// every valid argument choice.
fn all_ops(w: &World, cfg: &Cfg) -> Vec<Op> {
    let live: Vec<usize> = w.m.nodes.keys().copied().collect();
    let nonroot: Vec<usize> = live.iter().copied().filter(|i| !w.m.roots.contains(i)).collect();
    let mut ops = vec![];
    if live.len() < cfg.max_live {
        for p in &live {
            for u in 0..=cfg.uid_pool {
                let mut variants: Vec<Vec<(String, MV)>> = vec![vec![]];
                if cfg.rich_props {
                    variants.push(vec![("Value".to_owned(), MV::Ref(MRef::Null))]);
                    for t in &live {
                        variants.push(vec![("Value".to_owned(), MV::Ref(MRef::Node(*t)))]);
                    }
                    for t in &live {
                        for t2 in &live {
                            if t < t2 {
                                variants.push(vec![("Value".to_owned(), MV::Ref(MRef::Node(*t2))), ("Link".to_owned(), MV::Ref(MRef::Node(*t)))]);
                            }
                        }
                    }
                }
                for mut props in variants {
                    if u > 0 {
                        props.push(("UniqueId".to_owned(), MV::Uid(uid_of(u))));
                    }
                    ops.push(Op::Insert {
                        dom: w.m.nodes[p].dom,
                        parent: *p,
                        sub: NewNode { class: "Folder".into(), name: "n".into(), shadowed_uid: None, props, children: vec![], self_ref_prop: false, other_thread: false, archivable: None, ctor: 0, mirror_of: None, name_prop: None, content_obj: None, mistyped_uid: false },
                    });
                }
            }
        }
    }
    for x in &nonroot {
        ops.push(Op::Destroy { x: *x });
        let d = w.m.nodes[x].dom;
        for np in &live {
            if w.m.nodes[np].dom == d {
                if !w.m.in_subtree(*x, *np) {
                    ops.push(Op::TransferWithin { x: *x, np: *np });
                }
            } else {
                ops.push(Op::Transfer { x: *x, dest: w.m.nodes[np].dom, np: *np });
            }
        }
    }
    for x in &live {
        ops.push(Op::CloneWithin { x: *x });
        let d = w.m.nodes[x].dom;
        for dest in 0..cfg.ndoms {
            if dest != d {
                ops.push(Op::CloneInto { x: *x, dest });
            }
        }
    }
    for (i, a) in live.iter().enumerate() {
        // the same instance twice
        for dest in 0..cfg.ndoms {
            if dest != w.m.nodes[a].dom {
                ops.push(Op::CloneMulti { xs: vec![*a, *a], dest });
            }
        }
        for b in live.iter().skip(i + 1) {
            let d = w.m.nodes[a].dom;
            // disjoint subtrees, and an instance together with one of its descendants, in both orders
            if w.m.nodes[b].dom == d {
                for dest in 0..cfg.ndoms {
                    if dest != d {
                        ops.push(Op::CloneMulti { xs: vec![*a, *b], dest });
                        ops.push(Op::CloneMulti { xs: vec![*b, *a], dest });
                    }
                }
            }
        }
    }
    ops
}

// ---------------------------------------------------------------- applying one operation

/// The monitor's own notion of id equality: the three fields. The type's `==` and `Hash` belong to the code under test
/// (the bookkeeping set of a DOM is built on them), so the oracle must not be built on them too.
type UK = (u32, u32, i64);
fn uk(u: &UniqueId) -> UK {
    (u.index(), u.time(), u.random())
}

fn real_uid(dom: &WeakDom, r: Ref) -> Option<UniqueId> {
    let from_props = match dom.get_by_ref(r)?.properties.get(&rbx_dom_weak::ustr("UniqueId")) {
        Some(Variant::UniqueId(u)) => Some(*u),
        _ => None,
    };
    // the public accessor is documented to report the same thing
    assert_eq!(dom.get_unique_id(r), from_props, "WeakDom::get_unique_id disagrees with the UniqueId property");
    from_props
}

/// The UniqueId rule of C12 for a group of instances that just entered DOM `d`.
/// `entering`: (model id, id value before the operation). `s_before`: ids held by the DOM before.
fn check_uid_rule(w: &mut World, d: usize, entering: &[(usize, UniqueId)], s_before: &[UniqueId], out: &mut Vec<V>, opn: &str) {
    let s: HashSet<UK> = s_before.iter().map(uk).collect();
    let olds: HashSet<UK> = entering.iter().map(|(_, u)| uk(u)).collect();
    let mut news: Vec<(usize, UniqueId, UniqueId)> = vec![];
    for (id, old) in entering {
        let rr = w.r[id];
        match real_uid(&w.doms[d], rr) {
            Some(n) => news.push((*id, *old, n)),
            None => out.push(v("C12", &format!("uid-lost:{}", opn), format!("instance lost its UniqueId property during {}", opn))),
        }
    }
    for val in &olds {
        let shown = UniqueId::new(val.0, val.1, val.2);
        let holders: Vec<&(usize, UniqueId, UniqueId)> = news.iter().filter(|(_, o, _)| uk(o) == *val).collect();
        let kept = holders.iter().filter(|(_, o, n)| uk(o) == uk(n)).count();
        if s.contains(val) {
            if kept != 0 {
                out.push(v("C12", &format!("collision-kept:{}", opn), format!("{}: id {} was already held by the destination DOM but an entering instance kept it", opn, shown)));
            }
        } else if kept != 1 {
            if kept == 0 {
                // also a C10 matter: the operation changed a property although nothing collided
                out.push(v("C10", &format!("property-changed-without-collision:{}", opn), format!("{}: an entering instance's UniqueId {} was replaced although the destination did not hold it", opn, shown)));
            }
            out.push(v(
                "C12",
                &format!("{}:{}", if kept == 0 { "regenerated-without-collision" } else { "duplicate-kept" }, opn),
                format!("{}: id {} not held by the destination: {} of {} entering holders kept it (exactly one must)", opn, shown, kept, holders.len()),
            ));
        }
    }
    let mut fresh_seen: HashSet<UK> = HashSet::new();
    for (_, old, new) in &news {
        if uk(old) != uk(new) {
            if s.contains(&uk(new)) || olds.contains(&uk(new)) || !fresh_seen.insert(uk(new)) {
                out.push(v("C12", &format!("regenerated-not-fresh:{}", opn), format!("{}: regenerated id {} is not fresh", opn, new)));
            }
        }
    }
    for (id, _, new) in news {
        w.m.nodes.get_mut(&id).unwrap().props.insert("UniqueId".to_owned(), MV::Uid(new));
    }
}

fn entering_uids(m: &Model, ids: &[usize]) -> Vec<(usize, UniqueId)> {
    ids.iter()
        .filter_map(|i| match m.nodes[i].props.get("UniqueId") {
            Some(MV::Uid(u)) => Some((*i, *u)),
            _ => None,
        })
        .collect()
}

/// One Ref property of a copy whose original target was copied more than once in the same call
/// (overlapping arguments of clone_multiple_into_external): any of the copies is "the corresponding copy".
pub struct Ambiguous {
    pub copy: usize,
    pub prop: String,
    pub cands: Vec<usize>,
}

fn model_clone(w: &mut World, xs: &[usize], dest: usize) -> (Vec<usize>, Vec<(usize, usize)>, Vec<Ambiguous>) {
    // returns (clone roots, (original, copy) pairs in BFS order per root, ambiguous Ref targets)
    let mut pairs: Vec<(usize, usize)> = vec![];
    let mut roots = vec![];
    let mut map: HashMap<usize, usize> = HashMap::new();
    let mut all: HashMap<usize, Vec<usize>> = HashMap::new();
    let mut amb: Vec<Ambiguous> = vec![];
    for x in xs {
        let bfs = w.m.subtree_bfs(*x);
        for o in &bfs {
            let id = w.m.next;
            w.m.next += 1;
            map.insert(*o, id);
            all.entry(*o).or_default().push(id);
            pairs.push((*o, id));
        }
        roots.push(map[x]);
        for o in &bfs {
            let on = w.m.nodes[o].clone();
            let parent = if o == x { None } else { on.parent.map(|p| map[&p]) };
            let children = on.children.iter().map(|c| map[c]).collect();
            w.m.nodes.insert(
                map[o],
                MNode { class: on.class, name: on.name, props: on.props, parent, children, dom: dest },
            );
        }
    }
    // reference rewriting, after every copy exists (refs between subtrees cloned together)
    // "kept when the destination DOM contains that instance": containment goes by referent value, and two DOMs may
    // hold the same referent value (mirrored roots / chosen referents), in which case the kept Ref designates the
    // destination's holder of that value
    let orig_by_ref: HashMap<Ref, usize> = map.keys().filter_map(|o| w.r.get(o).map(|r| (*r, *o))).collect();
    let dest_has: HashMap<Ref, usize> = w.m.nodes.iter().filter(|(i, n)| n.dom == dest && !map.values().any(|c| c == *i)).filter_map(|(i, _)| w.r.get(i).map(|r| (*r, *i))).collect();
    for (_, c) in &pairs {
        let node = w.m.nodes.get_mut(c).unwrap();
        for (pk, pv) in node.props.iter_mut() {
            if let MV::Ref(t) = pv {
                let nt = match t {
                    MRef::Null => MRef::Null,
                    MRef::Node(i) => {
                        // (a Ref designates whoever holds its VALUE in the DOM at hand: with mirrored referents the
                        // model node it was created from may live in another DOM while an original of this clone holds
                        // the same value)
                        let o = if map.contains_key(i) { Some(*i) } else { w.r.get(i).and_then(|r| orig_by_ref.get(r)).copied() };
                        if let Some(o) = o {
                            if all[&o].len() > 1 {
                                amb.push(Ambiguous { copy: *c, prop: pk.clone(), cands: all[&o].clone() });
                            }
                            MRef::Node(map[&o])
                        } else if let Some(j) = w.r.get(i).and_then(|r| dest_has.get(r)) {
                            MRef::Node(*j)
                        } else {
                            MRef::Null
                        }
                    }
                    MRef::Dangling(_) => MRef::Null,
                };
                *t = nt;
            }
        }
    }
    (roots, pairs, amb)
}

/// A Ref whose original target has several copies may point at any one of them: adopt the copy the
/// implementation chose when it is one of the candidates (otherwise the model keeps its own choice and
/// the property comparison reports the mismatch).
fn resolve_ambiguous(w: &mut World, dest: usize, amb: &[Ambiguous]) {
    for a in amb {
        let rr = match w.r.get(&a.copy) {
            Some(r) => *r,
            None => continue,
        };
        let got = match w.doms[dest].get_by_ref(rr).and_then(|i| i.properties.get(&rbx_dom_weak::ustr(a.prop.as_str()))) {
            Some(Variant::Ref(t)) => *t,
            _ => continue,
        };
        if let Some(c) = a.cands.iter().find(|c| w.r.get(c) == Some(&got)) {
            let c = *c;
            w.m.nodes.get_mut(&a.copy).unwrap().props.insert(a.prop.clone(), MV::Ref(MRef::Node(c)));
        }
    }
}

/// map the copies of a clone to real referents by parallel traversal; shape mismatch -> C11
fn map_clone(w: &mut World, dest: usize, model_root: usize, real_root: Ref, out: &mut Vec<V>, opn: &str) {
    let mut queue = vec![(model_root, real_root)];
    while let Some((mi, rr)) = queue.pop() {
        if !w.all_refs_ever.insert(rr) {
            out.push(v("C11", &format!("clone-ref-not-fresh:{}", opn), format!("{}: referent {} of a copy was already in use", opn, rr)));
        }
        w.r.insert(mi, rr);
        w.back.entry(rr).or_default().push(mi);
        let kids: Vec<Ref> = match w.doms[dest].get_by_ref(rr) {
            Some(inst) => inst.children().to_vec(),
            None => {
                out.push(v("C11", &format!("clone-missing:{}", opn), format!("{}: copy {} is not in the destination DOM", opn, rr)));
                continue;
            }
        };
        let mkids = w.m.nodes[&mi].children.clone();
        if kids.len() != mkids.len() {
            out.push(v(
                "C11",
                &format!("clone-shape:{}", opn),
                format!("{}: a copy has {} children, the original has {}", opn, kids.len(), mkids.len()),
            ));
        }
        for (mk, rk) in mkids.iter().zip(kids.iter()) {
            queue.push((*mk, *rk));
        }
    }
}

pub fn apply(w: &mut World, op: &Op, out: &mut Vec<V>) {
    let opn = op_name(op);
    match op {
        Op::Insert { dom, parent, sub } => {
            let s_before = w.m.held_uids(*dom);
            let mut ids = vec![];
            let mut m = std::mem::take(&mut w.m);
            let (b, root_id) = w.builder_of(sub, &mut ids, &mut m, *dom, Some(*parent));
            w.m = m;
            let root_ref = b.referent();
            w.m.nodes.get_mut(parent).unwrap().children.push(root_id);
            for (info, id) in &ids {
                w.r.insert(*id, info.referent);
                w.back.entry(info.referent).or_default().push(*id);
                w.all_refs_ever.insert(info.referent);
            }
            let pr = w.r[parent];
            let got = w.doms[*dom].insert(pr, b);
            if got != root_ref {
                out.push(v("C10", "insert-return", format!("insert returned {} but the subtree root is {}", got, root_ref)));
            }
            let entering = entering_uids(&w.m, &ids.iter().map(|(_, i)| *i).collect::<Vec<_>>());
            check_uid_rule(w, *dom, &entering, &s_before, out, opn);
        }
        Op::Destroy { x } => {
            let d = w.m.nodes[x].dom;
            let sub = w.m.subtree_bfs(*x);
            if let Some(p) = w.m.nodes[x].parent {
                w.m.nodes.get_mut(&p).unwrap().children.retain(|c| c != x);
            }
            let rx = w.r[x];
            for n in &sub {
                w.gone.push((d, w.r[n]));
                w.m.nodes.remove(n);
            }
            w.doms[d].destroy(rx);
        }
        Op::TransferWithin { x, np } => {
            let d = w.m.nodes[x].dom;
            if let Some(p) = w.m.nodes[x].parent {
                w.m.nodes.get_mut(&p).unwrap().children.retain(|c| c != x);
            }
            w.m.nodes.get_mut(x).unwrap().parent = Some(*np);
            w.m.nodes.get_mut(np).unwrap().children.push(*x);
            let (rx, rnp) = (w.r[x], w.r[np]);
            w.doms[d].transfer_within(rx, rnp);
        }
        Op::Transfer { x, dest, np } => {
            let d = w.m.nodes[x].dom;
            let s_before = w.m.held_uids(*dest);
            let sub = w.m.subtree_bfs(*x);
            let total_before: usize = w.doms.iter().map(|dm| dm.verif_instance_count()).sum();
            if let Some(p) = w.m.nodes[x].parent {
                w.m.nodes.get_mut(&p).unwrap().children.retain(|c| c != x);
            }
            w.m.nodes.get_mut(x).unwrap().parent = Some(*np);
            w.m.nodes.get_mut(np).unwrap().children.push(*x);
            for n in &sub {
                w.m.nodes.get_mut(n).unwrap().dom = *dest;
                w.gone.push((d, w.r[n]));
            }
            let (rx, rnp) = (w.r[x], w.r[np]);
            // two distinct elements of the vector
            let (a, b) = if d < *dest {
                let (l, r) = w.doms.split_at_mut(*dest);
                (&mut l[d], &mut r[0])
            } else {
                let (l, r) = w.doms.split_at_mut(d);
                (&mut r[0], &mut l[*dest])
            };
            a.transfer(rx, b, rnp);
            let total_after: usize = w.doms.iter().map(|dm| dm.verif_instance_count()).sum();
            if total_before != total_after {
                out.push(v("C10", "transfer-conservation", format!("transfer changed the combined number of instances from {} to {}", total_before, total_after)));
            }
            // transferred instances are no longer "gone" from dest if they had been there before
            let moved: HashSet<Ref> = sub.iter().map(|n| w.r[n]).collect();
            w.gone.retain(|(gd, r)| !(gd == dest && moved.contains(r)));
            let entering = entering_uids(&w.m, &sub);
            check_uid_rule(w, *dest, &entering, &s_before, out, opn);
        }
        Op::CloneWithin { x } | Op::CloneInto { x, .. } => {
            let d = w.m.nodes[x].dom;
            let dest = match op {
                Op::CloneInto { dest, .. } => *dest,
                _ => d,
            };
            let s_before = w.m.held_uids(dest);
            let src_before = dump_model_dom(&w.m, d);
            let (roots, pairs, _) = model_clone(w, &[*x], dest);
            let rx = w.r[x];
            let got = if dest == d {
                w.doms[d].clone_within(rx)
            } else {
                let (a, b) = if d < dest {
                    let (l, r) = w.doms.split_at_mut(dest);
                    (&l[d], &mut r[0])
                } else {
                    let (l, r) = w.doms.split_at_mut(d);
                    (&r[0], &mut l[dest])
                };
                a.clone_into_external(rx, b)
            };
            map_clone(w, dest, roots[0], got, out, opn);
            if dest != d && dump_model_dom(&w.m, d) != src_before {
                out.push(v("C11", "clone-touched-source-model", "internal: model changed source".into()));
            }
            let copies: Vec<usize> = pairs.iter().map(|(_, c)| *c).collect();
            let entering = entering_uids(&w.m, &copies);
            check_uid_rule(w, dest, &entering, &s_before, out, opn);
        }
        Op::CloneMulti { xs, dest } => {
            let d = w.m.nodes[&xs[0]].dom;
            let s_before = w.m.held_uids(*dest);
            let (roots, pairs, amb) = model_clone(w, xs, *dest);
            let rxs: Vec<Ref> = xs.iter().map(|x| w.r[x]).collect();
            let got = {
                let (a, b) = if d < *dest {
                    let (l, r) = w.doms.split_at_mut(*dest);
                    (&l[d], &mut r[0])
                } else {
                    let (l, r) = w.doms.split_at_mut(d);
                    (&r[0], &mut l[*dest])
                };
                a.clone_multiple_into_external(&rxs, b)
            };
            if got.len() != roots.len() {
                out.push(v("C11", "clone-multi-count", format!("clone_multiple_into_external returned {} referents for {} subtrees", got.len(), roots.len())));
            }
            for (mr, rr) in roots.iter().zip(got.iter()) {
                map_clone(w, *dest, *mr, *rr, out, opn);
            }
            resolve_ambiguous(w, *dest, &amb);
            let copies: Vec<usize> = pairs.iter().map(|(_, c)| *c).collect();
            let entering = entering_uids(&w.m, &copies);
            check_uid_rule(w, *dest, &entering, &s_before, out, opn);
        }
        Op::Reserve { dom, additional } => {
            w.doms[*dom].reserve(*additional);
        }
        Op::RawRoundTrip { dom, .. } if w.m.nodes.values().any(|n| n.dom == *dom && matches!(n.props.get("UniqueId"), Some(MV::V(_)))) => {}
        Op::RawRoundTrip { dom, reserve } => {
            let placeholder = WeakDom::new(InstanceBuilder::new("Placeholder"));
            let old = std::mem::replace(&mut w.doms[*dom], placeholder);
            let (root, map) = old.into_raw();
            let mut rebuilt = WeakDom::from_raw(root, map);
            rebuilt.reserve(*reserve);
            w.doms[*dom] = rebuilt;
        }
    }
}

fn dump_model_dom(m: &Model, d: usize) -> String {
    let mut s = String::new();
    for (i, n) in m.nodes.iter().filter(|(_, n)| n.dom == d) {
        s.push_str(&format!("{}:{:?}:{:?}:{:?};", i, n.parent, n.children, n.props));
    }
    s
}

// ---------------------------------------------------------------- monitors run after every step

pub fn check_world(w: &World, out: &mut Vec<V>, opn: &str, sample: usize) {
    for (d, dom) in w.doms.iter().enumerate() {
        let ids = w.m.dom_nodes(d);
        // ---- C09: the real DOM on its own terms (public API walk from every referent we know of)
        let root = dom.root_ref();
        match dom.get_by_ref(root) {
            None => out.push(v("C09", &format!("root-missing:{}", opn), format!("after {}: root does not resolve", opn))),
            Some(r) => {
                if r.parent().is_some() {
                    out.push(v("C09", &format!("root-has-parent:{}", opn), format!("after {}: root has a parent", opn)));
                }
            }
        }
        let mut known: Vec<Ref> = ids.iter().filter_map(|i| w.r.get(i).copied()).collect();
        let mut seen: HashSet<Ref> = known.iter().copied().collect();
        let mut k = 0;
        while k < known.len() {
            let rr = known[k];
            k += 1;
            if let Some(inst) = dom.get_by_ref(rr) {
                let mut dup = HashSet::new();
                for c in inst.children() {
                    if !dup.insert(*c) {
                        out.push(v("C09", &format!("child-listed-twice:{}", opn), format!("after {}: an instance lists the same child twice", opn)));
                    }
                    match dom.get_by_ref(*c) {
                        None => out.push(v("C09", &format!("child-dangling:{}", opn), format!("after {}: a listed child does not exist", opn))),
                        Some(ci) => {
                            if ci.parent() != rr {
                                out.push(v("C09", &format!("child-parent-disagree:{}", opn), format!("after {}: a listed child names another parent", opn)));
                            }
                        }
                    }
                    if seen.insert(*c) {
                        known.push(*c);
                    }
                }
                let p = inst.parent();
                if p.is_some() {
                    match dom.get_by_ref(p) {
                        None => out.push(v("C09", &format!("parent-dangling:{}", opn), format!("after {}: an instance names a parent that does not exist", opn))),
                        Some(pi) => {
                            let n = pi.children().iter().filter(|c| **c == rr).count();
                            if n != 1 {
                                out.push(v("C09", &format!("not-listed-once:{}", opn), format!("after {}: an instance is listed {} times by its parent", opn, n)));
                            }
                        }
                    }
                    // ancestor chain terminates without revisiting
                    let mut cur = p;
                    let mut steps = 0;
                    while cur.is_some() {
                        if cur == rr || steps > 100000 {
                            out.push(v("C09", &format!("ancestor-cycle:{}", opn), format!("after {}: an instance is its own ancestor", opn)));
                            break;
                        }
                        cur = dom.get_by_ref(cur).map(|i| i.parent()).unwrap_or(Ref::none());
                        steps += 1;
                    }
                }
            }
        }
        if dom.verif_instance_count() != ids.len() {
            out.push(v(
                "C09",
                &format!("instance-count:{}", opn),
                format!("after {}: DOM {} stores {} instances, {} are expected to exist", opn, d, dom.verif_instance_count(), ids.len()),
            ));
        }
        for (gd, gr) in w.gone.iter().rev().take(64) {
            if *gd == d && dom.get_by_ref(*gr).is_some() && !w.back.get(gr).map(|c| c.iter().any(|i| w.m.nodes.get(i).map(|n| n.dom == d).unwrap_or(false))).unwrap_or(false) {
                out.push(v("C09", &format!("gone-still-resolves:{}", opn), format!("after {}: a destroyed / transferred-away instance can still be looked up", opn)));
                break;
            }
        }
        // descendants iterator: from the root and from one sampled node
        let mut starts = vec![w.m.roots[d]];
        if !ids.is_empty() {
            starts.push(ids[sample % ids.len()]);
        }
        for st in starts {
            if !w.m.nodes.contains_key(&st) {
                continue;
            }
            let expect: BTreeSet<usize> = w.m.subtree_bfs(st).into_iter().collect();
            let mut got: Vec<Ref> = vec![];
            for inst in dom.descendants_of(w.r[&st]) {
                got.push(inst.referent());
                if got.len() > expect.len() * 4 + 16 {
                    break;
                }
            }
            let mut pos: HashMap<Ref, usize> = HashMap::new();
            let mut dupl = false;
            for (i, g) in got.iter().enumerate() {
                if pos.insert(*g, i).is_some() {
                    dupl = true;
                }
            }
            let gotset: BTreeSet<usize> = got.iter().filter_map(|g| w.back_in(d, g)).collect();
            if dupl || gotset != expect || got.len() != expect.len() {
                out.push(v(
                    "C09",
                    &format!("descendants-set:{}", opn),
                    format!("after {}: descendants_of yielded {} items ({} distinct known) for a subtree of {}", opn, got.len(), gotset.len(), expect.len()),
                ));
            } else {
                for g in &got {
                    if let Some(inst) = dom.get_by_ref(*g) {
                        let p = inst.parent();
                        if *g != w.r[&st] {
                            match pos.get(&p) {
                                Some(pp) if *pp < pos[g] => {}
                                _ => {
                                    out.push(v("C09", &format!("descendants-order:{}", opn), format!("after {}: descendants_of yielded a child before its parent", opn)));
                                    break;
                                }
                            }
                        }
                    }
                }
            }
        }
        // ---- C10 / C11: agreement with the reference model
        let refpath = |r: Ref| -> J {
            if r.is_none() {
                J::Null
            } else {
                J::String(r.to_string())
            }
        };
        for i in &ids {
            let mn = &w.m.nodes[i];
            let rr = match w.r.get(i) {
                Some(r) => *r,
                None => continue,
            };
            let inst = match dom.get_by_ref(rr) {
                Some(x) => x,
                None => {
                    out.push(v("C10", &format!("missing-instance:{}", opn), format!("after {}: an instance that must exist in DOM {} does not resolve", opn, d)));
                    continue;
                }
            };
            let is_clone_op = opn.starts_with("clone");
            let pr = if is_clone_op { "C11" } else { "C10" };
            if inst.class.as_str() != mn.class || inst.name != mn.name {
                out.push(v(pr, &format!("class-or-name:{}", opn), format!("after {}: class/name {}.{} expected {}.{}", opn, inst.class, inst.name, mn.class, mn.name)));
            }
            let exp_parent = mn.parent.map(|p| w.r[&p]).unwrap_or(Ref::none());
            if inst.parent() != exp_parent {
                out.push(v(pr, &format!("parent:{}", opn), format!("after {}: instance {} has parent {} expected {}", opn, mn.name, inst.parent(), exp_parent)));
            }
            let exp_children: Vec<Ref> = mn.children.iter().map(|c| w.r[c]).collect();
            if inst.children() != &exp_children[..] {
                out.push(v(
                    pr,
                    &format!("children-order:{}", opn),
                    format!("after {}: children of {} are {:?}, the documented effect gives {:?}", opn, mn.name,
                        inst.children().iter().map(|c| w.back_in(d, c).map(|i| i.to_string()).unwrap_or("?".into())).collect::<Vec<_>>(),
                        mn.children),
                ));
            }
            if inst.properties.len() != mn.props.len() {
                out.push(v(pr, &format!("prop-count:{}", opn), format!("after {}: {} properties, expected {}", opn, inst.properties.len(), mn.props.len())));
            }
            for (k, mv) in &mn.props {
                let real = inst.properties.get(&rbx_dom_weak::ustr(k));
                let ok = match (mv, real) {
                    (MV::V(j), Some(rv)) => &canon::value(rv, &refpath) == j,
                    (MV::Ref(t), Some(Variant::Ref(rv))) => match t {
                        MRef::Null => rv.is_none(),
                        MRef::Node(n) => w.r.get(n) == Some(rv),
                        MRef::Dangling(dr) => dr == rv,
                    },
                    (MV::Uid(u), Some(Variant::UniqueId(ru))) => {
                        if uk(u) != uk(ru) {
                            out.push(v("C12", &format!("uid-changed:{}", opn), format!("after {}: UniqueId of an instance not entering a DOM changed from {} to {}", opn, u, ru)));
                        }
                        true
                    }
                    _ => false,
                };
                if !ok {
                    let is_ref = matches!(mv, MV::Ref(_));
                    let p2 = pr;
                    out.push(v(
                        p2,
                        &format!("{}:{}", if is_ref { "ref-value" } else { "prop-value" }, opn),
                        format!("after {}: property {} of {} is {:?}, expected {:?}", opn, k, mn.name, real.map(|r| canon::value(r, &refpath)), mv),
                    ));
                }
            }
        }
        // ---- C12: uniqueness and bookkeeping
        let mut held: Vec<UniqueId> = vec![];
        for i in &ids {
            if let Some(rr) = w.r.get(i) {
                if let Some(u) = real_uid(dom, *rr) {
                    held.push(u);
                }
            }
        }
        let hs: HashSet<UK> = held.iter().map(uk).collect();
        if hs.len() != held.len() {
            out.push(v("C12", &format!("duplicate-in-dom:{}", opn), format!("after {}: two instances of DOM {} hold the same UniqueId", opn, d)));
        }
        // (the hook hands the set out as a list; two members that are equal field by field would be a finding of their own)
        let book_list: Vec<UK> = dom.verif_unique_ids().iter().map(uk).collect();
        let book: HashSet<UK> = book_list.iter().copied().collect();
        if book.len() != book_list.len() {
            out.push(v("C12", &format!("bookkeeping-duplicate:{}", opn), format!("after {}: the bookkeeping set of DOM {} holds the same id twice", opn, d)));
        }
        if book != hs {
            out.push(v(
                "C12",
                &format!("bookkeeping:{}", opn),
                format!("after {}: bookkeeping set has {} ids, instances hold {} ({} stale, {} untracked)", opn, book.len(), hs.len(), book.difference(&hs).count(), hs.difference(&book).count()),
            ));
        }
    }
}

// ---------------------------------------------------------------- running histories

pub fn run_history(ch: &mut dyn Chooser, cfg: &Cfg, rep: &mut Report, want: &str, replay: J, cov: bool) -> bool {
    let mut w = World {
        m: Model::default(),
        doms: vec![],
        r: HashMap::new(),
        back: HashMap::new(),
        gone: vec![],
        mirror: false,
        all_refs_ever: HashSet::new(),
        log: vec![],
    };
    // half of the rich histories: every DOM's root is built with the SAME chosen referent (two trees mirrored from one
    // source, as a syncing tool keeps them). Referents are only unique within one DOM; an operation that involves two
    // DOMs must never conclude anything from a referent of one being equal to a referent of the other.
    let mirror = cfg.rich_props && !cfg.exhaustive && cfg.ndoms >= 2 && ch.choose(2) == 0;
    w.mirror = mirror;
    let shared_root = Ref::new();
    for d in 0..cfg.ndoms {
        let b = InstanceBuilder::new("DataModel").with_name(format!("root{}", d));
        let b = if mirror { b.with_referent(shared_root) } else { b };
        let id = w.m.next;
        w.m.next += 1;
        let tag = format!("root#{}", id);
        let b = b.with_property("Tag", Variant::String(tag.clone()));
        let mut props = BTreeMap::new();
        props.insert("Tag".to_owned(), MV::V(canon::value(&Variant::String(tag), &canon::no_refs)));
        w.m.nodes.insert(id, MNode { class: "DataModel".into(), name: format!("root{}", d), props, parent: None, children: vec![], dom: d });
        w.m.roots.push(id);
        w.r.insert(id, b.referent());
        w.back.entry(b.referent()).or_default().push(id);
        w.all_refs_ever.insert(b.referent());
        w.doms.push(WeakDom::new(b));
    }
    let mut out: Vec<V> = vec![];
    let mut ops_done = 0usize;
    let mut moved_with_siblings = false;
    // scripted opening of the size scenarios: ordinary operations, applied and checked like every other step
    let mut prelude_stage = 0usize;
    let leaf = |name: &str, props: Vec<(String, MV)>| NewNode { class: "ObjectValue".into(), name: name.into(), shadowed_uid: None, props, children: vec![], self_ref_prop: false, other_thread: false, archivable: None, ctor: 0, mirror_of: None, name_prop: None, content_obj: None, mistyped_uid: false };
    // initial forest through inserts (part of the history)
    let total_steps = cfg.init_nodes + cfg.steps + if cfg.scenario != 0 { 6 } else { 0 };
    for step in 0..total_steps {
        let scripted: Option<Op> = match (cfg.scenario, prelude_stage) {
            (1, 0) => {
                let wcount = [65usize, 70, 130][ch.choose(3)];
                let kids = (0..wcount).map(|i| leaf(&format!("b{}", i), vec![])).collect();
                Some(Op::Insert { dom: 0, parent: w.m.roots[0], sub: NewNode { class: "Folder".into(), name: "B".into(), shadowed_uid: None, props: vec![], children: kids, self_ref_prop: false, other_thread: false, archivable: None, ctor: 0, mirror_of: None, name_prop: None, content_obj: None, mistyped_uid: false } })
            }
            (1, 1) => {
                // B was the last insert: its model id and its children's ids are the last ones handed out
                let b = *w.m.nodes.iter().rev().find(|(_, n)| n.name == "B").map(|(i, _)| i).unwrap();
                let targets = w.m.nodes[&b].children.clone();
                let kids = targets.iter().enumerate().map(|(i, t)| leaf(&format!("a{}", i), vec![("Value".to_owned(), MV::Ref(MRef::Node(*t)))])).collect();
                Some(Op::Insert { dom: 0, parent: w.m.roots[0], sub: NewNode { class: "Folder".into(), name: "A".into(), shadowed_uid: None, props: vec![], children: kids, self_ref_prop: false, other_thread: false, archivable: None, ctor: 0, mirror_of: None, name_prop: None, content_obj: None, mistyped_uid: false } })
            }
            // clone the folder whose children all point outside it (65-130 distinct outward Refs in ONE clone call),
            // within the DOM and, after the targets were moved to the other DOM, into that DOM
            (1, 2) => w.m.nodes.iter().rev().find(|(_, n)| n.name == "A" && n.children.len() >= 65).map(|(i, _)| Op::CloneWithin { x: *i }),
            (1, 3) if cfg.ndoms >= 2 => {
                let b = w.m.nodes.iter().rev().find(|(_, n)| n.name == "B" && n.children.len() >= 65 && n.dom == 0).map(|(i, _)| *i);
                b.map(|b| Op::Transfer { x: b, dest: 1, np: w.m.roots[1] })
            }
            (1, 4) if cfg.ndoms >= 2 => w.m.nodes.iter().find(|(_, n)| n.name == "A" && n.children.len() >= 65 && n.dom == 0 && n.parent.is_some()).map(|(i, _)| Op::CloneInto { x: *i, dest: 1 }),
            (2, 0) => {
                let kids = (0..460).map(|i| leaf(&format!("m{}", i), vec![("UniqueId".to_owned(), MV::Uid(uid_of(i % 4)))])).collect();
                Some(Op::Insert { dom: 0, parent: w.m.roots[0], sub: NewNode { class: "Folder".into(), name: "M".into(), shadowed_uid: None, props: vec![], children: kids, self_ref_prop: false, other_thread: false, archivable: None, ctor: 0, mirror_of: None, name_prop: None, content_obj: None, mistyped_uid: false } })
            }
            (2, 1) => {
                let mm = *w.m.nodes.iter().rev().find(|(_, n)| n.name == "M").map(|(i, _)| i).unwrap();
                Some(Op::CloneWithin { x: w.m.nodes[&mm].children[3] })
            }
            (2, 2) => {
                let mm = *w.m.nodes.iter().rev().find(|(_, n)| n.name == "M").map(|(i, _)| i).unwrap();
                Some(Op::Destroy { x: mm })
            }
            _ => None,
        };
        if scripted.is_some() || (cfg.scenario != 0 && prelude_stage < 6) {
            prelude_stage += 1;
        }
        let op = if scripted.is_some() {
            scripted
        } else if cfg.exhaustive {
            let ops = all_ops(&w, cfg);
            let ops: Vec<Op> = if step < cfg.init_nodes { ops.into_iter().filter(|o| matches!(o, Op::Insert { .. })).collect() } else { ops };
            if ops.is_empty() {
                None
            } else {
                let i = ch.choose(ops.len());
                Some(ops[i].clone())
            }
        } else if step < cfg.init_nodes {
            let live: Vec<usize> = w.m.nodes.keys().copied().collect();
            let parent = live[ch.choose(live.len())];
            let mut budget = 0;
            let sub = gen_newnode(ch, &w, cfg, 2, &mut budget);
            Some(Op::Insert { dom: w.m.nodes[&parent].dom, parent, sub })
        } else {
            gen_op(ch, &w, cfg)
        };
        let op = match op {
            Some(o) => o,
            None => continue,
        };
        let opn = op_name(&op);
        if cov {
            rep.count(&format!("op.{}", opn));
        }
        // non-triviality: a move that has >= 2 siblings on both sides
        match &op {
            Op::TransferWithin { x, np } | Op::Transfer { x, np, .. } => {
                let old = w.m.nodes[x].parent.map(|p| w.m.nodes[&p].children.len()).unwrap_or(0);
                if old >= 2 && !w.m.nodes[np].children.is_empty() {
                    moved_with_siblings = true;
                }
            }
            _ => {}
        }
        w.log.push(format!("{:?}", op).chars().take(200).collect());
        // findings are collected outside the closure so that they survive a panic later in the same step
        let mut o2: Vec<V> = vec![];
        let res = catch(|| {
            apply(&mut w, &op, &mut o2);
            check_world(&w, &mut o2, opn, step);
        });
        ops_done += 1;
        out.extend(o2);
        match res {
            Ok(()) => {}
            Err(p) if p.msg.contains("get_unique_id disagrees") => {
                out.push(V { prop: "C12", sig: format!("C12:get-unique-id-disagrees:{}", opn), what: format!("after {}: {}", opn, p.msg) });
                break;
            }
            Err(p) if p.file.contains("domops.rs") => {
                // the panic is in this monitor's own bookkeeping, not in the library: it lost track of the DOM.
                // After a deviation already reported for another property that is expected (model and DOM differ
                // from then on); without one it is a defect of the monitor and the run is inconclusive.
                if out.is_empty() {
                    rep.notes.push(format!("INCONCLUSIVE monitor lost track of the DOM in {} ({} at {}:{}) with no earlier deviation", opn, p.msg, p.file, p.line));
                } else if cov {
                    rep.count("monitor-desync-after-other-property-violation");
                }
                break;
            }
            Err(p) => {
                out.push(V {
                    prop: "C09",
                    sig: format!("C09:panic:{}:{}", opn, panic_sig(&p)),
                    what: format!("{} panicked within its documented preconditions: {} at {}:{}", opn, p.msg, p.file, p.line),
                });
                break;
            }
        }
        // stop at the first violation of the property under test; findings that belong to another
        // property (e.g. stale id bookkeeping while checking C10) do not end the history, because their
        // observable consequence for this property may only show a few steps later
        if out.iter().any(|x| x.prop == want) || out.len() > 50 {
            break;
        }
    }
    rep.evaluations += 1;
    if cov {
        rep.add("steps", ops_done as u64);
    }
    let nontrivial = match want {
        "C10" => moved_with_siblings,
        _ => ops_done >= 2,
    };
    if nontrivial {
        rep.nontrivial(crate::rng::fnv64(w.log.join("|").as_bytes()));
    }
    rep.sample(json!({"replay": replay, "ops": w.log.iter().take(12).collect::<Vec<_>>()}));
    let mut violated = false;
    for x in out {
        if x.prop == want {
            violated = true;
            rep.violation(&x.sig, &x.what, replay.clone(), json!({"history": w.log}));
        } else if cov {
            rep.count(&format!("other-property-violation.{}", x.prop));
        }
    }
    violated
}

/// A DOM without a root (`WeakDom::default()`) is a DOM all the same: it can hold parentless instances, be the destination
/// of clones and transfers, and its instances can be Ref targets. The lock-step model is built around rooted DOMs, so these
/// few fixed steps are checked directly against the documented rules.
fn rootless_scenario(rep: &mut Report, want: &str) {
    let fid = |u: &UniqueId| uk(u);
    let mut bad = |rep: &mut Report, prop: &str, sig: &str, what: String| {
        if prop == want {
            rep.violation(&format!("{}:rootless:{}", prop, sig), &what, json!({"cmd": "domops", "part": "rootless"}), J::Null);
        }
    };
    let res = catch(|| {
        let mut out: Vec<(&'static str, &'static str, String)> = vec![];
        let shared_id = UniqueId::new(7, 7, 7);
        let mut r = WeakDom::default();
        let x = r.insert(Ref::none(), InstanceBuilder::new("Folder").with_name("x").with_property("UniqueId", shared_id));
        let x2 = r.insert(x, InstanceBuilder::new("Folder").with_name("x2"));
        let mut d = WeakDom::new(InstanceBuilder::new("DataModel"));
        let root = d.root_ref();
        let y = d.insert(root, InstanceBuilder::new("ObjectValue").with_name("y").with_property("Value", x).with_property("Link", x2).with_property("UniqueId", shared_id));
        let z = d.insert(root, InstanceBuilder::new("ObjectValue").with_name("z").with_property("Value", y).with_property("Link", Ref::new()));
        let get = |dom: &WeakDom, i: Ref, k: &str| dom.get_by_ref(i).and_then(|n| n.properties.get(&rbx_dom_weak::ustr(k)).cloned());
        // -- clone_into_external into the rootless DOM
        let c = d.clone_into_external(y, &mut r);
        match r.get_by_ref(c) {
            None => out.push(("C11", "copy-missing", "clone_into_external into a rootless DOM: the copy is not there".into())),
            Some(ci) => {
                if ci.parent().is_some() {
                    out.push(("C11", "copy-not-parentless", "the copy has a parent".into()));
                }
                if get(&r, c, "Value") != Some(Variant::Ref(x)) || get(&r, c, "Link") != Some(Variant::Ref(x2)) {
                    out.push(("C11", "kept-ref-lost", format!("Refs to instances the rootless destination contains came back as {:?} / {:?}", get(&r, c, "Value"), get(&r, c, "Link"))));
                }
                match get(&r, c, "UniqueId") {
                    Some(Variant::UniqueId(u)) if fid(&u) == fid(&shared_id) => out.push(("C12", "collision-kept", "the copy kept an id the rootless destination already holds".into())),
                    Some(Variant::UniqueId(_)) => {}
                    other => out.push(("C12", "uid-lost", format!("the copy's UniqueId is {:?}", other))),
                }
            }
        }
        // -- clone_multiple_into_external: refs between the subtrees cloned together, and refs kept
        let cm = d.clone_multiple_into_external(&[y, z], &mut r);
        if cm.len() != 2 {
            out.push(("C11", "multi-count", format!("{} copies for 2 referents", cm.len())));
        } else {
            if get(&r, cm[1], "Value") != Some(Variant::Ref(cm[0])) {
                out.push(("C11", "multi-inside-ref", format!("z'.Value is {:?}, expected the copy of y", get(&r, cm[1], "Value"))));
            }
            if get(&r, cm[0], "Value") != Some(Variant::Ref(x)) {
                out.push(("C11", "multi-kept-ref-lost", format!("y'.Value is {:?}, expected the destination's x", get(&r, cm[0], "Value"))));
            }
            if get(&r, cm[1], "Link") != Some(Variant::Ref(Ref::none())) {
                out.push(("C11", "multi-dangling-not-null", format!("a Ref to nothing came back as {:?}", get(&r, cm[1], "Link"))));
            }
        }
        if get(&d, y, "Value") != Some(Variant::Ref(x)) || d.get_by_ref(root).map(|n| n.children().to_vec()) != Some(vec![y, z]) {
            out.push(("C11", "source-changed", "the source DOM changed".into()));
        }
        // -- transfer into the rootless DOM, under one of its instances
        d.transfer(z, &mut r, x);
        if d.get_by_ref(z).is_some() || d.get_by_ref(root).map(|n| n.children().to_vec()) != Some(vec![y]) {
            out.push(("C09", "transfer-source", "after transfer the source still holds / lists the instance".into()));
        }
        if r.get_by_ref(z).map(|n| n.parent()) != Some(x) || r.get_by_ref(x).map(|n| n.children().to_vec()) != Some(vec![x2, z]) {
            out.push(("C09", "transfer-dest", "after transfer into a rootless DOM parent and child list disagree".into()));
        }
        if get(&r, z, "Value") != Some(Variant::Ref(y)) {
            out.push(("C10", "transfer-props", "transfer changed a property".into()));
        }
        // -- a parentless instance moves under another one, then the subtree is destroyed
        r.transfer_within(c, x2);
        if r.get_by_ref(c).map(|n| n.parent()) != Some(x2) || r.get_by_ref(x2).map(|n| n.children().to_vec()) != Some(vec![c]) {
            out.push(("C09", "transfer-within", "transfer_within of a parentless instance in a rootless DOM".into()));
        }
        r.destroy(x);
        for (n, i) in [("x", x), ("x2", x2), ("z", z), ("c", c)] {
            if r.get_by_ref(i).is_some() {
                out.push(("C09", "destroy-left", format!("{} can still be looked up after its ancestor was destroyed", n)));
            }
        }
        if cm.len() == 2 && (r.get_by_ref(cm[0]).is_none() || r.get_by_ref(cm[1]).is_none()) {
            out.push(("C10", "destroy-took-more", "destroy removed instances outside the named subtree".into()));
        }
        let held: Vec<UK> = [cm.first().copied(), cm.get(1).copied()].iter().flatten().filter_map(|i| r.get_unique_id(*i)).map(|u| uk(&u)).collect();
        let book: HashSet<UK> = r.verif_unique_ids().iter().map(uk).collect();
        if book != held.iter().copied().collect::<HashSet<UK>>() {
            out.push(("C12", "bookkeeping", format!("rootless DOM: bookkeeping has {} ids, instances hold {}", book.len(), held.len())));
        }
        out
    });
    rep.evaluations += 1;
    rep.count("rootless_scenario");
    match res {
        Ok(v) => {
            for (p, sig, what) in v {
                bad(rep, p, sig, what);
            }
        }
        Err(p) => {
            if p.file.contains("rbx_dom_weak") {
                bad(rep, want, &format!("panic@{}", panic_sig(&p)), p.msg.clone());
            } else {
                rep.notes.push(format!("INCONCLUSIVE rootless scenario: harness panic {}", p.msg));
            }
        }
    }
}

pub fn main(a: &Args) {
    let seed = a.u64("seed", 1);
    let count = a.u64("count", 100);
    let shard = a.u64("shard", 0);
    let nshards = a.u64("nshards", 1);
    let want = a.str("prop", "C09");
    let out = a.str("out", "/dev/stdout");
    let mode = a.str("mode", "random");
    let mut rep = Report::new(&want);
    if shard == 0 && mode != "replay" {
        rootless_scenario(&mut rep, &want);
    }
    if mode == "exhaustive" {
        let cfg = Cfg {
            exhaustive: true,
            ndoms: a.usize("ndoms", 2),
            init_nodes: a.usize("init", 2),
            steps: a.usize("steps", 2),
            max_live: 12,
            uid_pool: a.usize("uids", 1),
            uid_base: a.usize("uidbase", 0),
            rich_props: a.str("rich", "0") == "1",
            max_insert: 1, scenario: 0,
        };
        let mut ch = EnumCh { stack: vec![], pos: 0 };
        let mut n: u64 = 0;
        if let Some(cs) = a.kv.get("choices") {
            // replay of one enumerated history
            let stack: Vec<(usize, usize)> = cs
                .trim_matches(|c| c == '[' || c == ']')
                .split(',')
                .filter_map(|x| x.trim().parse::<usize>().ok())
                .map(|i| (usize::MAX, i))
                .collect();
            let mut ch = EnumCh { stack, pos: 0 };
            run_history(&mut ch, &cfg, &mut rep, &want, json!({"cmd": "domops", "replayed": true}), true);
            rep.finish(&out);
            return;
        }
        let mut mine_count: u64 = 0;
        loop {
            ch.pos = 0;
            // shard by the first two choices (the initial forest); foreign subtrees of the choice
            // tree are skipped wholesale
            if ch.stack.len() >= 2 && nshards > 1 {
                let key = (ch.stack[0].1 * 31 + ch.stack[1].1) as u64;
                if key % nshards != shard {
                    ch.pos = 2;
                    if !ch.advance() {
                        break;
                    }
                    continue;
                }
            }
            let first = ch.stack.len() < 2;
            if !first || shard == 0 || nshards == 1 {
                let replay = json!({"cmd": "domops", "mode": "exhaustive", "prop": want, "choices": ch.stack.iter().map(|(_, i)| *i).collect::<Vec<_>>(),
                                    "ndoms": cfg.ndoms, "init": cfg.init_nodes, "steps": cfg.steps, "uids": cfg.uid_pool, "rich": if cfg.rich_props { "1" } else { "0" }});
                run_history(&mut ch, &cfg, &mut rep, &want, replay, true);
                mine_count += 1;
            } else {
                let mut dummy = Report::new("skip");
                run_history(&mut ch, &cfg, &mut dummy, &want, J::Null, false);
            }
            n += 1;
            if !ch.advance() {
                break;
            }
            if n >= a.u64("max", u64::MAX) {
                rep.notes.push("exhaustive enumeration stopped at --max".into());
                break;
            }
        }
        let _ = mine_count;
        rep.add("exhaustive_histories", n);
    } else {
        let run_one = |rep: &mut Report, i: u64| {
            let mut rng = Rng::derive(seed, "domops", i);
            let big = rng.chance(1, 30);
            let cfg = Cfg {
                exhaustive: false,
                ndoms: 1 + rng.below(3),
                init_nodes: rng.below(6),
                steps: if big { 400 } else { 20 + rng.below(120) },
                max_live: if big { 600 } else { 8 + rng.below(28) },
                uid_pool: if rng.chance(1, 4) { 0 } else if rng.chance(1, 3) { 12 } else { 2 + rng.below(3) },
                uid_base: if rng.chance(1, 3) { 8 } else { 0 },
                rich_props: true,
                max_insert: 1 + rng.below(6),
                scenario: 0,
            };
            let mut cfg = cfg;
            if i % 40 == 17 {
                cfg.scenario = 1 + (i / 40 % 2) as u8;
                cfg.ndoms = cfg.ndoms.max(2);
                cfg.max_live = 900;
                cfg.steps = cfg.steps.min(60);
            }
            let mut ch = RandCh(rng);
            let replay = json!({"cmd": "domops", "mode": "random", "prop": want, "seed": seed, "index": i});
            run_history(&mut ch, &cfg, rep, &want, replay, true);
        };
        if let Some(only) = a.kv.get("index") {
            run_one(&mut rep, only.parse().unwrap());
        } else {
            let mut i = shard;
            while i < count {
                run_one(&mut rep, i);
                i += nshards;
            }
        }
    }
    rep.finish(&out);
}
