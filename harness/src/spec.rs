//! Abstract description of a DOM ("logical content"), independent of any WeakDom / Ref values,
//! and several different ways of turning it into a real WeakDom through the public API.

use crate::rng::Rng;
use rbx_dom_weak::types::{Content, Ref, Variant};
use rbx_dom_weak::{InstanceBuilder, WeakDom};

#[derive(Clone, Debug, PartialEq)]
pub enum RefT {
    Null,
    /// another node of the spec (index into TreeSpec::nodes)
    Node(usize),
    /// a referent that exists nowhere
    Dangling,
}

#[derive(Clone, Debug)]
pub enum PV {
    V(Variant),
    Ref(RefT),
    ContentObj(RefT),
}

#[derive(Clone, Debug)]
pub struct NodeSpec {
    pub class: String,
    pub name: String,
    pub props: Vec<(String, PV)>,
    pub parent: Option<usize>,
    pub children: Vec<usize>,
}

/// nodes[0] is the root of the WeakDom; parents always precede children in `nodes`.
#[derive(Clone, Debug, Default)]
pub struct TreeSpec {
    pub nodes: Vec<NodeSpec>,
}

impl TreeSpec {
    pub fn new(root_class: &str) -> TreeSpec {
        TreeSpec {
            nodes: vec![NodeSpec {
                class: root_class.to_owned(),
                name: root_class.to_owned(),
                props: vec![],
                parent: None,
                children: vec![],
            }],
        }
    }
    pub fn add(&mut self, parent: usize, class: &str, name: &str) -> usize {
        let id = self.nodes.len();
        self.nodes.push(NodeSpec {
            class: class.to_owned(),
            name: name.to_owned(),
            props: vec![],
            parent: Some(parent),
            children: vec![],
        });
        self.nodes[parent].children.push(id);
        id
    }
    pub fn subtree(&self, root: usize) -> Vec<usize> {
        let mut out = vec![];
        let mut stack = vec![root];
        while let Some(n) = stack.pop() {
            out.push(n);
            for c in self.nodes[n].children.iter().rev() {
                stack.push(*c);
            }
        }
        out
    }
    pub fn depth(&self, mut n: usize) -> usize {
        let mut d = 0;
        while let Some(p) = self.nodes[n].parent {
            d += 1;
            n = p;
        }
        d
    }
    pub fn is_ancestor_or_self(&self, anc: usize, mut n: usize) -> bool {
        loop {
            if n == anc {
                return true;
            }
            match self.nodes[n].parent {
                Some(p) => n = p,
                None => return false,
            }
        }
    }
}

#[derive(Clone, Copy, Debug, PartialEq, Eq)]
pub enum BuildMode {
    /// nested builders, Ref::new() referents, properties in spec order
    Nested,
    /// nested builders with referents chosen by the harness (with_referent)
    ChosenRefs,
    /// property insertion order shuffled
    ShuffledProps,
    /// reversed property order + with_property_capacity
    Capacity,
    /// WeakDom::new(root) then one insert() per node
    Incremental,
    /// everything inserted flat under the root in scrambled order, then transfer_within into place
    ViaTransfer,
}

pub const ALL_BUILD_MODES: &[BuildMode] = &[
    BuildMode::Nested,
    BuildMode::ChosenRefs,
    BuildMode::ShuffledProps,
    BuildMode::Capacity,
    BuildMode::Incremental,
    BuildMode::ViaTransfer,
];

pub struct Built {
    pub dom: WeakDom,
    pub refs: Vec<Ref>,
    pub dangling: Ref,
}

fn ref_from_u128(v: u128) -> Ref {
    format!("{:032x}", v).parse().unwrap()
}

pub fn build(spec: &TreeSpec, mode: BuildMode, rng: &mut Rng) -> Built {
    let n = spec.nodes.len();
    let mut builders: Vec<Option<InstanceBuilder>> = Vec::with_capacity(n);
    let mut refs = Vec::with_capacity(n);
    for node in &spec.nodes {
        let mut b = match mode {
            BuildMode::Capacity => InstanceBuilder::with_property_capacity(node.class.as_str(), rng.below(64)),
            _ => InstanceBuilder::new(node.class.as_str()),
        };
        if mode == BuildMode::ChosenRefs {
            let v = ((rng.next_u64() as u128) << 64) | (rng.next_u64() as u128) | 1;
            b = b.with_referent(ref_from_u128(v));
        }
        refs.push(b.referent());
        builders.push(Some(b.with_name(node.name.clone())));
    }
    let dangling = Ref::new();
    let resolve = |t: &RefT| -> Ref {
        match t {
            RefT::Null => Ref::none(),
            RefT::Node(i) => refs[*i],
            RefT::Dangling => dangling,
        }
    };
    for (i, node) in spec.nodes.iter().enumerate() {
        let mut props: Vec<(String, Variant)> = node
            .props
            .iter()
            .map(|(k, pv)| {
                (
                    k.clone(),
                    match pv {
                        PV::V(v) => v.clone(),
                        PV::Ref(t) => Variant::Ref(resolve(t)),
                        PV::ContentObj(t) => Variant::Content(Content::from_referent(resolve(t))),
                    },
                )
            })
            .collect();
        match mode {
            BuildMode::ShuffledProps | BuildMode::ViaTransfer => rng.shuffle(&mut props),
            BuildMode::Capacity => props.reverse(),
            _ => {}
        }
        let b = builders[i].as_mut().unwrap();
        for (k, v) in props {
            b.add_property(k.as_str(), v);
        }
    }
    let dom = match mode {
        BuildMode::Nested | BuildMode::ChosenRefs | BuildMode::ShuffledProps | BuildMode::Capacity => {
            // children come after parents in `nodes`, so assembling from the back is bottom-up
            for i in (1..n).rev() {
                let _ = i;
            }
            fn assemble(spec: &TreeSpec, builders: &mut Vec<Option<InstanceBuilder>>, i: usize) -> InstanceBuilder {
                let mut b = builders[i].take().unwrap();
                for c in &spec.nodes[i].children {
                    let cb = assemble(spec, builders, *c);
                    b.add_child(cb);
                }
                b
            }
            // recursion depth = tree depth; deep chains use Incremental instead
            let root = assemble(spec, &mut builders, 0);
            WeakDom::new(root)
        }
        BuildMode::Incremental => {
            let mut dom = WeakDom::new(builders[0].take().unwrap());
            // nodes are in parent-before-child order and children lists are in insertion order
            let mut order: Vec<usize> = Vec::new();
            let mut queue = std::collections::VecDeque::from([0usize]);
            while let Some(i) = queue.pop_front() {
                for c in &spec.nodes[i].children {
                    order.push(*c);
                    queue.push_back(*c);
                }
            }
            for i in order {
                let p = spec.nodes[i].parent.unwrap();
                dom.insert(refs[p], builders[i].take().unwrap());
            }
            dom
        }
        BuildMode::ViaTransfer => {
            let mut dom = WeakDom::new(builders[0].take().unwrap());
            let mut flat: Vec<usize> = (1..n).collect();
            rng.shuffle(&mut flat);
            for i in &flat {
                dom.insert(refs[0], builders[*i].take().unwrap());
            }
            let mut queue = std::collections::VecDeque::from([0usize]);
            while let Some(i) = queue.pop_front() {
                for c in &spec.nodes[i].children {
                    dom.transfer_within(refs[*c], refs[i]);
                    queue.push_back(*c);
                }
            }
            dom
        }
    };
    Built { dom, refs, dangling }
}
