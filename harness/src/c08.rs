//! C08: binary class columns. Groups of same-class instances with different property subsets
//! under canonical, alias and legacy (migrating) names, in every sibling order.
//! Differential oracle: what an instance shows after the group round trip must equal what it
//! shows when serialized alone; gaps are filled with the database default (or a donor-independent
//! neutral value).

use std::collections::{BTreeMap, BTreeSet};

use crate::canon;
use crate::dbwalk;
use crate::gen_value::VGen;
use crate::report::{catch, panic_sig, Report};
use crate::rng::Rng;
use crate::Args;
use rbx_dom_weak::types::*;
use rbx_dom_weak::{InstanceBuilder, WeakDom};
use serde_json::{json, Value as J};

/// (class, [(logical property, [(spelling, type)])])
fn families() -> Vec<(&'static str, Vec<Vec<(&'static str, VariantType)>>)> {
    use VariantType as T;
    vec![
        (
            "Part",
            vec![
                vec![("Size", T::Vector3), ("size", T::Vector3)],
                vec![("Color", T::Color3), ("Color3uint8", T::Color3uint8), ("BrickColor", T::BrickColor), ("brickColor", T::BrickColor)],
                vec![("Anchored", T::Bool)],
                vec![("Transparency", T::Float32)],
                vec![("CFrame", T::CFrame)],
                vec![("ZzCustom", T::String)],
                vec![("ZzNumber", T::Float64)],
            ],
        ),
        (
            "MeshPart",
            vec![
                vec![("MeshId", T::ContentId), ("MeshContent", T::Content)],
                vec![("TextureID", T::ContentId), ("TextureContent", T::Content)],
                vec![("Size", T::Vector3), ("size", T::Vector3)],
                vec![("Color", T::Color3), ("Color3uint8", T::Color3uint8), ("BrickColor", T::BrickColor)],
            ],
        ),
        (
            "TextLabel",
            vec![
                vec![("Font", T::Enum), ("FontFace", T::Font)],
                vec![("Text", T::String)],
                vec![("TextSize", T::Float32)],
                vec![("TextColor3", T::Color3)],
            ],
        ),
        ("ScreenGui", vec![vec![("IgnoreGuiInset", T::Bool), ("ScreenInsets", T::Enum)], vec![("Enabled", T::Bool)], vec![("DisplayOrder", T::Int32)]]),
        ("ImageLabel", vec![vec![("Image", T::ContentId), ("ImageContent", T::Content)], vec![("ImageTransparency", T::Float32)]]),
        ("StringValue", vec![vec![("Value", T::String)], vec![("Tags", T::Tags)], vec![("Attributes", T::Attributes)]]),
        ("ZzUnknownClass", vec![vec![("A", T::Int32)], vec![("B", T::String)], vec![("C", T::Vector3)], vec![("D", T::SharedString)], vec![("E", T::NumberSequence)], vec![("F", T::Content)]]),
        ("SpawnLocation", vec![vec![("TeamColor", T::BrickColor)], vec![("Size", T::Vector3), ("size", T::Vector3)], vec![("Color", T::Color3), ("brickColor", T::BrickColor)]]),
        // service classes: a file normally holds one copy of a service, but nothing forbids two, and the column rules are
        // the same for them (defaults far from the type-neutral value: Brightness ~2, Gravity 196.2, TimeOfDay "14:00:00")
        ("Lighting", vec![vec![("Brightness", T::Float32)], vec![("TimeOfDay", T::String)], vec![("Ambient", T::Color3)], vec![("GlobalShadows", T::Bool)]]),
        ("Workspace", vec![vec![("Gravity", T::Float32)], vec![("FallenPartsDestroyHeight", T::Float32)], vec![("StreamingEnabled", T::Bool)]]),
        ("SoundService", vec![vec![("DistanceFactor", T::Float32)], vec![("RolloffScale", T::Float32)], vec![("RespectFilteringEnabled", T::Bool)]]),
    ]
}

/// A database-known, never-serialized property of `class` with a value of its type (BasePart.Position ...), if there is one.
fn nonserializing_for(class: &str, r: &mut Rng) -> Option<(String, Variant)> {
    let db = dbwalk::db();
    if !db.classes.contains_key(class) {
        return None;
    }
    let mut c: Vec<(String, VariantType)> = dbwalk::all_props(db, class)
        .into_iter()
        .filter_map(|(_, d)| {
            let name: &str = d.name.as_ref();
            match dbwalk::resolve(db, class, name) {
                Some(rs) if matches!(rs.ser, dbwalk::Ser::No) && !rs.via_alias => dbwalk::vtype(d).map(|t| (name.to_owned(), t)),
                _ => None,
            }
        })
        .filter(|(_, t)| matches!(t, VariantType::Vector3 | VariantType::Float32 | VariantType::Bool | VariantType::Int32 | VariantType::String | VariantType::CFrame))
        .collect();
    c.sort_by(|a, b| a.0.cmp(&b.0));
    if c.is_empty() {
        return None;
    }
    let (n, t) = r.pick(&c).clone();
    let v = match t {
        VariantType::Vector3 => Variant::Vector3(Vector3::new(1.0, 2.0, 3.0)),
        VariantType::Float32 => Variant::Float32(1.5),
        VariantType::Bool => Variant::Bool(true),
        VariantType::Int32 => Variant::Int32(3),
        VariantType::String => Variant::String("ns".into()),
        _ => Variant::CFrame(CFrame::new(Vector3::new(1.0, 2.0, 3.0), Matrix3::identity())),
    };
    Some((n, v))
}

/// Classes whose own default for a property differs from the default an ancestor records for it (found by walking the
/// database; NegateOperation over PartOperation at the pinned version): the gap value must be the nearest one.
fn override_families() -> Vec<(&'static str, Vec<Vec<(&'static str, VariantType)>>)> {
    let db = dbwalk::db();
    let mut out = vec![];
    for cname in dbwalk::sorted_class_names(db) {
        let chain = dbwalk::class_chain(db, cname);
        let mut fam: Vec<Vec<(&'static str, VariantType)>> = vec![];
        let mut keys: Vec<&str> = chain[0].default_properties.keys().map(|k| k.as_ref()).collect();
        keys.sort();
        for k in keys {
            let own = &chain[0].default_properties[k];
            let inherited = chain.iter().skip(1).find_map(|c| c.default_properties.get(k));
            let differs = matches!(inherited, Some(i) if canon::value(i, &|_| J::Null) != canon::value(own, &|_| J::Null));
            let travels = matches!(dbwalk::travel(db, cname, k), Some(t) if t.back_name == k);
            if differs && travels && !matches!(own, Variant::Ref(_) | Variant::UniqueId(_)) {
                fam.push(vec![(Box::leak(k.to_owned().into_boxed_str()), own.ty())]);
            }
        }
        if !fam.is_empty() {
            out.push((&*Box::leak(cname.to_owned().into_boxed_str()), fam));
        }
    }
    out
}

fn gen_value(g: &VGen, r: &mut Rng, spelling: &str, ty: VariantType) -> Variant {
    match (spelling, ty) {
        // legacy Font items that have a FontFace equivalent (C15 owns the full range)
        ("Font", VariantType::Enum) => Variant::Enum(Enum::from_u32(r.below(46) as u32)),
        ("ScreenInsets", VariantType::Enum) => Variant::Enum(Enum::from_u32(r.below(4) as u32)),
        // half of the Content values name an instance (one of the four targets) instead of a URI
        (_, VariantType::Content) if r.chance(1, 2) => {
            let t = TARGETS.with(|t| t.borrow().clone());
            Variant::Content(Content::from_referent(t[r.below(t.len())]))
        }
        _ => g.gen(r, ty).unwrap(),
    }
}

type Inst = Vec<(String, Variant)>;

thread_local! {
    /// referents of the four target instances that object-valued Content properties point at (fixed per case)
    static TARGETS: std::cell::RefCell<Vec<Ref>> = std::cell::RefCell::new(vec![]);
}

fn build(class: &str, insts: &[&Inst], names: &[String]) -> (WeakDom, Vec<Ref>) {
    let mut root = InstanceBuilder::new("DataModel");
    let mut refs = vec![];
    // first root of every file: a folder with the four targets, so that object references resolve (to the same
    // paths) whether an instance is written alone or in its group
    let mut targets = InstanceBuilder::new("Folder").with_name("targets");
    for (k, t) in TARGETS.with(|t| t.borrow().clone()).into_iter().enumerate() {
        targets.add_child(InstanceBuilder::new("Folder").with_referent(t).with_name(format!("T{}", k)));
    }
    refs.push(targets.referent());
    root.add_child(targets);
    for (i, props) in insts.iter().enumerate() {
        let mut b = InstanceBuilder::new(class).with_name(names[i].clone());
        for (k, v) in props.iter() {
            b.add_property(k.as_str(), v.clone());
        }
        refs.push(b.referent());
        root.add_child(b);
    }
    (WeakDom::new(root), refs)
}

fn roundtrip(class: &str, insts: &[&Inst], names: &[String]) -> Result<Result<J, String>, crate::report::PanicInfo> {
    let (dom, refs) = build(class, insts, names);
    catch(|| {
        let bytes = crate::rt::write_binary(&dom, &refs, rbx_binary::CompressionType::None)?;
        let back = rbx_binary::from_reader(&bytes[..]).map_err(|e| format!("read: {}", e))?;
        Ok(canon::dump_decoded(&back))
    })
}

fn permutations(n: usize, r: &mut Rng) -> Vec<Vec<usize>> {
    fn heap(k: usize, a: &mut Vec<usize>, out: &mut Vec<Vec<usize>>) {
        if k == 1 {
            out.push(a.clone());
            return;
        }
        for i in 0..k {
            heap(k - 1, a, out);
            if k % 2 == 0 {
                a.swap(i, k - 1);
            } else {
                a.swap(0, k - 1);
            }
        }
    }
    if n <= 4 {
        let mut out = vec![];
        heap(n, &mut (0..n).collect(), &mut out);
        out
    } else {
        (0..24)
            .map(|_| {
                let mut p: Vec<usize> = (0..n).collect();
                r.shuffle(&mut p);
                p
            })
            .collect()
    }
}

fn case(rep: &mut Report, seed: u64, index: u64) {
    let mut r = Rng::derive(seed, "c08", index);
    TARGETS.with(|t| *t.borrow_mut() = (0..4).map(|_| Ref::new()).collect());
    let g = VGen::binary();
    static OVR: std::sync::OnceLock<Vec<(&'static str, Vec<Vec<(&'static str, VariantType)>>)>> = std::sync::OnceLock::new();
    let mut fams = families();
    fams.extend(OVR.get_or_init(override_families).iter().cloned());
    let (class, fam) = &fams[r.below(fams.len())];
    if fams.len() > families().len() && index == 0 {
        rep.add("classes_with_overriding_defaults", (fams.len() - families().len()) as u64);
    }
    // one case in 250 is a LARGE group (past 1024 instances of the class) whose last member alone carries one more
    // property: shortcuts that writers take for big classes must not lose it
    let large = index % 250 == 249;
    let n = if large { 1026 + r.below(40) } else { 2 + r.below(4) };
    let gen_group = |r: &mut Rng| -> Vec<Inst> {
        (0..n)
            .map(|i| {
                let mut props: Inst = vec![];
                if large && i + 1 == n {
                    props.push(("ZzOddOneOut".to_owned(), Variant::Int32(77)));
                }
                // one instance in six also carries a property the database knows but never serializes (set by a program
                // that built the tree by hand): skipped by the writer, without any effect on the instance's other properties
                if r.chance(1, 6) {
                    if let Some((nm, v)) = nonserializing_for(class, r) {
                        props.push((nm, v));
                    }
                }
                for logical in fam {
                    if r.chance(1, 2) {
                        let k = r.below(logical.len());
                        let (sp, ty) = logical[k];
                        props.push((sp.to_owned(), gen_value(&g, r, sp, ty)));
                        // one instance in five also carries a SECOND spelling of the same logical property (with another
                        // value): whatever it shows alone is what it must show in the group, and what the writer learns
                        // from such an instance must not hurt a sibling that has only one of the spellings
                        if logical.len() >= 2 && r.chance(1, 5) {
                            let (sp2, ty2) = logical[(k + 1 + r.below(logical.len() - 1)) % logical.len()];
                            props.push((sp2.to_owned(), gen_value(&g, r, sp2, ty2)));
                        }
                    }
                }
                props
            })
            .collect()
    };
    let group = gen_group(&mut r);
    let names: Vec<String> = (0..n).map(|i| format!("i{}", i)).collect();
    let replay = json!({"cmd": "c08", "seed": seed, "index": index});
    let desc = json!({"class": class, "instances": group.iter().map(|p| p.iter().map(|(k, v)| format!("{}:{:?}", k, v.ty())).collect::<Vec<_>>()).collect::<Vec<_>>()});
    rep.evaluations += 1;
    let spell: BTreeSet<&str> = group.iter().flat_map(|p| p.iter().map(|(k, _)| k.as_str())).collect();
    for s in &spell {
        rep.count(&format!("spelling.{}.{}", class, s));
    }
    if spell.len() >= 2 {
        rep.nontrivial(canon::digest(&desc) ^ index);
    }
    rep.sample(json!({"index": index, "group": desc}));
    // each instance alone
    let mut alone: Vec<J> = vec![];
    for (i, inst) in group.iter().enumerate() {
        match roundtrip(class, &[inst], &[names[i].clone()]) {
            Ok(Ok(d)) => alone.push(d["roots"][1].clone()),
            _ => {
                rep.count("skipped.instance-does-not-serialize-alone");
                return;
            }
        }
    }
    let db = dbwalk::db();
    let perms = if large {
        // identity, reversed, rotated by one
        let id: Vec<usize> = (0..n).collect();
        let mut rev = id.clone();
        rev.reverse();
        let mut rot = id.clone();
        rot.rotate_left(1);
        vec![id, rev, rot]
    } else {
        permutations(n, &mut r)
    };
    if large {
        rep.count("cases.large-group");
    }
    let mut outcomes: BTreeMap<String, usize> = BTreeMap::new();
    for perm in &perms {
        let insts: Vec<&Inst> = perm.iter().map(|i| &group[*i]).collect();
        let pnames: Vec<String> = perm.iter().map(|i| names[*i].clone()).collect();
        rep.count("permutations");
        let res = roundtrip(class, &insts, &pnames);
        let dump = match res {
            Err(p) => {
                rep.violation(&format!("C08:{}", panic_sig(&p)), &format!("group round trip panicked: {}", p.msg), replay.clone(), desc.clone());
                *outcomes.entry("panic".into()).or_default() += 1;
                continue;
            }
            Ok(Err(e)) => {
                let ec: String = e.split(':').next().unwrap_or("").chars().take(40).collect();
                *outcomes.entry(format!("err:{}", ec)).or_default() += 1;
                rep.violation(
                    &format!("C08:group-fails-though-each-alone-succeeds:{}", ec),
                    &format!("order {:?} of a {} group fails ({}) although every instance serializes on its own", perm, class, e),
                    replay.clone(),
                    desc.clone(),
                );
                continue;
            }
            Ok(Ok(d)) => d,
        };
        *outcomes.entry("ok".into()).or_default() += 1;
        let roots: Vec<J> = dump["roots"].as_array().map(|a| a.iter().skip(1).cloned().collect()).unwrap_or_default();
        if roots.len() != n {
            rep.violation("C08:instance-count", &format!("{} instances came back, {} written", roots.len(), n), replay.clone(), desc.clone());
            continue;
        }
        // columns carried by the group (keys seen on any alone dump)
        let mut carried: BTreeSet<String> = BTreeSet::new();
        for a in &alone {
            for k in a["props"].as_object().unwrap().keys() {
                carried.insert(k.clone());
            }
        }
        for (pos, orig) in perm.iter().enumerate() {
            let got = &roots[pos];
            let want = &alone[*orig];
            if got["name"] != want["name"] {
                rep.violation("C08:order", "instances came back in another order", replay.clone(), desc.clone());
                break;
            }
            let gp = got["props"].as_object().unwrap();
            let wp = want["props"].as_object().unwrap();
            for (k, wv) in wp {
                match gp.get(k) {
                    Some(gv) if gv == wv => {}
                    other => {
                        rep.violation(
                            &format!("C08:own-value-changed:{}", wv["t"].as_str().unwrap_or("?")),
                            &format!("{} instance {} shows {} = {} in the group but {} alone (order {:?})", class, orig, k, other.map(|x| x.to_string()).unwrap_or("<absent>".into()), wv, perm),
                            replay.clone(),
                            desc.clone(),
                        );
                    }
                }
            }
            for (k, gv) in gp {
                if wp.contains_key(k) {
                    continue;
                }
                if !carried.contains(k) {
                    rep.violation("C08:foreign-column", &format!("instance gained property {} that no instance of the group carried", k), replay.clone(), desc.clone());
                    continue;
                }
                rep.count("gaps-filled");
                // the filled value: database default when there is one ...
                if let Some(def) = dbwalk::default_for(db, class, k) {
                    let dj = canon::value(def, &|_| J::Null);
                    let is_uid = gv["t"] == "UniqueId";
                    if &dj != gv && !is_uid && gv["t"] != "Ref" {
                        // the writer looks the default up under the canonical name of the donor's spelling
                        rep.violation(
                            &format!("C08:gap-not-default:{}", gv["t"].as_str().unwrap_or("?")),
                            &format!("{}.{} was filled with {} for an instance that lacked it; the database default is {}", class, k, gv, dj),
                            replay.clone(),
                            desc.clone(),
                        );
                    }
                } else {
                    // ... otherwise it must never be another instance's value
                    for (other, a) in alone.iter().enumerate() {
                        if other == *orig {
                            continue;
                        }
                        if let Some(ov) = a["props"].get(k) {
                            // a donor value that is itself the neutral value proves nothing
                            let flat: String = ov["v"].to_string().chars().filter(|c| !matches!(c, '"' | '[' | ']' | ',' | ' ')).collect();
                            let neutralish = flat.chars().all(|c| c == '0') || flat == "false" || flat == "null" || ov["v"]["k"] == "None";
                            if ov == gv && !neutralish {
                                rep.violation(
                                    &format!("C08:gap-took-donor-value:{}", gv["t"].as_str().unwrap_or("?")),
                                    &format!("{}.{}: instance {} lacked it and came back with instance {}'s value {}", class, k, orig, other, gv),
                                    replay.clone(),
                                    desc.clone(),
                                );
                            }
                        }
                    }
                }
            }
        }
    }
    if outcomes.len() > 1 {
        rep.violation(
            "C08:order-dependent-outcome",
            &format!("sibling order decides success: {:?}", outcomes),
            replay.clone(),
            desc.clone(),
        );
    }
}

pub fn main(a: &Args) {
    let seed = a.u64("seed", 1);
    let count = a.u64("count", 1000);
    let shard = a.u64("shard", 0);
    let nshards = a.u64("nshards", 1);
    let out = a.str("out", "/dev/stdout");
    let mut rep = Report::new("C08");
    if let Some(only) = a.kv.get("index") {
        case(&mut rep, seed, only.parse().unwrap());
    } else {
        let mut i = shard;
        while i < count {
            case(&mut rep, seed, i);
            i += nshards;
        }
    }
    rep.finish(&out);
}
