//! Workloads for the ThreadSanitizer build (nightly, -Zsanitizer=thread, -Zbuild-std): real OS threads
//! hammering the process-global state of the libraries at once - the SharedString intern table, the
//! `UniqueId::now` generator, the ustr cache, the lazily decoded reflection database - while every thread
//! also runs the ordinary round-trip and DOM-history oracles. The race detector watches; the driver counts
//! its report blocks. `--what selftest` contains a deliberate data race and must be reported, otherwise
//! the leg is inconclusive (a detector that cannot see a planted race proves nothing by staying quiet).

use std::sync::{Arc, Barrier};

use crate::domops::{self, Cfg, RandCh};
use crate::gen_dom::Fmt;
use crate::report::Report;
use crate::rng::Rng;
use crate::Args;
use rbx_dom_weak::types::*;
use serde_json::json;

static mut PLANTED: u64 = 0;

fn selftest(rep: &mut Report) {
    let b = Arc::new(Barrier::new(2));
    let hs: Vec<_> = (0..2)
        .map(|_| {
            let b = b.clone();
            std::thread::spawn(move || {
                b.wait();
                for _ in 0..100_000 {
                    // deliberately unsynchronised
                    unsafe {
                        let p = std::ptr::addr_of_mut!(PLANTED);
                        p.write_volatile(p.read_volatile() + 1);
                    }
                }
            })
        })
        .collect();
    for h in hs {
        h.join().unwrap();
    }
    rep.evaluations += 1;
    rep.add("tsan.selftest.planted_race_runs", 1);
}

fn mixed(rep: &mut Report, seed: u64, threads: usize, rounds: u64) {
    let start = Arc::new(Barrier::new(threads));
    let hs: Vec<_> = (0..threads)
        .map(|t| {
            let start = start.clone();
            std::thread::spawn(move || {
                let mut sub = Report::new("tsan");
                let mut r = Rng::derive(seed, "tsan-mixed", t as u64);
                start.wait();
                for i in 0..rounds {
                    match (t as u64 + i) % 4 {
                        0 => {
                            // binary round trip with the C01 oracle (database lookups, ustr, SharedString values)
                            let mut c = Report::new("C01");
                            crate::rt::run_case(&mut c, Fmt::Binary, seed, t as u64 * 1000 + i, false);
                            sub.add("tsan.mixed.binary_round_trips", 1);
                            for (sig, (n, w)) in c.violations {
                                if !sig.contains("shared-wire-name") {
                                    sub.violation(&sig, w["what"].as_str().unwrap_or(""), w["replay"].clone(), serde_json::Value::Null);
                                }
                                let _ = n;
                            }
                        }
                        1 => {
                            let mut c = Report::new("C02");
                            crate::rt::run_case(&mut c, Fmt::Xml, seed, t as u64 * 1000 + i, false);
                            sub.add("tsan.mixed.xml_round_trips", 1);
                            for (sig, (_, w)) in c.violations {
                                if !sig.contains("content.rs") {
                                    sub.violation(&sig, w["what"].as_str().unwrap_or(""), w["replay"].clone(), serde_json::Value::Null);
                                }
                            }
                        }
                        2 => {
                            // DOM histories: UniqueId collisions call UniqueId::now from every thread
                            let cfg = Cfg { exhaustive: false, ndoms: 2, init_nodes: 3, steps: 40, max_live: 16, uid_pool: 2, uid_base: 0, rich_props: true, max_insert: 3, scenario: 0 };
                            let mut ch = RandCh(Rng::derive(seed, "tsan-dom", t as u64 * 1000 + i));
                            let mut c = Report::new("C12");
                            domops::run_history(&mut ch, &cfg, &mut c, "C12", json!({"cmd": "tsan", "what": "mixed", "seed": seed}), false);
                            sub.add("tsan.mixed.dom_histories", 1);
                            for (sig, (_, w)) in c.violations {
                                sub.violation(&sig, w["what"].as_str().unwrap_or(""), w["replay"].clone(), serde_json::Value::Null);
                            }
                        }
                        _ => {
                            // SharedString churn on few contents + id generation
                            let mut held = vec![];
                            for _ in 0..200 {
                                let c = r.below(3) as u8;
                                let h = SharedString::new(vec![b't', c]);
                                if h.data() != [b't', c] {
                                    sub.violation("C18:tsan:data", "handle bytes differ from what was interned", json!({"cmd": "tsan", "seed": seed}), serde_json::Value::Null);
                                }
                                if r.chance(1, 2) {
                                    held.push(h);
                                } else if !held.is_empty() {
                                    let k = r.below(held.len());
                                    held.swap_remove(k);
                                }
                                let _ = UniqueId::now();
                            }
                            sub.add("tsan.mixed.sstr_churn_rounds", 1);
                        }
                    }
                    sub.evaluations += 1;
                }
                sub
            })
        })
        .collect();
    for h in hs {
        let sub = h.join().expect("tsan workload thread panicked");
        rep.evaluations += sub.evaluations;
        for (k, v) in sub.cov {
            rep.add(&k, v);
        }
        for (sig, (_, w)) in sub.violations {
            rep.violation(&sig, w["what"].as_str().unwrap_or(""), w["replay"].clone(), serde_json::Value::Null);
        }
    }
    rep.add("tsan.mixed.threads", threads as u64);
}

pub fn main(a: &Args) {
    let seed = a.u64("seed", 1);
    let out = a.str("out", "/dev/stdout");
    let mut rep = Report::new("tsan");
    match a.str("what", "mixed").as_str() {
        "selftest" => selftest(&mut rep),
        "mixed" => mixed(&mut rep, seed, a.usize("threads", 8), a.u64("rounds", 40)),
        _ => {}
    }
    rep.nontrivial(seed);
    rep.nontrivial(seed ^ 1);
    rep.finish(&out);
}
