//! Per-run summary (what the monitors observed) + panic capture.

use std::cell::RefCell;
use std::collections::{BTreeMap, BTreeSet};
use std::io::Write;
use std::panic::{self, AssertUnwindSafe};

use serde_json::{json, Value as J};

pub struct Report {
    pub prop: String,
    pub evaluations: u64,
    pub digests: BTreeSet<u64>,
    pub cov: BTreeMap<String, u64>,
    pub samples: Vec<J>,
    pub max_samples: usize,
    /// signature -> (count, first witness)
    pub violations: BTreeMap<String, (u64, J)>,
    pub notes: Vec<String>,
    pub extra: BTreeMap<String, J>,
    caselog: Option<std::io::BufWriter<std::fs::File>>,
}

impl Report {
    pub fn new(prop: &str) -> Report {
        Report {
            prop: prop.to_owned(),
            evaluations: 0,
            digests: BTreeSet::new(),
            cov: BTreeMap::new(),
            samples: vec![],
            max_samples: 3,
            violations: BTreeMap::new(),
            notes: vec![],
            extra: BTreeMap::new(),
            caselog: None,
        }
    }
    pub fn open_caselog(&mut self, path: &str) {
        let f = std::fs::File::create(path).expect("cannot create case log");
        self.caselog = Some(std::io::BufWriter::new(f));
    }
    pub fn has_caselog(&self) -> bool {
        self.caselog.is_some()
    }
    pub fn log_case(&mut self, rec: &J) {
        if let Some(w) = self.caselog.as_mut() {
            let _ = writeln!(w, "{}", rec);
        }
    }
    pub fn count(&mut self, key: &str) {
        *self.cov.entry(key.to_owned()).or_insert(0) += 1;
    }
    pub fn add(&mut self, key: &str, n: u64) {
        *self.cov.entry(key.to_owned()).or_insert(0) += n;
    }
    pub fn sample(&mut self, s: J) {
        if self.samples.len() < self.max_samples {
            self.samples.push(s);
        }
    }
    pub fn nontrivial(&mut self, digest: u64) {
        self.digests.insert(digest);
    }
    pub fn violation(&mut self, sig: &str, what: &str, mut replay: J, detail: J) {
        if log::max_level() == log::LevelFilter::Trace {
            if let Some(o) = replay.as_object_mut() {
                // this shard ran with the trace-level logger; a replay needs `--trace-log 1` too
                o.insert("trace-log".into(), json!(1));
            }
        }
        let e = self
            .violations
            .entry(sig.to_owned())
            .or_insert_with(|| (0, json!({"sig": sig, "what": what, "replay": replay, "detail": detail})));
        e.0 += 1;
    }
    pub fn finish(mut self, out: &str) {
        if let Some(mut w) = self.caselog.take() {
            let _ = w.flush();
        }
        let logged = LOG_RECORDS.load(std::sync::atomic::Ordering::Relaxed);
        if logged > 0 {
            self.add("trace-logger.records-formatted", logged);
        }
        let viol: Vec<J> = self
            .violations
            .iter()
            .map(|(_, (n, w))| {
                let mut w = w.clone();
                w["count"] = json!(n);
                w
            })
            .collect();
        let j = json!({
            "prop": self.prop,
            "evaluations": self.evaluations,
            "digests": self.digests.iter().map(|d| format!("{:016x}", d)).collect::<Vec<_>>(),
            "coverage": self.cov,
            "samples": self.samples,
            "violations": viol,
            "notes": self.notes,
            "extra": self.extra,
        });
        std::fs::write(out, serde_json::to_vec(&j).unwrap()).expect("cannot write summary");
    }
}

#[derive(Clone, Debug)]
pub struct PanicInfo {
    pub msg: String,
    pub file: String,
    pub line: u32,
    /// innermost frame that belongs to one of the repository's crates
    pub func: String,
}

thread_local! {
    static LAST_PANIC: RefCell<Option<PanicInfo>> = RefCell::new(None);
    static CATCH_DEPTH: std::cell::Cell<u32> = std::cell::Cell::new(0);
}

fn repo_frame(bt: &str) -> String {
    // frames look like "  7: write_xml<&mut Vec<u8>>\n             at /repo/rbx_xml/src/types/content.rs:27:19"
    let mut sym = String::new();
    for line in bt.lines() {
        let l = line.trim();
        if let Some(path) = l.strip_prefix("at ") {
            let in_repo = path.contains("/rbx_")
                && !path.starts_with("./")
                && !path.contains("/rustc/")
                && !path.contains(".cargo/registry");
            if in_repo {
                let mut s = sym.clone();
                if let Some(i) = s.find('<') {
                    if i > 0 {
                        s.truncate(i);
                    }
                }
                return s;
            }
        } else if let Some(pos) = l.find(": ") {
            sym = l[pos + 2..].to_owned();
        }
    }
    String::new()
}

pub fn install_panic_hook() {
    panic::set_hook(Box::new(|info| {
        let msg = if let Some(s) = info.payload().downcast_ref::<&str>() {
            s.to_string()
        } else if let Some(s) = info.payload().downcast_ref::<String>() {
            s.clone()
        } else {
            "<non-string panic>".to_owned()
        };
        let (file, line) = info
            .location()
            .map(|l| (l.file().to_owned(), l.line()))
            .unwrap_or_default();
        let bt = std::backtrace::Backtrace::force_capture().to_string();
        let func = repo_frame(&bt);
        if std::env::var("VH_DEBUG_BT").is_ok() {
            eprintln!("{}", bt);
        }
        if CATCH_DEPTH.with(|d| d.get()) == 0 {
            // a panic of the harness itself (not of code under test inside catch()): make it visible
            eprintln!("harness panic: {} at {}:{} [{}]", msg, file, line, func);
        }
        LAST_PANIC.with(|p| *p.borrow_mut() = Some(PanicInfo { msg, file, line, func }));
    }));
}

/// Run `f`, turning a panic into Err with its site.
pub fn catch<T>(f: impl FnOnce() -> T) -> Result<T, PanicInfo> {
    LAST_PANIC.with(|p| *p.borrow_mut() = None);
    CATCH_DEPTH.with(|d| d.set(d.get() + 1));
    let r = panic::catch_unwind(AssertUnwindSafe(f));
    CATCH_DEPTH.with(|d| d.set(d.get() - 1));
    match r {
        Ok(v) => Ok(v),
        Err(_) => Err(LAST_PANIC.with(|p| p.borrow_mut().take()).unwrap_or(PanicInfo {
            msg: "<unknown>".into(),
            file: String::new(),
            line: 0,
            func: String::new(),
        })),
    }
}

pub fn rel_file(f: &str) -> String {
    // "/repo/rbx_binary/src/chunk.rs" or a scratch copy "/tmp/x/rbx_binary/src/chunk.rs" -> "rbx_binary/src/chunk.rs"
    match f.find("rbx_") {
        Some(i) => f[i..].to_owned(),
        None => f.to_owned(),
    }
}

pub fn panic_sig(p: &PanicInfo) -> String {
    let func = if p.func.is_empty() { "?".to_owned() } else { p.func.clone() };
    format!("panic@{}:{}", rel_file(&p.file), func)
}


/// Number of log records the trace-level logger formatted (see `install_trace_logger`).
pub static LOG_RECORDS: std::sync::atomic::AtomicU64 = std::sync::atomic::AtomicU64::new(0);

struct TraceLogger;

impl log::Log for TraceLogger {
    fn enabled(&self, _: &log::Metadata) -> bool {
        true
    }
    fn log(&self, record: &log::Record) {
        // format the record (that is what evaluates the arguments of the log macro) and throw the text away
        use std::fmt::Write;
        let mut sink = String::new();
        let _ = write!(sink, "{}", record.args());
        std::hint::black_box(&sink);
        LOG_RECORDS.fetch_add(1, std::sync::atomic::Ordering::Relaxed);
    }
    fn flush(&self) {}
}

/// A program that uses these libraries may run with any `log` level. The libraries' log statements are only
/// evaluated when a logger accepts them, so a slip inside one (a slice on a byte index, a "getter" that allocates)
/// stays invisible under the default level. Some shards of every workload therefore run with a logger that accepts and
/// formats everything; what they observe must be what the silent shards observe.
pub fn install_trace_logger() {
    static L: TraceLogger = TraceLogger;
    if log::set_logger(&L).is_ok() {
        log::set_max_level(log::LevelFilter::Trace);
    }
}
