//! C04 / C05 (reader direction) / C15 (read paths): logical DOMs are emitted for the Python
//! reference *encoders*, and the files they produce are decoded by the real readers here and
//! compared with the dump they were generated from.

use std::io::{BufRead, Write};

use crate::canon;
use crate::dbwalk;
use crate::expect::{self, Expect, XmlMode};
use crate::gen_dom::{DomGen, Fmt};
use crate::report::{catch, panic_sig, Report};
use crate::rng::Rng;
use crate::spec::PV;
use crate::Args;
use serde_json::{json, Value as J};

/// Emit logical DOMs (the statement-derived *expected* dump of a generated spec, i.e. canonical
/// names and canonical value forms) plus the database facts a foreign writer needs.
pub fn gen_main(a: &Args) {
    let seed = a.u64("seed", 1);
    let count = a.u64("count", 100);
    let shard = a.u64("shard", 0);
    let nshards = a.u64("nshards", 1);
    let fmt = if a.str("fmt", "bin") == "xml" { Fmt::Xml } else { Fmt::Binary };
    let cases = a.str("cases", "/dev/stdout");
    let mut w = std::io::BufWriter::new(std::fs::File::create(&cases).expect("cases file"));
    let db = dbwalk::db();
    let mut i = shard;
    let mut n = 0u64;
    while i < count {
        let mut rng = Rng::derive(seed, if fmt == Fmt::Binary { "c04" } else { "c05r" }, i);
        let mut gen = if fmt == Fmt::Binary { DomGen::binary() } else { DomGen::xml() };
        gen.max_nodes = 16;
        // a foreign writer is a newer/other tool: it writes canonical wire names only
        gen.aliases = false;
        if fmt == Fmt::Xml {
            // default reader options: database-known classes and properties only
            gen.unknown_props = false;
            gen.unknown_classes = false;
        }
        let mut spec = if i % 60 == 59 { gen.scale_tree(&mut rng) } else { gen.tree(&mut rng) };
        if fmt == Fmt::Xml {
            // Content::Object in XML is covered by the hand-written E5 cases of the monitor
            for nsp in spec.nodes.iter_mut() {
                nsp.props.retain(|(_, pv)| !matches!(pv, PV::ContentObj(_)));
            }
        }
        let sel: Vec<usize> = spec.nodes[0].children.clone();
        let nan = fmt == Fmt::Xml;
        let exp = canon::with_nan_class(nan, || expect::expect_roundtrip(&spec, &sel, fmt, XmlMode::Default));
        // wire names and types for every (class, back name) in the dump
        let mut wire = serde_json::Map::new();
        let mut services = vec![];
        for nsp in spec.nodes.iter().skip(1) {
            if dbwalk::is_service(db, &nsp.class) && !services.contains(&nsp.class) {
                services.push(nsp.class.clone());
            }
            for (k, _) in &nsp.props {
                if let Some(t) = dbwalk::travel(db, &nsp.class, k) {
                    let e = wire.entry(nsp.class.clone()).or_insert_with(|| json!({}));
                    e[t.back_name.clone()] = json!([t.wire_name, format!("{:?}", t.wire_ty), format!("{:?}", t.declared_ty)]);
                }
            }
        }
        let rec = json!({"kind": "logical", "seed": seed, "index": i, "logical": exp.dump, "wire": wire, "services": services});
        writeln!(w, "{}", rec).unwrap();
        n += 1;
        i += nshards;
    }
    w.flush().unwrap();
    let out = a.str("out", "/dev/null");
    let mut rep = Report::new("gen");
    rep.evaluations = n;
    rep.finish(&out);
}

/// Every (class, property) of the database whose declared type is Int64 / Float64 and that
/// serializes: used for the exhaustive "narrow numeric on the wire" sweep.
pub fn widen_list(a: &Args) {
    let db = dbwalk::db();
    let mut out = vec![];
    for class in dbwalk::sorted_class_names(db) {
        let c = &db.classes[class];
        let mut names: Vec<&str> = c.properties.keys().map(|k| k.as_ref()).collect();
        names.sort();
        for p in names {
            if let Some(t) = dbwalk::travel(db, class, p) {
                let r = t.resolved;
                if r.via_alias || r.owner.name != class {
                    continue;
                }
                let d = format!("{:?}", t.declared_ty);
                if (d == "Int64" || d == "Float64") && t.back_name != "Name" {
                    out.push(json!({"class": class, "back": t.back_name, "wire": t.wire_name, "wire_ty": format!("{:?}", t.wire_ty), "declared": d}));
                }
            }
        }
    }
    let path = a.str("cases", "/dev/stdout");
    std::fs::write(path, serde_json::to_vec(&out).unwrap()).unwrap();
    Report::new("gen").finish(&a.str("out", "/dev/null"));
}

/// For (class, on-wire property name) pairs: what the database says the reader should make of
/// them (independent walk). Used to interpret Studio-written files decoded by refbin.py.
pub fn wiremap_main(a: &Args) {
    let db = dbwalk::db();
    let input: Vec<(String, String)> = serde_json::from_str(&std::fs::read_to_string(a.str("in", "/dev/stdin")).unwrap()).unwrap();
    let mut out = vec![];
    for (class, wire) in input {
        let rec = match dbwalk::resolve(db, &class, &wire) {
            None => json!({"class": class, "wire": wire, "status": "unknown"}),
            Some(r) => {
                let declared = dbwalk::vtype(r.canonical).map(|t| format!("{:?}", t));
                let status = match r.ser {
                    dbwalk::Ser::As(_) => "ok",
                    dbwalk::Ser::No => "noserialize",
                    dbwalk::Ser::Migrate(_) => "migrate",
                    dbwalk::Ser::Unknown => "unknown-kind",
                };
                json!({"class": class, "wire": wire, "status": status, "back": r.canonical.name, "declared": declared})
            }
        };
        out.push(rec);
    }
    std::fs::write(a.str("out", "/dev/stdout"), serde_json::to_vec(&out).unwrap()).unwrap();
}

/// Read {"id","prop","fmt","bytes_hex"|"text","expected","mode"} lines, decode with the real
/// reader, compare exactly (no extra properties allowed).
pub fn readcmp_main(a: &Args) {
    let input = a.str("in", "/dev/stdin");
    let out = a.str("out", "/dev/stdout");
    let prop = a.str("prop", "C04");
    let mut rep = Report::new(&prop);
    let f = std::io::BufReader::new(std::fs::File::open(&input).expect("input"));
    for line in f.lines() {
        let line = line.unwrap();
        if line.trim().is_empty() {
            continue;
        }
        // expected dumps nest two JSON levels per tree level: lift serde_json's depth limit of 128
        let rec: J = {
            use serde::Deserialize;
            let mut de = serde_json::Deserializer::from_str(&line);
            de.disable_recursion_limit();
            J::deserialize(&mut de).expect("bad record")
        };
        let fmt = rec["fmt"].as_str().unwrap_or("bin").to_owned();
        let bytes: Vec<u8> = if let Some(h) = rec["bytes_hex"].as_str() {
            canon::unhex(h)
        } else {
            rec["text"].as_str().unwrap_or("").as_bytes().to_vec()
        };
        let sigbase = rec["sig"].as_str().unwrap_or("").to_owned();
        let replay = json!({"file_hex": canon::hex(&bytes[..bytes.len().min(200000)]), "fmt": fmt, "id": rec["id"], "origin": rec["origin"]});
        rep.evaluations += 1;
        if let Some(tags) = rec["tags"].as_array() {
            for t in tags {
                rep.count(&format!("freedom.{}", t.as_str().unwrap_or("?")));
            }
        }
        let nan = fmt == "xml";
        let xml_mode = match rec["mode"].as_str().unwrap_or("Default") {
            "Unknown" => XmlMode::Unknown,
            "NoReflection" => XmlMode::NoReflection,
            _ => XmlMode::Default,
        };
        let decoded = catch(|| {
            if fmt == "xml" {
                rbx_xml::from_reader(&bytes[..], crate::rt::xml_options(xml_mode).1).map_err(|e| e.to_string())
            } else {
                rbx_binary::from_reader(&bytes[..]).map_err(|e| e.to_string())
            }
        });
        let expect_err = rec["expect"].as_str() == Some("err");
        let dom = match decoded {
            Err(p) => {
                rep.count("outcome.panic");
                rep.violation(
                    &format!("{}:read:{}{}", prop, panic_sig(&p), sigbase),
                    &format!("reader panicked on a spec-conformant foreign file: {} at {}:{}", p.msg, p.file, p.line),
                    replay,
                    json!({"tags": rec["tags"]}),
                );
                continue;
            }
            Ok(Err(e)) => {
                if expect_err {
                    rep.count("outcome.err_as_expected");
                    continue;
                }
                rep.count("outcome.err");
                let mut ec = e.clone();
                if ec.starts_with("line ") {
                    if let Some(p) = ec.find(": ") {
                        ec = ec[p + 2..].to_owned();
                    }
                }
                // keep the rule, drop names: "Type mismatch: Property X.Y should be ..." -> "Type mismatch"
                let ec: String = ec.split(':').next().unwrap_or("").chars().take(48).filter(|c| !c.is_ascii_digit()).collect();
                rep.violation(
                    &format!("{}:read-error:{}{}", prop, ec.trim(), sigbase),
                    &format!("reader rejected a spec-conformant foreign file: {}", e),
                    replay,
                    json!({"tags": rec["tags"]}),
                );
                continue;
            }
            Ok(Ok(d)) => d,
        };
        if expect_err {
            rep.count("outcome.ok_but_expected_err");
            continue;
        }
        let mut dump = canon::with_nan_class(nan, || canon::dump_decoded(&dom));
        if rec["subset"].as_bool() == Some(true) {
            // compare only the properties the expectation lists (the rest is outside what the producer could interpret)
            fn strip(e: &J, a: &mut J) {
                if let (Some(ep), Some(ap)) = (e["props"].as_object(), a["props"].as_object_mut()) {
                    ap.retain(|k, _| ep.contains_key(k));
                }
                if let (Some(ec), Some(ac)) = (e["children"].as_array(), a["children"].as_array_mut()) {
                    for (x, y) in ec.iter().zip(ac.iter_mut()) {
                        strip(x, y);
                    }
                }
            }
            if let (Some(er), Some(ar)) = (rec["expected"]["roots"].as_array(), dump["roots"].as_array_mut()) {
                for (x, y) in er.iter().zip(ar.iter_mut()) {
                    strip(x, y);
                }
            }
        }
        let exp = Expect { dump: rec["expected"].clone(), carried: Default::default() };
        let ninst = rec["expected"].to_string().matches("\"class\"").count();
        if ninst >= 2 {
            rep.nontrivial(crate::rng::fnv64(&bytes));
        }
        rep.sample(json!({"id": rec["id"], "fmt": fmt, "file_bytes": bytes.len(), "instances": ninst, "tags": rec["tags"]}));
        match canon::with_nan_class(nan, || expect::compare(&exp, &dump, false)) {
            None => rep.count("outcome.ok"),
            Some(m) => {
                rep.count("outcome.mismatch");
                // Is the only difference that text consisting of blanks alone came back empty?
                fn blank_fold(v: &J) -> J {
                    match v {
                        // whitespace-only runs of text (whole values, or the pieces between character references,
                        // CDATA sections and comments) are what the reader loses: compare modulo whitespace
                        J::String(s) if s.chars().any(|c| c.is_whitespace()) => J::String(s.chars().filter(|c| !c.is_whitespace()).collect()),
                        J::Array(a) => J::Array(a.iter().map(blank_fold).collect()),
                        // (tag lists travel as base64 blobs, not as element text: left as they are)
                        J::Object(o) if o.get("t").map(|t| t == "Tags").unwrap_or(false) => v.clone(),
                        J::Object(o) => J::Object(o.iter().map(|(k, v)| (k.clone(), blank_fold(v))).collect()),
                        other => other.clone(),
                    }
                }
                let folded = Expect { dump: blank_fold(&rec["expected"]), carried: Default::default() };
                let dump_folded = blank_fold(&dump);
                // The listed finding is about whitespace-only EVENTS: a whole value of blanks, or a blank piece next to a
                // CDATA section, comment or character reference. It must not swallow anything else: hand-written documents
                // are exempt, and in a document without such markup only "all blanks in, empty out" qualifies.
                let has_tag = |t: &str| rec["tags"].as_array().map(|a| a.iter().any(|x| x == t)).unwrap_or(false);
                let pieces_possible = has_tag("cdata") || has_tag("comments") || has_tag("charrefs");
                let as_text = |j: &str| -> Option<String> {
                    match serde_json::from_str::<J>(j) {
                        Ok(J::String(t)) => Some(t),
                        Ok(J::Object(o)) => o.get("v").and_then(|v| v.as_str()).map(|t| t.to_owned()),
                        _ => None,
                    }
                };
                // "all blanks in, empty out", wherever the text sits inside the value (a plain string, the uri of a Content,
                // the family or cached face of a Font): the two values have the same shape and differ only in string leaves
                // that are blank on the expected side and empty on the decoded side
                fn blank_to_empty_only(e: &J, a: &J, seen: &mut bool) -> bool {
                    match (e, a) {
                        (J::String(x), J::String(y)) => {
                            if x == y {
                                true
                            } else if y.is_empty() && !x.is_empty() && x.chars().all(|c| c.is_whitespace()) {
                                *seen = true;
                                true
                            } else {
                                false
                            }
                        }
                        (J::Array(x), J::Array(y)) => x.len() == y.len() && x.iter().zip(y).all(|(p, q)| blank_to_empty_only(p, q, seen)),
                        (J::Object(x), J::Object(y)) => x.len() == y.len() && x.iter().all(|(k, p)| y.get(k).map(|q| blank_to_empty_only(p, q, seen)).unwrap_or(false)),
                        (p, q) => p == q,
                    }
                }
                let whole_blank_nested = match (serde_json::from_str::<J>(&m.expected), serde_json::from_str::<J>(&m.actual)) {
                    (Ok(e), Ok(a)) => {
                        let mut seen = false;
                        blank_to_empty_only(&e, &a, &mut seen) && seen
                    }
                    _ => false,
                };
                let whole_blank = whole_blank_nested || (as_text(&m.actual).map(|t| t.is_empty()).unwrap_or(false) && as_text(&m.expected).map(|t| !t.is_empty() && t.chars().all(|c| c.is_whitespace())).unwrap_or(false));
                let may_be_known = !has_tag("fixed-document") && (pieces_possible || whole_blank);
                let folded_res = if fmt == "xml" && may_be_known { Some(canon::with_nan_class(nan, || expect::compare(&folded, &dump_folded, false))) } else { None };
                if let Some(Some(soft)) = &folded_res {
                    if soft.kind == "empty-tag-dropped" {
                        // the other listed reader finding, in the same document
                        rep.violation(&format!("{}:empty-tag-dropped:Tags{}", prop, sigbase), &format!("an empty tag was dropped at {} ({}.{})", soft.path, soft.class, soft.prop), replay.clone(), json!({"tags": rec["tags"]}));
                    }
                }
                if folded_res.map(|r| r.map(|s| s.kind == "empty-tag-dropped").unwrap_or(true)).unwrap_or(false) {
                    rep.violation(
                        &format!("{}:reader:whitespace-only-text", prop),
                        &format!("a whitespace-only run of element text was dropped at {} ({}.{}): expected {} got {}", m.path, m.class, m.prop, m.expected, m.actual),
                        replay,
                        json!({"tags": rec["tags"]}),
                    );
                    continue;
                }
                let sig_ref = if m.vtype == "Ref" || m.vtype == "Content" { rec["sig_ref"].as_str().unwrap_or("") } else { "" };
                rep.violation(
                    &format!("{}:{}:{}{}{}", prop, m.kind, m.vtype, sigbase, sig_ref),
                    &format!(
                        "foreign file decoded differently at {} ({}.{}): expected {} got {}",
                        m.path, m.class, m.prop, m.expected, m.actual
                    ),
                    replay,
                    json!({"tags": rec["tags"], "mismatch": format!("{:?}", m)}),
                );
            }
        }
    }
    rep.finish(&out);
}
