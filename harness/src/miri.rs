//! Small workloads sized for the Miri interpreter (undefined behaviour, data races, weak-memory
//! emulation of the Arc / Weak / atomics code). They avoid the reflection database (its msgpack
//! decode alone does not finish under Miri) and the lz4 / zstd FFI.

use std::collections::HashSet;
use std::sync::Arc;

use crate::canon;
use crate::domops::{self, Cfg, RandCh};
use crate::gen_value::VGen;
use crate::report::Report;
use crate::rng::Rng;
use crate::Args;
use rbx_dom_weak::types::*;
use serde_json::{json, Value as J};

fn dom(rep: &mut Report, seed: u64) {
    let rng = Rng::derive(seed, "miri-dom", 0);
    let cfg = Cfg { exhaustive: false, ndoms: 2, init_nodes: 3, steps: 9, max_live: 10, uid_pool: 2, uid_base: 0, rich_props: true, max_insert: 2, scenario: 0 };
    let mut ch = RandCh(rng);
    for want in ["C09", "C10", "C11", "C12"] {
        let mut sub = Report::new(want);
        domops::run_history(&mut ch, &cfg, &mut sub, want, json!({"cmd": "miri", "what": "dom", "seed": seed}), true);
        rep.evaluations += sub.evaluations;
        for (k, v) in sub.cov {
            rep.add(&format!("miri.dom.{}", k), v);
        }
        for (sig, (n, w)) in sub.violations {
            rep.violation(&sig, w["what"].as_str().unwrap_or(""), w["replay"].clone(), J::Null);
            let _ = n;
        }
    }
}

fn sstr(rep: &mut Report, seed: u64) {
    // uncontrolled threads: Miri's own scheduler (different per -Zmiri-seed) picks the interleaving
    let base = rbx_types::verif_hooks::cache_len();
    let errors = Arc::new(std::sync::Mutex::new(Vec::<String>::new()));
    let hs: Vec<_> = (0..3)
        .map(|t| {
            let errors = errors.clone();
            std::thread::spawn(move || {
                let mut r = Rng::derive(seed, "miri-sstr", t);
                let mut held: Vec<(u8, SharedString)> = vec![];
                let mut ids = vec![];
                for _ in 0..6 {
                    match r.below(3) {
                        0 | 1 => {
                            let c = r.below(2) as u8;
                            let bytes = vec![b'm', c];
                            let h = SharedString::new(bytes.clone());
                            if h.data() != &bytes[..] {
                                errors.lock().unwrap().push("data mismatch".into());
                            }
                            for (oc, o) in &held {
                                if *oc == c && (o != &h || o.data().as_ptr() != h.data().as_ptr()) {
                                    errors.lock().unwrap().push("two live equal handles of one thread differ".into());
                                }
                            }
                            held.push((c, h));
                        }
                        _ => {
                            if !held.is_empty() {
                                let i = r.below(held.len());
                                if r.chance(1, 2) {
                                    let cl = (held[i].0, held[i].1.clone());
                                    held.push(cl);
                                } else {
                                    held.swap_remove(i);
                                }
                            }
                        }
                    }
                    ids.push(UniqueId::now().unwrap());
                }
                drop(held);
                ids
            })
        })
        .collect();
    let mut all = vec![];
    for h in hs {
        all.extend(h.join().expect("thread panicked"));
    }
    rep.evaluations += 1;
    rep.add("miri.sstr.threads", 3);
    rep.add("miri.sstr.unique_ids", all.len() as u64);
    let set: HashSet<(u32, u32, i64)> = all.iter().map(|u| (u.index(), u.time(), u.random())).collect();
    if set.len() != all.len() {
        rep.violation("C12:now-repeat", "UniqueId::now repeated a value under Miri", json!({"cmd": "miri", "what": "sstr", "seed": seed}), J::Null);
    }
    for e in errors.lock().unwrap().iter() {
        rep.violation(&format!("C18:miri:{}", e), e, json!({"cmd": "miri", "what": "sstr", "seed": seed}), J::Null);
    }
    if rbx_types::verif_hooks::cache_len() != base {
        rep.violation("C18:miri:table-not-empty", "intern table not back to its initial size", json!({"cmd": "miri", "what": "sstr", "seed": seed}), J::Null);
    }
}

fn attr(rep: &mut Report, seed: u64) {
    let g = VGen::binary();
    let no = |_: Ref| J::Null;
    for i in 0..6 {
        let mut r = Rng::derive(seed, "miri-attr", i);
        let a = g.attributes(&mut r, 6);
        let mut b = vec![];
        a.to_writer(&mut b).expect("to_writer");
        let back = Attributes::from_reader(&b[..]).expect("from_reader");
        rep.evaluations += 1;
        rep.add("miri.attr.maps", 1);
        let exp = canon::attributes(&crate::expect::norm_attrs(&a), &no);
        if canon::attributes(&back, &no) != exp {
            rep.violation("C14:miri:roundtrip", "attribute map changed under Miri", json!({"cmd": "miri", "what": "attr", "seed": seed}), J::Null);
        }
        // and a few hostile blobs
        let mut m = b.clone();
        if !m.is_empty() {
            let k = r.below(m.len());
            m[k] ^= 0x55;
            let _ = Attributes::from_reader(&m[..]);
            let _ = Attributes::from_reader(&b[..b.len() / 2]);
        }
    }
}

fn serde(rep: &mut Report, seed: u64) {
    let g = VGen { xml: false, big: false, finite: true };
    let refstr = |r: Ref| if r.is_none() { J::Null } else { J::String(r.to_string()) };
    for (i, ty) in crate::c17::ALL_VARIANT_TYPES.iter().enumerate() {
        let mut r = Rng::derive(seed, "miri-serde", i as u64);
        let v = match ty {
            VariantType::Ref => Variant::Ref(Ref::new()),
            t => match g.gen(&mut r, *t) {
                Some(v) => v,
                None => continue,
            },
        };
        let orig = canon::value(&v, &refstr);
        rep.evaluations += 1;
        rep.add("miri.serde.values", 1);
        let b = bincode::serialize(&v).expect("bincode");
        let v2: Variant = bincode::deserialize(&b).expect("bincode de");
        let m = rmp_serde::to_vec(&v).expect("msgpack");
        let v3: Variant = rmp_serde::from_slice(&m).expect("msgpack de");
        let s = serde_json::to_string(&v).expect("json");
        let v4: Variant = serde_json::from_reader(s.as_bytes()).expect("json de");
        for (name, x) in [("bincode", v2), ("msgpack", v3), ("json", v4)] {
            if canon::value(&x, &refstr) != orig {
                rep.violation(&format!("C17:miri:{}:{:?}", name, ty), "value changed under Miri", json!({"cmd": "miri", "what": "serde", "seed": seed}), J::Null);
            }
        }
    }
}

pub fn main(a: &Args) {
    let seed = a.u64("seed", 1);
    let out = a.str("out", "/dev/stdout");
    let mut rep = Report::new("miri");
    match a.str("what", "dom").as_str() {
        "dom" => dom(&mut rep, seed),
        "sstr" => sstr(&mut rep, seed),
        "attr" => attr(&mut rep, seed),
        "serde" => serde(&mut rep, seed),
        _ => {}
    }
    rep.nontrivial(seed);
    rep.nontrivial(seed ^ 1);
    rep.finish(&out);
}
