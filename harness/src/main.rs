mod alloc_mon;
mod c06;
mod c07;
mod c08;
mod c12x;
mod c13;
mod c14;
mod c15;
mod c16;
mod c17;
mod canon;
mod dbwalk;
mod domops;
mod expect;
mod foreign;
mod gen_dom;
mod gen_value;
mod miri;
mod tsan;
mod report;
mod rng;
mod rot;
mod rt;
mod spec;
mod sstr;
mod sweep;

use std::collections::HashMap;

#[global_allocator]
static GLOBAL: alloc_mon::Mon = alloc_mon::Mon;

pub struct Args {
    pub cmd: String,
    pub pos: Vec<String>,
    pub kv: HashMap<String, String>,
}

impl Args {
    pub fn parse() -> Args {
        let mut it = std::env::args().skip(1);
        let cmd = it.next().unwrap_or_default();
        let mut pos = vec![];
        let mut kv = HashMap::new();
        let rest: Vec<String> = it.collect();
        let mut i = 0;
        while i < rest.len() {
            if let Some(k) = rest[i].strip_prefix("--") {
                if i + 1 < rest.len() && !rest[i + 1].starts_with("--") {
                    kv.insert(k.to_owned(), rest[i + 1].clone());
                    i += 2;
                } else {
                    kv.insert(k.to_owned(), "1".to_owned());
                    i += 1;
                }
            } else {
                pos.push(rest[i].clone());
                i += 1;
            }
        }
        Args { cmd, pos, kv }
    }
    pub fn u64(&self, k: &str, d: u64) -> u64 {
        self.kv.get(k).and_then(|v| v.parse().ok()).unwrap_or(d)
    }
    pub fn usize(&self, k: &str, d: usize) -> usize {
        self.u64(k, d as u64) as usize
    }
    pub fn str(&self, k: &str, d: &str) -> String {
        self.kv.get(k).cloned().unwrap_or_else(|| d.to_owned())
    }
    pub fn flag(&self, k: &str) -> bool {
        self.kv.contains_key(k)
    }
}

fn dbinfo(a: &Args) {
    let db = dbwalk::db();
    let class = &a.pos[0];
    if a.pos.len() == 1 {
        for (owner, d) in dbwalk::all_props(db, class) {
            println!("{}.{}: {:?} {:?}", owner.name, d.name, d.data_type, d.kind);
        }
        return;
    }
    let prop = &a.pos[1];
    match dbwalk::resolve(db, class, prop) {
        None => println!("unknown"),
        Some(r) => {
            println!("owner={} canonical={} {:?} kind={:?} via_alias={}", r.owner.name, r.canonical.name, r.canonical.data_type, r.canonical.kind, r.via_alias);
            if let Some(t) = dbwalk::travel(db, class, prop) {
                println!("travel: wire={} {:?} back={} {:?}", t.wire_name, t.wire_ty, t.back_name, t.declared_ty);
            }
            println!("default: {:?}", dbwalk::default_for(db, class, r.canonical.name.as_ref()));
        }
    }
}

fn main() {
    let a = Args::parse();
    report::install_panic_hook();
    if a.flag("trace-log") {
        report::install_trace_logger();
    }
    match a.cmd.as_str() {
        "dbinfo" => dbinfo(&a),
        "c01" => rt::main(&a, gen_dom::Fmt::Binary),
        "c02" => rt::main(&a, gen_dom::Fmt::Xml),
        "domops" => domops::main(&a),
        "sstr" => sstr::main(&a),
        "c15" => c15::main(&a),
        "c16" => c16::main(&a),
        "c17" => c17::main(&a),
        "miri" => miri::main(&a),
        "tsan" => tsan::main(&a),
        "dump" => {
            // debugging aid: canonical dump of what a decoder makes of a file given as hex
            let data = match a.kv.get("file") {
                Some(f) => std::fs::read(f).expect("file"),
                None => canon::unhex(&a.str("hex", "")),
            };
            let t0 = std::time::Instant::now();
            let d = if a.str("fmt", "bin") == "bin" { rbx_binary::from_reader(&data[..]).map_err(|e| e.to_string()) } else { rbx_xml::from_reader_default(&data[..]).map_err(|e| e.to_string()) };
            match d {
                Ok(d) if a.flag("time") => {
                    let t1 = t0.elapsed();
                    let j = canon::dump_decoded(&d);
                    let t2 = t0.elapsed();
                    let dg = canon::digest(&j);
                    println!("decode {:?}  dump {:?}  digest {:?} ({:x})", t1, t2 - t1, t0.elapsed() - t2, dg);
                }
                Ok(d) => println!("{}", serde_json::to_string_pretty(&canon::dump_decoded(&d)).unwrap()),
                Err(e) => println!("error: {}", e),
            }
        }
        "sweep" => sweep::main(&a),
        "c06" => c06::main(&a),
        "c07" => c07::main(&a),
        "c08" => c08::main(&a),
        "c13" => c13::main(&a),
        "c13child" => c13::child_main(),
        "c14" => c14::main(&a),
        "c14read" => c14::read_main(&a),
        "c12read" => c12x::read_main(&a),
        "uidnow" => c12x::now_main(&a),
        "foreigngen" => foreign::gen_main(&a),
        "widenlist" => foreign::widen_list(&a),
        "readcmp" => foreign::readcmp_main(&a),
        "wiremap" => foreign::wiremap_main(&a),
        other => {
            eprintln!("unknown command {other:?}");
            std::process::exit(2);
        }
    }
}
