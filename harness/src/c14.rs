//! C14: attribute blobs. Online oracle: to_writer -> from_reader against the statement's
//! normalisations; the case log feeds the independent blob codec (refattr.py) and the
//! "same blob in both file formats" monitor.

use std::io::BufRead;

use crate::canon;
use crate::expect::norm_attrs;
use crate::gen_value::VGen;
use crate::report::{catch, panic_sig, Report};
use crate::rng::Rng;
use crate::Args;
use rbx_dom_weak::types::*;
use rbx_dom_weak::{InstanceBuilder, WeakDom};
use serde_json::{json, Value as J};

fn gen_map(r: &mut Rng, index: u64) -> Attributes {
    let g = VGen { xml: false, big: false, finite: false };
    let mut a = match r.below(10) {
        0 => Attributes::new(),
        1 => g.attributes(r, 40),
        _ => g.attributes(r, 8),
    };
    // systematic coverage: every rotation id, every BrickColor number, long sequences
    let bases = crate::rot::bases();
    let b = bases[(index as usize) % 24].1;
    a.insert(
        format!("rot{}", index % 24),
        Variant::CFrame(CFrame::new(g.vector3(r), crate::rot::from_m(&b))),
    );
    if let Some(bc) = BrickColor::from_number((index % 1100) as u16) {
        a.insert("brick".into(), Variant::BrickColor(bc));
    }
    if index % 23 == 0 {
        // lengths around powers of two and well past any plausible pre-allocation clamp
        let n = *r.pick(&[0usize, 1, 2, 100, 255, 256, 1000, 1023, 1024, 1025, 1100, 2048, 3000, 4097]);
        a.insert(
            "longseq".into(),
            Variant::NumberSequence(NumberSequence { keypoints: (0..n).map(|_| NumberSequenceKeypoint::new(g.f32(r), g.f32(r), g.f32(r))).collect() }),
        );
        a.insert(
            "longcolors".into(),
            Variant::ColorSequence(ColorSequence { keypoints: (0..n).map(|_| ColorSequenceKeypoint::new(g.f32(r), g.color3(r))).collect() }),
        );
    }
    if index % 2 == 0 {
        a.insert("zz-after-long".into(), Variant::Int32(index as i32));
    }
    if index % 97 == 0 {
        // a blob past 64 KiB (the file-level leg then stores it in both formats)
        a.insert("hugebytes".into(), Variant::BinaryString(vec![0x3cu8; *r.pick(&[65536usize, 65537, 70000, 200000])].into()));
    }
    if index % 13 == 0 {
        a.insert("fontempty".into(), Variant::Font(Font { family: String::new(), weight: FontWeight::Thin, style: FontStyle::Italic, cached_face_id: None }));
    }
    a
}

fn case(rep: &mut Report, seed: u64, index: u64) {
    let mut r = Rng::derive(seed, "c14", index);
    let a = gen_map(&mut r, index);
    let replay = json!({"cmd": "c14", "seed": seed, "index": index});
    rep.evaluations += 1;
    let no = |_: Ref| J::Null;
    let src = canon::attributes(&a, &no);
    let exp = canon::attributes(&norm_attrs(&a), &no);
    for (_, v) in a.iter() {
        rep.count(&format!("attr.{:?}", v.ty()));
    }
    if a.len() >= 2 {
        rep.nontrivial(canon::digest(&src));
    }
    rep.sample(json!({"index": index, "entries": a.len(), "names": a.iter().map(|(k, _)| k.clone()).take(6).collect::<Vec<_>>()}));
    let mut bytes = Vec::new();
    match catch(|| a.to_writer(&mut bytes)) {
        Err(p) => {
            rep.violation(&format!("C14:write:{}", panic_sig(&p)), &format!("Attributes::to_writer panicked: {}", p.msg), replay, J::Null);
            return;
        }
        Ok(Err(e)) => {
            rep.violation("C14:write-error", &format!("Attributes::to_writer failed on supported types: {}", e), replay, J::Null);
            return;
        }
        Ok(Ok(())) => {}
    }
    // the same map through writers that are not a Vec: one that only implements `write` (so the default
    // `write_vectored` forwards just the first non-empty slice), one that accepts a few bytes per call, and a
    // small BufWriter in front of the first. `Write` allows all of that; the bytes must not depend on it.
    {
        struct OnlyWrite(Vec<u8>);
        impl std::io::Write for OnlyWrite {
            fn write(&mut self, b: &[u8]) -> std::io::Result<usize> {
                self.0.extend_from_slice(b);
                Ok(b.len())
            }
            fn flush(&mut self) -> std::io::Result<()> {
                Ok(())
            }
        }
        struct Trickle(Vec<u8>, usize);
        impl std::io::Write for Trickle {
            fn write(&mut self, b: &[u8]) -> std::io::Result<usize> {
                let n = b.len().min(self.1);
                self.0.extend_from_slice(&b[..n]);
                Ok(n)
            }
            fn flush(&mut self) -> std::io::Result<()> {
                Ok(())
            }
        }
        let step = 1 + (index % 7) as usize;
        let outs: Vec<(&str, Result<Result<Vec<u8>, String>, crate::report::PanicInfo>)> = vec![
            ("plain-write-only", catch(|| {
                let mut w = OnlyWrite(vec![]);
                a.to_writer(&mut w).map_err(|e| e.to_string())?;
                Ok(w.0)
            })),
            ("few-bytes-per-call", catch(|| {
                let mut w = Trickle(vec![], step);
                a.to_writer(&mut w).map_err(|e| e.to_string())?;
                Ok(w.0)
            })),
            ("small-bufwriter", catch(|| {
                let mut w = std::io::BufWriter::with_capacity(16 + step, OnlyWrite(vec![]));
                a.to_writer(&mut w).map_err(|e| e.to_string())?;
                w.into_inner().map(|x| x.0).map_err(|e| e.to_string())
            })),
        ];
        // a to_writer call that fails half-way (sink refuses after k bytes) must report it, and leave nothing behind
        if !bytes.is_empty() {
            struct FailAfter(usize);
            impl std::io::Write for FailAfter {
                fn write(&mut self, b: &[u8]) -> std::io::Result<usize> {
                    if self.0 == 0 {
                        return Err(std::io::Error::new(std::io::ErrorKind::Other, "sink full"));
                    }
                    let n = b.len().min(self.0);
                    self.0 -= n;
                    Ok(n)
                }
                fn flush(&mut self) -> std::io::Result<()> {
                    Ok(())
                }
            }
            let k = (index as usize * 31) % bytes.len();
            rep.count("fault.to_writer-sink-fails");
            match catch(|| a.to_writer(FailAfter(k)).is_err()) {
                Ok(true) => {}
                Ok(false) => rep.violation("C14:sink-error-swallowed", &format!("the sink refused everything after {} of {} bytes and to_writer reported success", k, bytes.len()), replay.clone(), J::Null),
                Err(p) => rep.violation(&format!("C14:write:{}", panic_sig(&p)), &format!("to_writer panicked on a failing sink: {}", p.msg), replay.clone(), J::Null),
            }
            let mut again = vec![];
            if a.to_writer(&mut again).is_err() || again != bytes {
                rep.violation("C14:state-left-by-failed-call", "after a to_writer call that failed, the same map encodes to other bytes", replay.clone(), J::Null);
            }
        }
        for (kind, o) in outs {
            rep.count(&format!("writer-kinds.{}", kind));
            match o {
                Ok(Ok(b)) if b == bytes => {}
                Ok(Ok(b)) => rep.violation(
                    &format!("C14:writer-kind:{}", kind),
                    &format!("to_writer produced {} bytes through a {} writer but {} bytes into a Vec (and reported success)", b.len(), kind, bytes.len()),
                    replay.clone(),
                    J::Null,
                ),
                Ok(Err(e)) => rep.violation(&format!("C14:writer-kind-error:{}", kind), &format!("to_writer failed through a {} writer: {}", kind, e), replay.clone(), J::Null),
                Err(p) => rep.violation(&format!("C14:write:{}", panic_sig(&p)), &format!("to_writer panicked through a {} writer: {}", kind, p.msg), replay.clone(), J::Null),
            }
        }
    }
    // several blobs in ONE stream (a caller's own container format): each from_reader call must take exactly its blob
    if !a.is_empty() && index % 3 == 0 {
        let b2map = gen_map(&mut r, index + 1);
        let mut stream = bytes.clone();
        let mut b2 = vec![];
        if b2map.to_writer(&mut b2).is_ok() && !b2.is_empty() {
            stream.extend_from_slice(&b2);
            stream.extend_from_slice(b"TRAILER!");
            rep.count("streams.two-blobs-and-trailer");
            let res = catch(|| -> Result<(J, J, Vec<u8>), String> {
                let mut cur = std::io::Cursor::new(&stream[..]);
                let x = Attributes::from_reader(&mut cur).map_err(|e| format!("first blob: {}", e))?;
                let y = Attributes::from_reader(&mut cur).map_err(|e| format!("second blob: {}", e))?;
                let mut rest = vec![];
                std::io::Read::read_to_end(&mut cur, &mut rest).map_err(|e| e.to_string())?;
                Ok((canon::attributes(&x, &no), canon::attributes(&y, &no), rest))
            });
            let exp2 = canon::attributes(&norm_attrs(&b2map), &no);
            match res {
                Ok(Ok((x, y, rest))) => {
                    if x != exp || y != exp2 || rest != b"TRAILER!" {
                        let what = if x != exp { "the first map" } else if y != exp2 { "the second map" } else { "the caller's data after the blobs" };
                        rep.violation(
                            "C14:stream-of-blobs",
                            &format!("two blobs and a trailer in one stream: {} came back wrong ({} trailer bytes left of 8)", what, rest.len()),
                            replay.clone(),
                            J::Null,
                        );
                    }
                }
                Ok(Err(e)) => rep.violation("C14:stream-of-blobs:error", &format!("two blobs in one stream: {}", e), replay.clone(), J::Null),
                Err(p) => rep.violation(&format!("C14:read:{}", panic_sig(&p)), &format!("from_reader panicked on a stream of blobs: {}", p.msg), replay.clone(), J::Null),
            }
        }
    }
    if a.is_empty() != bytes.is_empty() {
        rep.violation("C14:empty", &format!("empty map <-> zero bytes broken: {} entries, {} bytes", a.len(), bytes.len()), replay.clone(), J::Null);
    }
    match catch(|| Attributes::from_reader(&bytes[..])) {
        Err(p) => rep.violation(&format!("C14:read:{}", panic_sig(&p)), &format!("Attributes::from_reader panicked on its own output: {}", p.msg), replay.clone(), J::Null),
        Ok(Err(e)) => rep.violation("C14:read-error", &format!("Attributes::from_reader rejected its own output: {}", e), replay.clone(), J::Null),
        Ok(Ok(back)) => {
            let got = canon::attributes(&back, &no);
            if let Some((path, e, g)) = canon::diff(&exp, &got) {
                let ty = exp
                    .pointer(&format!("/{}", path.trim_start_matches('/').split('/').next().unwrap_or("")))
                    .and_then(|v| v["t"].as_str())
                    .unwrap_or("?")
                    .to_owned();
                rep.violation(&format!("C14:roundtrip:{}", ty), &format!("attribute changed at {}: expected {} got {}", path, e, g), replay.clone(), J::Null);
            }
        }
    }
    // the same bytes through readers that are not slices: a few bytes per call, and `Interrupted` (which io::Read documents
    // as "retry") on the very first call / on every other call / on every third call. Zero bytes are an empty map here too.
    for mode in [0u8, 3, 4, 2] {
        rep.count(&format!("reader-kind.mode{}", mode));
        let res = catch(|| {
            let r = crate::c13::SlowReader { data: &bytes, pos: 0, mode, rng: Rng::new(index ^ mode as u64), calls: 0 };
            Attributes::from_reader(r).map(|b| canon::attributes(&b, &no)).map_err(|e| e.to_string())
        });
        match res {
            Ok(Ok(got)) => {
                if canon::diff(&exp, &got).is_some() {
                    rep.violation(&format!("C14:reader-kind:changed:mode{}", mode), &format!("decoding the same {} bytes through a short / interrupted reader (mode {}) gives another map", bytes.len(), mode), replay.clone(), J::Null);
                }
            }
            Ok(Err(e)) => rep.violation(&format!("C14:reader-kind:error:mode{}", mode), &format!("decoding its own {} bytes through a short / interrupted reader (mode {}) fails: {}", bytes.len(), mode, e), replay.clone(), J::Null),
            Err(p) => rep.violation(&format!("C14:reader-kind:{}", panic_sig(&p)), &format!("from_reader panicked behind a short / interrupted reader: {}", p.msg), replay.clone(), J::Null),
        }
    }
    if rep.has_caselog() {
        // DOM-level: the blob both file formats store for the Attributes property
        // three instances of one class: a longer map before the map under test and an empty one after it,
        // so that anything a writer carries over from one instance's blob to the next becomes visible
        let (bin_hex, xml_text, file_blobs) = if index % 4 == 0 {
            let mut pre = a.clone();
            pre.insert("zzzz-pad".into(), Variant::BinaryString(vec![0xA5u8; 64 + (index % 7) as usize].into()));
            let mut pre_bytes = Vec::new();
            let _ = pre.to_writer(&mut pre_bytes);
            let dom = WeakDom::new(
                InstanceBuilder::new("DataModel")
                    .with_child(InstanceBuilder::new("Folder").with_name("pre").with_property("Attributes", pre))
                    .with_child(InstanceBuilder::new("Folder").with_name("holder").with_property("Attributes", a.clone()))
                    .with_child(InstanceBuilder::new("Folder").with_name("post").with_property("Attributes", Attributes::new())),
            );
            let roots = dom.root().children().to_vec();
            let b = crate::rt::write_binary(&dom, &roots, rbx_binary::CompressionType::None).ok();
            let x = crate::rt::write_xml(&dom, &roots, crate::expect::XmlMode::Default).ok().and_then(|v| String::from_utf8(v).ok());
            (b.map(|b| canon::hex(&b)), x, json!({"pre": canon::hex(&pre_bytes), "holder": canon::hex(&bytes), "post": ""}))
        } else {
            (None, None, J::Null)
        };
        rep.log_case(&json!({"kind": "attrs", "seed": seed, "index": index, "blob_hex": canon::hex(&bytes), "source": src, "expected": exp,
                             "bin_hex": bin_hex, "xml_text": xml_text, "file_blobs": file_blobs}));
    }
}

/// Decode blobs produced by the independent encoder; compare with the map they describe.
pub fn read_main(a: &Args) {
    let input = a.str("in", "/dev/stdin");
    let out = a.str("out", "/dev/stdout");
    let mut rep = Report::new("C14");
    let f = std::io::BufReader::new(std::fs::File::open(&input).expect("input"));
    let no = |_: Ref| J::Null;
    for line in f.lines() {
        let line = line.unwrap();
        if line.trim().is_empty() {
            continue;
        }
        let rec: J = serde_json::from_str(&line).unwrap();
        let bytes = canon::unhex(rec["blob_hex"].as_str().unwrap_or(""));
        let replay = json!({"blob_hex": rec["blob_hex"], "id": rec["id"]});
        rep.evaluations += 1;
        if let Some(t) = rec["tags"].as_array() {
            for x in t {
                rep.count(&format!("freedom.{}", x.as_str().unwrap_or("?")));
            }
        }
        rep.nontrivial(crate::rng::fnv64(&bytes));
        rep.sample(json!({"id": rec["id"], "blob_bytes": bytes.len()}));
        match catch(|| Attributes::from_reader(&bytes[..])) {
            Err(p) => rep.violation(&format!("C14:foreign-read:{}", panic_sig(&p)), &format!("from_reader panicked on a blob built from the document: {}", p.msg), replay, J::Null),
            Ok(Err(e)) => {
                let es: String = e.to_string().chars().take(50).filter(|c| !c.is_ascii_digit()).collect();
                rep.violation(&format!("C14:foreign-read-error:{}", es), &format!("from_reader rejected a blob built from the document: {}", e), replay, J::Null)
            }
            Ok(Ok(back)) => {
                let got = canon::attributes(&back, &no);
                if let Some((path, e, g)) = canon::diff(&rec["expected"], &got) {
                    rep.violation("C14:foreign-value", &format!("blob built from the document decoded differently at {}: expected {} got {}", path, e, g), replay, J::Null);
                }
            }
        }
    }
    rep.finish(&out);
}

pub fn main(a: &Args) {
    let seed = a.u64("seed", 1);
    let count = a.u64("count", 1000);
    let shard = a.u64("shard", 0);
    let nshards = a.u64("nshards", 1);
    let out = a.str("out", "/dev/stdout");
    let mut rep = Report::new("C14");
    if let Some(p) = a.kv.get("caselog") {
        rep.open_caselog(p);
    }
    if let Some(only) = a.kv.get("index") {
        case(&mut rep, seed, only.parse().unwrap());
    } else {
        let mut i = shard;
        while i < count {
            case(&mut rep, seed, i);
            i += nshards;
        }
    }
    rep.finish(&out);
}
