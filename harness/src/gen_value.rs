//! Seeded value generators, one per VariantType, drawing from boundary pools.

use crate::rng::Rng;
use rbx_dom_weak::types::*;

#[derive(Clone, Copy, Debug)]
pub struct VGen {
    /// restrict strings to the XML 1.0 Char production, sequences to >= 2 keypoints
    pub xml: bool,
    /// allow large payloads (64 KiB strings)
    pub big: bool,
    /// only finite floats (JSON)
    pub finite: bool,
}

pub const ALL_BINARY_TYPES: &[VariantType] = &[
    VariantType::String,
    VariantType::BinaryString,
    VariantType::ContentId,
    VariantType::Tags,
    VariantType::Attributes,
    VariantType::MaterialColors,
    VariantType::Bool,
    VariantType::Int32,
    VariantType::Float32,
    VariantType::Float64,
    VariantType::UDim,
    VariantType::UDim2,
    VariantType::Ray,
    VariantType::Faces,
    VariantType::Axes,
    VariantType::BrickColor,
    VariantType::Color3,
    VariantType::Vector2,
    VariantType::Vector3,
    VariantType::CFrame,
    VariantType::Enum,
    VariantType::Ref,
    VariantType::Vector3int16,
    VariantType::NumberSequence,
    VariantType::ColorSequence,
    VariantType::NumberRange,
    VariantType::Rect,
    VariantType::PhysicalProperties,
    VariantType::Color3uint8,
    VariantType::Int64,
    VariantType::SharedString,
    VariantType::OptionalCFrame,
    VariantType::UniqueId,
    VariantType::Font,
    VariantType::SecurityCapabilities,
    VariantType::Content,
];

pub const ALL_XML_TYPES: &[VariantType] = &[
    VariantType::String,
    VariantType::BinaryString,
    VariantType::ContentId,
    VariantType::Tags,
    VariantType::Attributes,
    VariantType::MaterialColors,
    VariantType::Bool,
    VariantType::Int32,
    VariantType::Float32,
    VariantType::Float64,
    VariantType::UDim,
    VariantType::UDim2,
    VariantType::Ray,
    VariantType::Faces,
    VariantType::Axes,
    VariantType::BrickColor,
    VariantType::Color3,
    VariantType::Vector2,
    VariantType::Vector2int16,
    VariantType::Vector3,
    VariantType::CFrame,
    VariantType::Enum,
    VariantType::Ref,
    VariantType::Vector3int16,
    VariantType::NumberSequence,
    VariantType::ColorSequence,
    VariantType::NumberRange,
    VariantType::Rect,
    VariantType::PhysicalProperties,
    VariantType::Color3uint8,
    VariantType::Int64,
    VariantType::SharedString,
    VariantType::OptionalCFrame,
    VariantType::UniqueId,
    VariantType::Font,
    VariantType::SecurityCapabilities,
    VariantType::Content,
];

pub const ATTRIBUTE_TYPES: &[VariantType] = &[
    VariantType::String,
    VariantType::BinaryString,
    VariantType::Bool,
    VariantType::Int32,
    VariantType::Float32,
    VariantType::Float64,
    VariantType::UDim,
    VariantType::UDim2,
    VariantType::BrickColor,
    VariantType::Color3,
    VariantType::Vector2,
    VariantType::Vector3,
    VariantType::CFrame,
    VariantType::EnumItem,
    VariantType::NumberSequence,
    VariantType::ColorSequence,
    VariantType::NumberRange,
    VariantType::Rect,
    VariantType::Font,
];

const F32_POOL: &[u32] = &[
    0x0000_0000, // +0
    0x8000_0000, // -0
    0x0000_0001, // min subnormal
    0x807f_ffff, // -max subnormal
    0x0080_0000, // min normal
    0x3f80_0000, // 1
    0xbf80_0000, // -1
    0x3f80_0001, // 1 + ulp
    0x3f7f_ffff, // 1 - ulp
    0x3f00_0000, // 0.5
    0x4000_0000, // 2
    0x3dcc_cccd, // 0.1
    0x7f7f_ffff, // MAX
    0xff7f_ffff, // MIN
    0x3400_0000, // EPSILON
    0x4b80_0000, // 2^24
    0x4cbe_bc20, // 1e8
    0x7149_f2ca, // 1e30
    0x0da2_4260, // 1e-30
    0x4049_0fdb, // pi
    0x42c8_0000, // 100
    0xc479_c000, // -999
    0x4e6e_6b28, // 999999999 as f32 (1e9): the number rbx_dom_lua writes for math.huge
    0xce6e_6b28, // -1e9
];
const F32_NONFINITE: &[u32] = &[
    0x7f80_0000, // inf
    0xff80_0000, // -inf
    0x7fc0_0000, // qNaN
    0xffc0_0000, // -qNaN
    0x7fa0_0001, // sNaN payload
    0x7fc1_2345, // qNaN payload
];
const F64_POOL: &[u64] = &[
    0,
    0x8000_0000_0000_0000,
    1,
    0x000f_ffff_ffff_ffff,
    0x0010_0000_0000_0000,
    0x3ff0_0000_0000_0000,
    0xbff0_0000_0000_0000,
    0x3ff0_0000_0000_0001,
    0x3fb9_9999_9999_999a, // 0.1
    0x7fef_ffff_ffff_ffff,
    0xffef_ffff_ffff_ffff,
    0x4340_0000_0000_0000, // 2^53
    0x4005_bf0a_8b14_5769, // e
    0x7e37_e43c_8800_759c, // 1e300
    0x01a5_6e1f_c2f8_f359, // 1e-300
    0x41cd_cd64_ff80_0000, // 999999999.0: the number rbx_dom_lua writes for math.huge
    0xc1cd_cd64_ff80_0000, // -999999999.0
    0x41cd_cd65_0000_0000, // 1e9
    0x41df_ffff_ffc0_0000, // i32::MAX
    0x43e0_0000_0000_0000, // 2^63
];
const F64_NONFINITE: &[u64] = &[
    0x7ff0_0000_0000_0000,
    0xfff0_0000_0000_0000,
    0x7ff8_0000_0000_0000,
    0xfff8_0000_0000_0000,
    0x7ff4_0000_0000_0001,
    0x7ff8_0000_dead_beef,
];

const STR_POOL: &[&str] = &[
    "",
    "a",
    "Hello, world!",
    " leading",
    "trailing ",
    "  ",
    "\t",
    "\n",
    "line1\nline2",
    "tab\there",
    "http://www.roblox.com/asset/?id=123456",
    "https://www.roblox.com/asset/?id=7",
    "http://www.roblox.com/asset?id=7&version=3",
    "rbxassetid://123456",
    "rbxasset://textures/face.png",
    "rbxthumb://type=Asset&id=1&w=150&h=150",
    "rbxgameasset://Images/x",
    "RBXASSETID://5",
    "\u{7f}",
    "Press\u{7f}Delete",
    "\u{80}\u{9f}",
    "\u{fffd}\u{e000}\u{d7ff}",
    "a\rb",
    "a\r\nb",
    "\r",
    "\r\r",
    "\r\n\r",
    "\r\n",
    "\u{a0}",
    "\u{a0}nbsp\u{a0}",
    "\u{2028}",
    "<&>\"'",
    "]]>",
    " ]]> ",
    "<![CDATA[x]]>",
    "&amp;",
    "héllo wörld",
    "日本語テキスト",
    "𝄞 clef 😀",
    "\u{a0}nbsp\u{a0}",
    "\u{2028}\u{2029}",
    "null",
    "RBX0123456789ABCDEF0123456789ABCDEF",
    "rbxassetid://123456",
    "http://www.roblox.com/asset/?id=1",
    "-1",
    "0",
];
const STR_POOL_BINARY_ONLY: &[&str] = &["\0", "a\0b", "\u{1}\u{2}\u{1f}", "\u{7f}", "\u{fffe}", "\u{ffff}", "\u{b}\u{c}"];

pub const FONT_FAMILIES: &[&str] = &[
    "rbxasset://fonts/families/SourceSansPro.json",
    "rbxasset://fonts/families/Arial.json",
    "rbxasset://fonts/families/GothamSSm.json",
    "",
    "rbxassetid://12345",
    "fam & <ily>",
];

impl VGen {
    pub fn binary() -> VGen {
        VGen { xml: false, big: false, finite: false }
    }
    pub fn xml() -> VGen {
        VGen { xml: true, big: false, finite: false }
    }

    pub fn f32(&self, r: &mut Rng) -> f32 {
        let k = r.below(10);
        let bits = if k < 4 {
            *r.pick(F32_POOL)
        } else if k < 5 && !self.finite {
            *r.pick(F32_NONFINITE)
        } else if k < 7 {
            // small "human" numbers
            return (r.range(-2000, 2000) as f32) / *r.pick(&[1.0f32, 2.0, 4.0, 10.0, 100.0, 3.0]);
        } else {
            r.next_u32()
        };
        let f = f32::from_bits(bits);
        if self.finite && !f.is_finite() {
            1.5
        } else {
            f
        }
    }

    pub fn f64(&self, r: &mut Rng) -> f64 {
        let k = r.below(10);
        let bits = if k < 4 {
            *r.pick(F64_POOL)
        } else if k < 5 && !self.finite {
            *r.pick(F64_NONFINITE)
        } else if k < 7 {
            return (r.range(-200000, 200000) as f64) / *r.pick(&[1.0f64, 2.0, 10.0, 1000.0, 3.0, 7.0]);
        } else {
            r.next_u64()
        };
        let f = f64::from_bits(bits);
        if self.finite && !f.is_finite() {
            2.5
        } else {
            f
        }
    }

    pub fn i32(&self, r: &mut Rng) -> i32 {
        match r.below(8) {
            0 => i32::MIN,
            1 => i32::MAX,
            2 => 0,
            3 => -1,
            4 => 1,
            5 => r.range(-1000, 1000) as i32,
            _ => r.next_u32() as i32,
        }
    }

    pub fn i64(&self, r: &mut Rng) -> i64 {
        match r.below(9) {
            0 => i64::MIN,
            1 => i64::MAX,
            2 => 0,
            3 => -1,
            4 => 1,
            5 => r.range(-100000, 100000),
            6 => i32::MAX as i64 + 1,
            7 => i32::MIN as i64 - 1,
            _ => r.next_u64() as i64,
        }
    }

    pub fn i16(&self, r: &mut Rng) -> i16 {
        match r.below(6) {
            0 => i16::MIN,
            1 => i16::MAX,
            2 => 0,
            3 => -1,
            _ => r.next_u32() as i16,
        }
    }

    fn xml_ok(c: char) -> bool {
        matches!(c, '\t' | '\n' | '\r' | '\u{20}'..='\u{d7ff}' | '\u{e000}'..='\u{fffd}' | '\u{10000}'..='\u{10ffff}')
    }

    pub fn string(&self, r: &mut Rng) -> String {
        let k = r.below(12);
        let mut s: String = if k < 6 {
            (*r.pick(STR_POOL)).to_owned()
        } else if k < 7 && !self.xml {
            (*r.pick(STR_POOL_BINARY_ONLY)).to_owned()
        } else if k < 10 {
            // random mix of pool fragments and random chars
            let n = r.below(12);
            let mut s = String::new();
            for _ in 0..n {
                match r.below(4) {
                    0 => s.push_str(*r.pick(STR_POOL)),
                    1 => s.push(char::from_u32(r.range(0x20, 0x7e) as u32).unwrap()),
                    2 => {
                        let c = char::from_u32(r.next_u32() % 0x11_0000).unwrap_or('x');
                        s.push(c)
                    }
                    _ => s.push(*r.pick(&[' ', '\n', '\t', '<', '&', ']', '>', '"', '\''])),
                }
            }
            s
        } else if k < 11 && self.big {
            let n = *r.pick(&[65535usize, 65536, 70000]);
            let unit = *r.pick(&["x", "ab ", "é", "<&"]);
            unit.repeat(n / unit.len() + 1)
        } else {
            let n = r.below(300);
            (0..n).map(|_| char::from_u32(r.range(0x20, 0x7e) as u32).unwrap()).collect()
        };
        if self.xml {
            s = s.chars().filter(|c| Self::xml_ok(*c)).collect();
        }
        s
    }

    pub fn bytes(&self, r: &mut Rng) -> Vec<u8> {
        match r.below(8) {
            0 => Vec::new(),
            1 => vec![0],
            2 => vec![0xff, 0xfe, 0x80, 0x00, 0xc3],
            3 => self.string(r).into_bytes(),
            4 if self.big => r.bytes(65537),
            _ => {
                let n = r.below(200);
                r.bytes(n)
            }
        }
    }

    pub fn vector3(&self, r: &mut Rng) -> Vector3 {
        Vector3::new(self.f32(r), self.f32(r), self.f32(r))
    }
    pub fn vector2(&self, r: &mut Rng) -> Vector2 {
        Vector2::new(self.f32(r), self.f32(r))
    }
    pub fn color3(&self, r: &mut Rng) -> Color3 {
        if r.chance(1, 2) {
            Color3::new(
                r.below(256) as f32 / 255.0,
                r.below(256) as f32 / 255.0,
                r.below(256) as f32 / 255.0,
            )
        } else {
            Color3::new(self.f32(r), self.f32(r), self.f32(r))
        }
    }
    pub fn udim(&self, r: &mut Rng) -> UDim {
        UDim::new(self.f32(r), self.i32(r))
    }

    pub fn matrix3(&self, r: &mut Rng) -> Matrix3 {
        let basis = crate::rot::bases()[r.below(24)].1;
        let m = |a: [[f32; 3]; 3]| {
            Matrix3::new(
                Vector3::new(a[0][0], a[0][1], a[0][2]),
                Vector3::new(a[1][0], a[1][1], a[1][2]),
                Vector3::new(a[2][0], a[2][1], a[2][2]),
            )
        };
        match r.below(12) {
            0..=3 => m(basis),
            4 => {
                // within 1 ulp-ish of a basis (must snap)
                let mut a = basis;
                for row in a.iter_mut() {
                    for v in row.iter_mut() {
                        if r.chance(1, 3) {
                            let d = *r.pick(&[f32::EPSILON, -f32::EPSILON, f32::EPSILON / 2.0, 1e-9, -1e-9]);
                            *v += d;
                        }
                    }
                }
                m(a)
            }
            10 => {
                // a basic rotation with ONE of its zero entries replaced by a value that is not a number, a negative zero
                // or a denormal: "approximately zero" tests must not wave a NaN through
                let mut a = basis;
                let zeros: Vec<(usize, usize)> = (0..3).flat_map(|i| (0..3).map(move |j| (i, j))).filter(|(i, j)| a[*i][*j] == 0.0).collect();
                let (i, j) = *r.pick(&zeros);
                a[i][j] = if self.finite {
                    *r.pick(&[-0.0, f32::from_bits(1), -f32::from_bits(1)])
                } else {
                    *r.pick(&[f32::NAN, f32::from_bits(0x7fc0_1234), f32::from_bits(0xffc0_0000), -0.0, f32::from_bits(1), f32::INFINITY])
                };
                m(a)
            }
            5 => {
                // just outside epsilon (must NOT snap)
                let mut a = basis;
                let i = r.below(3);
                let j = r.below(3);
                a[i][j] += *r.pick(&[3.0 * f32::EPSILON, -3.0 * f32::EPSILON, 1e-5, -1e-5, 1e-3]);
                m(a)
            }
            6 => {
                // scaled basis
                let s = *r.pick(&[0.5f32, 2.0, 0.25, -0.5, 0.999, 1.001, 0.0]);
                let mut a = basis;
                for row in a.iter_mut() {
                    for v in row.iter_mut() {
                        *v *= s;
                    }
                }
                m(a)
            }
            7 => {
                // genuine rotation about an axis
                let t = (r.range(1, 359) as f32).to_radians();
                let (s, c) = t.sin_cos();
                match r.below(3) {
                    0 => m([[1.0, 0.0, 0.0], [0.0, c, -s], [0.0, s, c]]),
                    1 => m([[c, 0.0, s], [0.0, 1.0, 0.0], [-s, 0.0, c]]),
                    _ => m([[c, -s, 0.0], [s, c, 0.0], [0.0, 0.0, 1.0]]),
                }
            }
            8 => {
                // signed permutation-like matrix that is NOT a rotation (det -1) or has a wrong third row
                let mut a = basis;
                match r.below(3) {
                    0 => {
                        for v in a[2].iter_mut() {
                            *v = -*v;
                        }
                    }
                    1 => a.swap(0, 1),
                    _ => a[2] = a[0],
                }
                m(a)
            }
            9 => {
                // sheared / two non-zero in a row
                let mut a = basis;
                a[r.below(3)][r.below(3)] = 1.0;
                m(a)
            }
            _ => Matrix3::new(self.vector3(r), self.vector3(r), self.vector3(r)),
        }
    }

    pub fn cframe(&self, r: &mut Rng) -> CFrame {
        CFrame::new(self.vector3(r), self.matrix3(r))
    }

    pub fn brick_color(&self, r: &mut Rng) -> BrickColor {
        loop {
            let n = match r.below(4) {
                0 => r.below(400) as u16,
                1 => 1000 + r.below(40) as u16,
                _ => *r.pick(&[1u16, 194, 199, 1001, 1032, 5, 21, 23, 24, 26, 28, 37, 38]),
            };
            if let Some(b) = BrickColor::from_number(n) {
                return b;
            }
        }
    }

    pub fn font(&self, r: &mut Rng) -> Font {
        let weights = [100u16, 200, 300, 400, 500, 600, 700, 800, 900];
        let family = if r.chance(3, 4) {
            (*r.pick(FONT_FAMILIES)).to_owned()
        } else {
            self.string(r)
        };
        Font {
            family,
            weight: FontWeight::from_u16(*r.pick(&weights)).unwrap(),
            style: FontStyle::from_u8(r.below(2) as u8).unwrap(),
            cached_face_id: match r.below(3) {
                0 => None,
                1 => Some("rbxasset://fonts/SourceSansPro-Regular.ttf".to_owned()),
                // Some("") is deliberately not generated: neither format can tell it from None
                _ => {
                    let s = self.string(r);
                    if s.is_empty() {
                        None
                    } else {
                        Some(s)
                    }
                }
            },
        }
    }

    pub fn number_sequence(&self, r: &mut Rng) -> NumberSequence {
        let min = if self.xml { 2 } else { 0 };
        // Studio stops at 20 keypoints, the formats and the types do not: lengths past 20 and around 2^8 / 2^10 too
        let n = match r.below(12) {
            0 | 1 => min,
            2 | 3 => 2,
            4 | 5 => 3,
            6 | 7 => 20,
            8 => *r.pick(&[21usize, 22, 33, 255, 256, 257, 1025]),
            _ => min + r.below(5),
        };
        NumberSequence {
            keypoints: (0..n)
                .map(|_| NumberSequenceKeypoint::new(self.f32(r), self.f32(r), self.f32(r)))
                .collect(),
        }
    }

    pub fn color_sequence(&self, r: &mut Rng) -> ColorSequence {
        let min = if self.xml { 2 } else { 0 };
        // Studio stops at 20 keypoints, the formats and the types do not: lengths past 20 and around 2^8 / 2^10 too
        let n = match r.below(12) {
            0 | 1 => min,
            2 | 3 => 2,
            4 | 5 => 3,
            6 | 7 => 20,
            8 => *r.pick(&[21usize, 22, 33, 255, 256, 257, 1025]),
            _ => min + r.below(5),
        };
        ColorSequence {
            keypoints: (0..n)
                .map(|_| ColorSequenceKeypoint::new(self.f32(r), self.color3(r)))
                .collect(),
        }
    }

    pub fn tags(&self, r: &mut Rng) -> Tags {
        let n = r.below(5);
        let mut v = Vec::new();
        for _ in 0..n {
            let s: String = self.string(r).chars().filter(|c| *c != '\0').collect();
            if !s.is_empty() && s.len() < 1000 {
                v.push(s);
            }
        }
        // one list in six holds empty tags (leading, inner, trailing, or nothing else): the blob has a place for them
        if r.chance(1, 6) {
            for _ in 0..1 + r.below(2) {
                let at = r.below(v.len() + 1);
                v.insert(at, String::new());
            }
        }
        Tags::from(v)
    }

    pub fn material_colors(&self, r: &mut Rng) -> MaterialColors {
        let mut b = vec![0u8; 69];
        if r.chance(1, 4) {
            return MaterialColors::new();
        }
        for x in b.iter_mut().skip(6) {
            *x = r.below(256) as u8;
        }
        MaterialColors::decode(&b).unwrap()
    }

    pub fn attributes(&self, r: &mut Rng, max: usize) -> Attributes {
        let n = r.below(max + 1);
        let mut a = Attributes::new();
        for _ in 0..n {
            let name = match r.below(6) {
                0 => String::new(),
                1 => "Ключ".to_owned(),
                2 => format!("attr{}", r.below(5)),
                _ => {
                    let s = self.string(r);
                    s.chars().take(40).collect()
                }
            };
            let ty = *r.pick(ATTRIBUTE_TYPES);
            if let Some(v) = self.gen(r, ty) {
                a.insert(name, v);
            }
        }
        a
    }

    pub fn unique_id(&self, r: &mut Rng) -> UniqueId {
        match r.below(6) {
            0 => UniqueId::new(u32::MAX, u32::MAX, i64::MAX),
            1 => UniqueId::new(1, 0, 0),
            2 => UniqueId::new(r.next_u32(), r.next_u32(), -(r.range(1, 1 << 40))),
            3 => UniqueId::new(r.next_u32(), r.next_u32(), i64::MIN),
            _ => UniqueId::new(r.next_u32(), r.next_u32(), (r.next_u64() >> 1) as i64),
        }
    }

    /// Ref and Content::Object are produced by the DOM generator, not here.
    pub fn gen(&self, r: &mut Rng, ty: VariantType) -> Option<Variant> {
        Some(match ty {
            VariantType::String => Variant::String(self.string(r)),
            VariantType::BinaryString => Variant::BinaryString(self.bytes(r).into()),
            VariantType::ContentId => Variant::ContentId(self.string(r).into()),
            VariantType::Content => Variant::Content(match r.below(3) {
                0 => Content::none(),
                _ => Content::from_uri(self.string(r)),
            }),
            VariantType::Bool => Variant::Bool(r.chance(1, 2)),
            VariantType::Int32 => Variant::Int32(self.i32(r)),
            VariantType::Int64 => Variant::Int64(self.i64(r)),
            VariantType::Float32 => Variant::Float32(self.f32(r)),
            VariantType::Float64 => Variant::Float64(self.f64(r)),
            VariantType::Enum => Variant::Enum(Enum::from_u32(match r.below(4) {
                0 => 0,
                1 => u32::MAX,
                2 => r.below(50) as u32,
                _ => r.next_u32(),
            })),
            VariantType::EnumItem => Variant::EnumItem(EnumItem {
                ty: match r.below(5) {
                    0 => "Material".to_owned(),
                    1 => String::new(),
                    // the ways an enum is spelled elsewhere: qualified, with the item appended, doubled
                    3 => (*r.pick(&["Enum.Material", "Enum.Enum.Material", "Enum.", "Enum", "enum.Material", "Enum.Material.Plastic", "Material.Plastic", "EnumItem"])).to_owned(),
                    _ => self.string(r).chars().take(30).collect(),
                },
                value: match r.below(3) {
                    0 => 0,
                    1 => u32::MAX,
                    _ => r.below(3000) as u32,
                },
            }),
            VariantType::BrickColor => Variant::BrickColor(self.brick_color(r)),
            VariantType::Faces => Variant::Faces(Faces::from_bits(r.below(64) as u8).unwrap()),
            VariantType::Axes => Variant::Axes(Axes::from_bits(r.below(8) as u8).unwrap()),
            VariantType::Vector2 => Variant::Vector2(self.vector2(r)),
            VariantType::Vector3 => Variant::Vector3(self.vector3(r)),
            VariantType::Vector2int16 => Variant::Vector2int16(Vector2int16::new(self.i16(r), self.i16(r))),
            VariantType::Vector3int16 => {
                Variant::Vector3int16(Vector3int16::new(self.i16(r), self.i16(r), self.i16(r)))
            }
            VariantType::CFrame => Variant::CFrame(self.cframe(r)),
            VariantType::OptionalCFrame => Variant::OptionalCFrame(match r.below(6) {
                0 | 1 => None,
                // Some(value that looks like "nothing"): the identity at the origin is what the formats store next to an
                // absent value, and it is a value all the same (so is the identity at a negative zero)
                2 => Some(CFrame::new(Vector3::new(0.0, 0.0, 0.0), Matrix3::identity())),
                3 if r.chance(1, 2) => Some(CFrame::new(Vector3::new(-0.0, 0.0, -0.0), Matrix3::identity())),
                _ => Some(self.cframe(r)),
            }),
            VariantType::Color3 => Variant::Color3(self.color3(r)),
            VariantType::Color3uint8 => Variant::Color3uint8(Color3uint8::new(
                r.below(256) as u8,
                r.below(256) as u8,
                r.below(256) as u8,
            )),
            VariantType::UDim => Variant::UDim(self.udim(r)),
            VariantType::UDim2 => Variant::UDim2(UDim2::new(self.udim(r), self.udim(r))),
            VariantType::Rect => Variant::Rect(Rect::new(self.vector2(r), self.vector2(r))),
            VariantType::Ray => Variant::Ray(Ray::new(self.vector3(r), self.vector3(r))),
            VariantType::Region3 => Variant::Region3(Region3::new(self.vector3(r), self.vector3(r))),
            VariantType::Region3int16 => Variant::Region3int16(Region3int16::new(
                Vector3int16::new(self.i16(r), self.i16(r), self.i16(r)),
                Vector3int16::new(self.i16(r), self.i16(r), self.i16(r)),
            )),
            VariantType::NumberRange => Variant::NumberRange(NumberRange::new(self.f32(r), self.f32(r))),
            VariantType::NumberSequence => Variant::NumberSequence(self.number_sequence(r)),
            VariantType::ColorSequence => Variant::ColorSequence(self.color_sequence(r)),
            VariantType::PhysicalProperties => Variant::PhysicalProperties(if r.chance(1, 3) {
                PhysicalProperties::Default
            } else {
                PhysicalProperties::Custom(CustomPhysicalProperties {
                    density: self.f32(r),
                    friction: self.f32(r),
                    elasticity: self.f32(r),
                    friction_weight: self.f32(r),
                    elasticity_weight: self.f32(r),
                })
            }),
            VariantType::SharedString => {
                // few distinct contents so that sharing actually happens
                let b = match r.below(6) {
                    0 => Vec::new(),
                    1 => b"shared-A".to_vec(),
                    2 => b"shared-B".to_vec(),
                    3 => vec![0, 1, 2, 255],
                    _ => self.bytes(r),
                };
                Variant::SharedString(SharedString::new(b))
            }
            VariantType::Tags => Variant::Tags(self.tags(r)),
            VariantType::Attributes => Variant::Attributes(self.attributes(r, 5)),
            VariantType::Font => Variant::Font(self.font(r)),
            VariantType::UniqueId => Variant::UniqueId(self.unique_id(r)),
            VariantType::MaterialColors => Variant::MaterialColors(self.material_colors(r)),
            VariantType::SecurityCapabilities => {
                Variant::SecurityCapabilities(SecurityCapabilities::from_bits(match r.below(4) {
                    0 => 0,
                    1 => u64::MAX,
                    2 => 1 << r.below(64),
                    _ => r.next_u64(),
                }))
            }
            _ => return None,
        })
    }
}
