//! Seeded TreeSpec generators: shapes, classes, names, database-driven and unknown properties,
//! abstract references, root selections.

use std::collections::{HashMap, HashSet};

use crate::dbwalk::{self, Ser};
use crate::gen_value::{VGen, ALL_BINARY_TYPES, ALL_XML_TYPES};
use crate::rng::Rng;
use crate::spec::{RefT, TreeSpec, PV};
use rbx_dom_weak::types::{SharedString, Variant, VariantType};

#[derive(Clone, Copy, Debug, PartialEq, Eq)]
pub enum Fmt {
    Binary,
    Xml,
}

#[derive(Clone, Debug)]
pub struct DomGen {
    pub fmt: Fmt,
    pub vgen: VGen,
    pub max_nodes: usize,
    pub known_classes: bool,
    pub unknown_classes: bool,
    pub known_props: bool,
    pub unknown_props: bool,
    pub aliases: bool,
    /// UniqueId values are kept distinct within one spec
    pub unique_ids: bool,
}

pub const KNOWN_CLASSES: &[&str] = &[
    "Part", "Part", "Model", "Folder", "Folder", "MeshPart", "TextLabel", "ScreenGui", "StringValue",
    "IntValue", "NumberValue", "ObjectValue", "ObjectValue", "CFrameValue", "Terrain", "Workspace", "Lighting",
    "Sound", "SpawnLocation", "Decal", "UIGradient", "ParticleEmitter", "BoolValue", "Vector3Value",
    "Color3Value", "BrickColorValue", "RayValue", "Weld", "Script", "ModuleScript", "ImageLabel", "Beam",
    "SurfaceAppearance", "Frame", "UIPadding", "Team", "Tool", "Attachment", "WeldConstraint", "Camera",
    "MaterialService", "PackageLink", "UnionOperation", "TerrainRegion", "BloomEffect", "UIGridLayout",
];
pub const UNKNOWN_CLASSES: &[&str] = &["CustomThing", "ZzUnknown", "Ünï", "A"];

const NAMES: &[&str] = &[
    "", "A", "Part", " lead", "trail ", "  ", "a<b>&c", "]]>", "Ünïcödé", "日本", "😀", "line\nbreak", "tab\tx",
    "x\ry", "Model.Child", "null", "0",
];

pub fn type_ok(fmt: Fmt, ty: VariantType) -> bool {
    match fmt {
        Fmt::Binary => ALL_BINARY_TYPES.contains(&ty),
        Fmt::Xml => ALL_XML_TYPES.contains(&ty),
    }
}

/// Descriptors of `class` that can be set and travel through a file: serializable, not migrating,
/// value type supported by the format, not `Name`. Returns (name to set, named descriptor type, back name).
pub fn settable_props(class: &str, fmt: Fmt, aliases: bool) -> Vec<(String, VariantType, String)> {
    let db = dbwalk::db();
    let mut out = vec![];
    for (_owner, d) in dbwalk::all_props(db, class) {
        let name: &str = d.name.as_ref();
        if name == "Name" {
            continue;
        }
        let r = match dbwalk::resolve(db, class, name) {
            Some(r) => r,
            None => continue,
        };
        if r.via_alias && !aliases {
            continue;
        }
        if !matches!(r.ser, Ser::As(_)) {
            continue;
        }
        let t = match dbwalk::travel(db, class, name) {
            Some(t) => t,
            None => continue,
        };
        let ty = match dbwalk::vtype(r.named) {
            Some(t) => t,
            None => continue,
        };
        if !type_ok(fmt, ty) || !type_ok(fmt, t.wire_ty) {
            continue;
        }
        // An alias spelled with a blob type (AttributesSerialize: BinaryString -> Attributes, Tags, ...)
        // is converted to the declared type on load by design; the statement grants no
        // normalisation for that, so such spellings are not generated (Color3uint8/Color3 is the
        // documented exception and keeps its value).
        if ty != t.declared_ty && !(ty == VariantType::Color3uint8 && t.declared_ty == VariantType::Color3) {
            continue;
        }
        if t.back_name == "Name" || t.wire_name == "Name" {
            continue;
        }
        out.push((name.to_owned(), ty, t.back_name));
    }
    out
}

impl DomGen {
    pub fn binary() -> DomGen {
        DomGen {
            fmt: Fmt::Binary,
            vgen: VGen::binary(),
            max_nodes: 24,
            known_classes: true,
            unknown_classes: true,
            known_props: true,
            unknown_props: true,
            aliases: true,
            unique_ids: true,
        }
    }
    pub fn xml() -> DomGen {
        DomGen { fmt: Fmt::Xml, vgen: VGen::xml(), ..DomGen::binary() }
    }

    pub fn name(&self, r: &mut Rng) -> String {
        let s = if r.chance(1, 2) {
            (*r.pick(NAMES)).to_owned()
        } else {
            self.vgen.string(r).chars().take(60).collect()
        };
        if self.fmt == Fmt::Xml {
            s
        } else {
            s
        }
    }

    pub fn class(&self, r: &mut Rng) -> String {
        loop {
            let c = self.class_inner(r);
            // Classes the database lists but that do not inherit `Name` (EditableImage, ... derive
            // from Object) count as unknown: the default XML options only keep database-known
            // properties, and Name is not one for them.
            if !self.unknown_classes && dbwalk::resolve(dbwalk::db(), &c, "Name").is_none() {
                continue;
            }
            return c;
        }
    }

    fn class_inner(&self, r: &mut Rng) -> String {
        let db = dbwalk::db();
        let k = r.below(20);
        if self.unknown_classes && (k == 0 || !self.known_classes) {
            (*r.pick(UNKNOWN_CLASSES)).to_owned()
        } else if k < 4 {
            let names = dbwalk::sorted_class_names(db);
            (*r.pick(&names)).to_owned()
        } else {
            (*r.pick(KNOWN_CLASSES)).to_owned()
        }
    }

    fn ref_target(&self, r: &mut Rng, n_nodes: usize, me: usize) -> RefT {
        match r.below(10) {
            0 => RefT::Null,
            1 => RefT::Dangling,
            2 => RefT::Node(me),
            3 => RefT::Node(0),
            _ => RefT::Node(r.below(n_nodes)),
        }
    }

    pub fn pv(&self, r: &mut Rng, ty: VariantType, n_nodes: usize, me: usize, uids: &mut HashSet<Variant2>) -> Option<PV> {
        match ty {
            VariantType::Ref => Some(PV::Ref(self.ref_target(r, n_nodes, me))),
            VariantType::Content if r.chance(1, 3) => Some(PV::ContentObj(self.ref_target(r, n_nodes, me))),
            VariantType::UniqueId if self.unique_ids => {
                for _ in 0..20 {
                    let v = self.vgen.gen(r, ty)?;
                    let key = Variant2(format!("{:?}", v));
                    if uids.insert(key) {
                        return Some(PV::V(v));
                    }
                }
                None
            }
            _ => self.vgen.gen(r, ty).map(PV::V),
        }
    }

    /// Random tree. Node 0 is the dom root (never written itself by the round-trip checks).
    pub fn tree(&self, r: &mut Rng) -> TreeSpec {
        let mut spec = TreeSpec::new("DataModel");
        let n = match r.below(8) {
            0 => 1,
            1 => 2,
            _ => 1 + r.below(self.max_nodes),
        };
        // shape
        let shape = r.below(6);
        for i in 1..=n {
            let parent = match shape {
                0 => i - 1,                                  // chain
                1 => 0,                                      // star / many roots
                2 => {
                    if i == 1 { 0 } else { 1 }               // one root, wide
                }
                _ => r.below(i),                             // random recursive tree
            };
            let class = self.class(r);
            let name = self.name(r);
            spec.add(parent, &class, &name);
        }
        // one time in four: a group of 2-4 instances of ONE class that all carry the same reference-like
        // property (Content naming an instance, Ref, SharedString) with different targets. Readers and
        // writers keep per-column side lists for these (object referents, referent deltas, SharedString
        // indices), so a slip there only shows when several instances of a class share the column.
        let twins: Option<(usize, usize, &str, u8)> = if self.known_classes && self.known_props && r.chance(1, 4) {
            let table: &[(&str, &str, u8)] = match self.fmt {
                Fmt::Binary => &[("ImageLabel", "ImageContent", 0), ("MeshPart", "MeshContent", 0), ("Decal", "TextureContent", 0), ("ObjectValue", "Value", 1),
                                 ("WeldConstraint", "Part0Internal", 1), ("UnionOperation", "MeshData2", 2), ("Weld", "Part1", 1)],
                Fmt::Xml => &[("ObjectValue", "Value", 1), ("WeldConstraint", "Part0Internal", 1), ("UnionOperation", "MeshData2", 2), ("Weld", "Part1", 1), ("Model", "PrimaryPart", 1)],
            };
            let (class, prop, kind) = *r.pick(table);
            let k = 2 + r.below(3);
            let first = spec.nodes.len();
            let parent = r.below(first);
            for i in 0..k {
                let p = if r.chance(1, 3) { parent } else { r.below(spec.nodes.len()) };
                spec.add(p, class, &format!("twin{}", i));
            }
            Some((first, k, prop, kind))
        } else {
            None
        };
        // one time in five (binary, which resolves spellings): 2-5 instances of ONE class where some carry BOTH the
        // canonical and another accepted spelling of a property (different values: the canonical one is the one that
        // is written), some only the other spelling, some only the canonical one, some neither. What the writer learns
        // about a spelling on the first instance it meets must not decide what it does for the later ones.
        let spellings: Option<(usize, usize)> = if self.fmt == Fmt::Binary && self.aliases && self.known_classes && self.known_props && twins.is_none() && r.chance(1, 5) {
            let class = *r.pick(&["Part", "Sound", "Humanoid", "MeshPart", "TextLabel", "Model", "Decal", "SpawnLocation", "ImageLabel", "ImageButton", "MeshPart"]);
            let k = 2 + r.below(4);
            let first = spec.nodes.len();
            let parent = r.below(first);
            for i in 0..k {
                let p = if r.chance(2, 3) { parent } else { r.below(spec.nodes.len()) };
                spec.add(p, class, &format!("sp{}", i));
            }
            Some((first, k))
        } else {
            None
        };
        self.fill_props(r, &mut spec);
        if let Some((first, k)) = spellings {
            let db = dbwalk::db();
            let class = spec.nodes[first].class.clone();
            // (canonical name, other spelling, type) with both spellings carrying the same value type
            let set = settable_props(&class, self.fmt, true);
            let mut pairs: Vec<(String, String, VariantType, VariantType)> = vec![];
            // legacy ContentId spellings that MIGRATE to a Content property (Image -> ImageContent ...): (target, legacy, ...)
            for (_, d) in dbwalk::all_props(db, &class) {
                let lname: &str = d.name.as_ref();
                if let Some(rs) = dbwalk::resolve(db, &class, lname) {
                    if let dbwalk::Ser::Migrate(m) = rs.ser {
                        if dbwalk::vtype(d) == Some(VariantType::ContentId) && !rs.via_alias {
                            if let Some(t) = dbwalk::travel(db, &class, &m.new_property_name) {
                                if t.declared_ty == VariantType::Content && t.back_name == m.new_property_name {
                                    pairs.push((m.new_property_name.clone(), lname.to_owned(), VariantType::Content, VariantType::ContentId));
                                }
                            }
                        }
                    }
                }
            }
            for (name, ty, back) in &set {
                let canon = match dbwalk::resolve(db, &class, name) {
                    Some(rs) => rs.canonical.name.to_string(),
                    None => continue,
                };
                if &canon != name && !matches!(ty, VariantType::Ref | VariantType::UniqueId | VariantType::SharedString) {
                    if let Some((_, cty, cback)) = set.iter().find(|(n, _, _)| *n == canon) {
                        if cty == ty && cback == back {
                            pairs.push((canon, name.clone(), *ty, *ty));
                        }
                    }
                }
            }
            pairs.sort_by(|a, b| (&a.0, &a.1).cmp(&(&b.0, &b.1)));
            if !pairs.is_empty() {
                let (canon, other, ty, other_ty) = r.pick(&pairs).clone();
                let back = dbwalk::travel(db, &class, &canon).map(|t| t.back_name.clone());
                for (j, id) in (first..first + k).enumerate() {
                    spec.nodes[id].props.retain(|(n, _)| back.is_none() || back != dbwalk::travel(db, &class, n).map(|t| t.back_name.clone()));
                    // the first of the group always carries both; the rest: both / other only / canonical only / neither
                    let pattern = if j == 0 { 0 } else { r.below(5) };
                    // (the other spelling is pushed first: the oracle keeps the last value it sees for a logical
                    // property, and the canonical spelling is the one the writer reads first)
                    if matches!(pattern, 0 | 1 | 4) {
                        if let Some(v) = self.vgen.gen(r, other_ty) {
                            spec.nodes[id].props.push((other.clone(), PV::V(v)));
                        }
                    }
                    if matches!(pattern, 0 | 2) {
                        // (an explicit Content that is an EMPTY uri is not the same value as "no content")
                        let v = if ty == VariantType::Content && r.chance(1, 3) { Some(Variant::Content(rbx_dom_weak::types::Content::from_uri(""))) } else { self.vgen.gen(r, ty) };
                        let v = match v {
                            Some(Variant::Content(c)) if matches!(c.value(), rbx_dom_weak::types::ContentType::Object(_)) => Some(Variant::Content(rbx_dom_weak::types::Content::from_uri("rbxassetid://9"))),
                            other => other,
                        };
                        if let Some(v) = v {
                            spec.nodes[id].props.push((canon.clone(), PV::V(v)));
                        }
                    }
                }
            }
        }
        if let Some((first, k, prop, kind)) = twins {
            let n_nodes = spec.nodes.len();
            for id in first..first + k {
                let back = dbwalk::travel(dbwalk::db(), &spec.nodes[id].class, prop).map(|t| t.back_name.clone());
                let class = spec.nodes[id].class.clone();
                // no other spelling of the same logical property on the instance
                spec.nodes[id].props.retain(|(n, _)| n != prop && (back.is_none() || back != dbwalk::travel(dbwalk::db(), &class, n).map(|t| t.back_name.clone())));
                let t = if r.chance(1, 6) { RefT::Null } else { RefT::Node(r.below(n_nodes)) };
                let pv = match kind {
                    0 => PV::ContentObj(t),
                    1 => PV::Ref(t),
                    _ => PV::V(Variant::SharedString(SharedString::new(format!("twin-shared-{}", r.below(3)).into_bytes()))),
                };
                spec.nodes[id].props.push((prop.to_owned(), pv));
            }
        }
        spec
    }

    /// Trees of a SIZE that the ordinary generator practically never makes: counts at and around 2^6..2^10 (siblings,
    /// depth, distinct SharedStrings, distinct classes, properties on one instance) and values of tens of KiB.
    /// Known classes and properties only unless the generator allows unknown ones.
    pub fn scale_tree(&self, r: &mut Rng) -> TreeSpec {
        let mut spec = TreeSpec::new("DataModel");
        let counts = [63usize, 64, 65, 127, 128, 129, 255, 256, 257, 600, 1024, 1025, 1300, 2049];
        let mut n = *r.pick(&counts);
        if r.chance(1, 12) {
            // past the pre-allocation caps of the readers
            n = *r.pick(&[16384usize, 16385, 17000]);
        }
        match r.below(if self.unknown_props { 8 } else { 6 }) {
            4 if self.known_props => {
                // n instances of one known class with an enum / colour column; the LAST one alone carries one more property
                let p = spec.add(0, "Model", "parts");
                for i in 0..n {
                    let id = spec.add(p, "Part", &format!("p{}", i));
                    spec.nodes[id].props.push(("Material".into(), PV::V(Variant::Enum(rbx_dom_weak::types::Enum::from_u32(256 + (i % 7) as u32 * 16)))));
                    // distinct ids on every instance (a 16-byte-wide interleaved column)
                    spec.nodes[id].props.push(("UniqueId".into(), PV::V(Variant::UniqueId(rbx_dom_weak::types::UniqueId::new(i as u32 + 1, 77, 0x1234_5678_9abc + i as i64)))));
                    if i + 1 == n {
                        spec.nodes[id].props.push(("Reflectance".into(), PV::V(Variant::Float32(0.5))));
                    }
                }
            }
            5 if self.known_props => {
                // byte strings past 64 KiB (and, rarely, a value of several MiB: one chunk past any small buffer)
                let sizes = [65535usize, 65536, 65537, 70000, 200000];
                let id = spec.add(0, "BinaryStringValue", "blob");
                let len = if r.chance(1, 6) { 5 << 20 } else { *r.pick(&sizes) };
                let bytes: Vec<u8> = (0..len).map(|i| (i * 31 % 251) as u8).collect();
                spec.nodes[id].props.push(("Value".into(), PV::V(Variant::BinaryString(bytes.into()))));
                let id2 = spec.add(0, "Folder", "attrs");
                let mut a = rbx_dom_weak::types::Attributes::new();
                a.insert("big".into(), Variant::BinaryString(vec![0x5au8; *r.pick(&sizes)].into()));
                a.insert("small".into(), Variant::Bool(true));
                spec.nodes[id2].props.push(("Attributes".into(), PV::V(Variant::Attributes(a))));
            }
            4 | 5 => {
                let p = spec.add(0, "Folder", "wide2");
                for i in 0..n.min(2049) {
                    spec.add(p, "Folder", &format!("w{}", i));
                }
            }
            0 => {
                // wide: n siblings of one class, each with its own value; plus a few Refs across them
                let p = spec.add(0, "Folder", "wide");
                for i in 0..n {
                    let id = spec.add(p, "ObjectValue", &format!("c{}", i));
                    let t = if i % 3 == 0 { RefT::Null } else { RefT::Node(p + 1 + (i * 7 + 3) % n.max(1)) };
                    spec.nodes[id].props.push(("Value".into(), PV::Ref(t)));
                }
            }
            1 => {
                // deep: a chain of n instances, names distinct
                let mut p = 0;
                for i in 0..n.min(300) {
                    p = spec.add(p, if i % 2 == 0 { "Folder" } else { "Model" }, &format!("d{}", i));
                }
            }
            2 => {
                // n distinct SharedStrings on n instances (every k-th shares with the first)
                let p = spec.add(0, "Folder", "shared");
                for i in 0..n {
                    let id = spec.add(p, "UnionOperation", &format!("u{}", i));
                    let k = if i % 50 == 49 { 0 } else { i };
                    spec.nodes[id].props.push(("MeshData2".into(), PV::V(Variant::SharedString(SharedString::new(format!("scale-shared-{}", k).into_bytes())))));
                }
            }
            3 => {
                // big values: tens of KiB of text / bytes, a long name
                let big = *r.pick(&[4095usize, 4096, 65535, 65536, 70000]);
                let id = spec.add(0, "StringValue", &"n".repeat(*r.pick(&[255usize, 256, 300])));
                let text: String = (0..big).map(|i| if i % 97 == 0 { ' ' } else { (b'a' + (i % 26) as u8) as char }).collect();
                spec.nodes[id].props.push(("Value".into(), PV::V(Variant::String(text))));
                let id2 = spec.add(0, "Folder", "tags");
                let tags: Vec<String> = (0..n).map(|i| format!("tag{}", i)).collect();
                spec.nodes[id2].props.push(("Tags".into(), PV::V(Variant::Tags(tags.into()))));
            }
            6 => {
                // n distinct (unknown) classes, two instances each
                for i in 0..n.min(300) {
                    for k in 0..2 {
                        let id = spec.add(0, &format!("ZzClass{}", i), &format!("k{}", k));
                        spec.nodes[id].props.push(("ZzInt320".into(), PV::V(Variant::Int32((i * 2 + k) as i32))));
                    }
                }
            }
            _ => {
                // n (unknown) properties on one instance next to a bare one of the same class
                let id = spec.add(0, "Folder", "many");
                for i in 0..n.min(300) {
                    spec.nodes[id].props.push((format!("ZzMany{}", i), PV::V(Variant::Int32(i as i32))));
                }
                spec.add(0, "Folder", "bare");
            }
        }
        spec
    }

    pub fn fill_props(&self, r: &mut Rng, spec: &mut TreeSpec) {
        let n_nodes = spec.nodes.len();
        let mut uids: HashSet<Variant2> = HashSet::new();
        let mut settable_cache: HashMap<String, Vec<(String, VariantType, String)>> = HashMap::new();
        let types = match self.fmt {
            Fmt::Binary => ALL_BINARY_TYPES,
            Fmt::Xml => ALL_XML_TYPES,
        };
        for i in 1..n_nodes {
            let class = spec.nodes[i].class.clone();
            let settable = settable_cache
                .entry(class.clone())
                .or_insert_with(|| settable_props(&class, self.fmt, self.aliases))
                .clone();
            let mut used_back: HashSet<String> = HashSet::new();
            let mut props: Vec<(String, PV)> = vec![];
            if self.known_props && !settable.is_empty() {
                let k = match r.below(10) {
                    0 => 0,
                    1 => settable.len().min(60),
                    _ => r.below(7),
                };
                for _ in 0..k {
                    let (name, ty, back) = r.pick(&settable).clone();
                    if !used_back.insert(back) {
                        continue;
                    }
                    if let Some(pv) = self.pv(r, ty, n_nodes, i, &mut uids) {
                        props.push((name, pv));
                    }
                }
            }
            // a property the database knows but marks as never serialized (BasePart.Position, ...): both writers skip it,
            // and skipping it must not disturb the instance's other properties
            if self.known_props && self.fmt == Fmt::Binary && r.chance(1, 8) {
                // (binary only: rbx_xml treats such a property like an unknown one, and what then happens depends on the
                // option pairing in ways the C02 statement does not spell out)
                let db = dbwalk::db();
                let mut ns: Vec<(String, VariantType)> = dbwalk::all_props(db, &class)
                    .into_iter()
                    .filter_map(|(_, d)| {
                        let name: &str = d.name.as_ref();
                        match dbwalk::resolve(db, &class, name) {
                            Some(rs) if matches!(rs.ser, Ser::No) && !rs.via_alias => dbwalk::vtype(d).filter(|t| type_ok(self.fmt, *t)).map(|t| (name.to_owned(), t)),
                            _ => None,
                        }
                    })
                    .collect();
                ns.sort_by(|a, b| a.0.cmp(&b.0));
                if !ns.is_empty() {
                    let (name, ty) = r.pick(&ns).clone();
                    if !matches!(ty, VariantType::Ref | VariantType::UniqueId) && used_back.insert(name.clone()) {
                        if let Some(v) = self.vgen.gen(r, ty) {
                            props.push((name, PV::V(v)));
                        }
                    }
                }
            }
            if self.unknown_props {
                let k = match r.below(6) {
                    0 | 1 | 2 => 0,
                    3 => 1,
                    _ => r.below(5),
                };
                // names that only a careless comparison would confuse with reserved or known ones: padded / case-changed
                // "Name", and case variants of properties the class really has (always String / Int32, see below)
                if r.chance(1, 6) {
                    let known: Vec<String> = settable.iter().map(|(n, _, _)| n.clone()).collect();
                    let (name, v) = match r.below(4) {
                        0 => ((*r.pick(&[" Name", "Name ", "NAME", "nAME", "Name\u{a0}", "ClassName", "Parent", "Referent", "referent", "", " ", "\u{a0}"])).to_owned(), Variant::String(format!("tricky{}", r.below(9)))),
                        _ if !known.is_empty() => {
                            let base = r.pick(&known).clone();
                            let alt = match r.below(3) {
                                0 => base.to_uppercase(),
                                1 => base.to_lowercase(),
                                _ => format!("{} ", base),
                            };
                            (alt, Variant::Int32(r.below(100) as i32))
                        }
                        _ => ("name ".to_owned(), Variant::String("x".into())),
                    };
                    if dbwalk::resolve(dbwalk::db(), &class, &name).is_none() && used_back.insert(name.clone()) {
                        props.push((name, PV::V(v)));
                    }
                }
                for _ in 0..k {
                    let ty = *r.pick(types);
                    // the name determines the type, so a class column never mixes types
                    let name = format!("Zz{:?}{}", ty, r.below(2));
                    if dbwalk::resolve(dbwalk::db(), &class, &name).is_some() || !used_back.insert(name.clone()) {
                        continue;
                    }
                    if let Some(pv) = self.pv(r, ty, n_nodes, i, &mut uids) {
                        props.push((name, pv));
                    }
                }
            }
            spec.nodes[i].props = props;
        }
    }

    /// Random antichain of non-root nodes in random order (what gets passed as `refs` to to_writer).
    pub fn selection(&self, r: &mut Rng, spec: &TreeSpec) -> Vec<usize> {
        let n = spec.nodes.len();
        if n <= 1 {
            return vec![];
        }
        match r.below(4) {
            0 | 1 => spec.nodes[0].children.clone(), // the usual: children of the root
            _ => {
                let mut cand: Vec<usize> = (1..n).collect();
                r.shuffle(&mut cand);
                let want = 1 + r.below(4);
                let mut sel: Vec<usize> = vec![];
                for c in cand {
                    if sel.len() >= want {
                        break;
                    }
                    if sel
                        .iter()
                        .all(|s| !spec.is_ancestor_or_self(*s, c) && !spec.is_ancestor_or_self(c, *s))
                    {
                        sel.push(c);
                    }
                }
                sel
            }
        }
    }
}

/// Hashable stand-in for a Variant (by Debug text); only used to keep UniqueIds distinct.
#[derive(Clone, Debug, PartialEq, Eq, Hash)]
pub struct Variant2(pub String);
