//! C15: legacy (migrating) properties end up as the same new property with the same value on all
//! four paths (write binary, write XML, read binary, read XML); an explicit new value wins.
//! The write paths run here; the read paths are files built by the independent encoders from the
//! case records this command emits, decoded afterwards by `vh readcmp --prop C15`.

use std::collections::BTreeMap;
use std::io::Write;

use crate::canon;
use crate::dbwalk::{self, Ser};
use crate::expect::XmlMode;
use crate::gen_value::VGen;
use crate::report::{catch, panic_sig, Report};
use crate::rng::Rng;
use crate::Args;
use rbx_dom_weak::types::*;
use rbx_dom_weak::{InstanceBuilder, WeakDom};
use rbx_reflection::DataType;
use serde_json::{json, Value as J};

struct Mig {
    owner: String,
    legacy: String,
    legacy_ty: VariantType,
    enum_name: Option<String>,
    new_name: String,
}

fn migrations() -> Vec<Mig> {
    let db = dbwalk::db();
    let mut out = vec![];
    for cn in dbwalk::sorted_class_names(db) {
        let c = &db.classes[cn];
        let mut names: Vec<&str> = c.properties.keys().map(|k| k.as_ref()).collect();
        names.sort();
        for pn in names {
            if let Some(r) = dbwalk::resolve(db, cn, pn) {
                if r.via_alias {
                    continue;
                }
                if let Ser::Migrate(m) = r.ser {
                    let d = &c.properties[pn];
                    out.push(Mig {
                        owner: cn.to_owned(),
                        legacy: pn.to_owned(),
                        legacy_ty: dbwalk::vtype(d).unwrap_or(VariantType::Bool),
                        enum_name: match &d.data_type {
                            DataType::Enum(e) => Some(e.to_string()),
                            _ => None,
                        },
                        new_name: m.new_property_name.clone(),
                    });
                }
            }
        }
    }
    out
}

fn legacy_values(m: &Mig) -> Vec<Variant> {
    let db = dbwalk::db();
    match m.legacy_ty {
        VariantType::Enum => {
            let mut items: Vec<u32> = m
                .enum_name
                .as_ref()
                .and_then(|e| db.enums.get(e.as_str()))
                .map(|e| e.items.values().copied().collect())
                .unwrap_or_default();
            items.sort();
            items.dedup();
            items.into_iter().map(|v| Variant::Enum(Enum::from_u32(v))).collect()
        }
        VariantType::BrickColor => (0..=2000u16).filter_map(BrickColor::from_number).map(Variant::BrickColor).collect(),
        VariantType::Bool => vec![Variant::Bool(false), Variant::Bool(true)],
        VariantType::ContentId => ["", "rbxassetid://1", "http://www.roblox.com/asset/?id=1&x=<2>", " lead and trail ", "rbxasset://fonts/families/Ünï.json", "a\nb"]
            .iter()
            .map(|s| Variant::ContentId(ContentId::from(*s)))
            .collect(),
        _ => vec![],
    }
}

fn subclasses(class: &str) -> Vec<String> {
    let db = dbwalk::db();
    dbwalk::sorted_class_names(db)
        .into_iter()
        .filter(|c| *c != class && dbwalk::class_chain(db, c).iter().any(|k| k.name == class))
        .map(|s| s.to_owned())
        .collect()
}

/// The instance under test is written six times in one file: on its own, as first and second child of a
/// parent of the same class that carries BOTH the legacy and the new property, as first child of a
/// parent that carries only the legacy one, and as the sibling right after a legacy-only / a both-carrying instance. Its decoded properties must not depend on where it stands
/// (whatever a writer remembers about one instance must not leak into its neighbours).
fn positions(dump: &J) -> Vec<(&'static str, J)> {
    vec![
        ("alone", dump["roots"][0]["props"].clone()),
        ("first-child-of-both", dump["roots"][1]["children"][0]["props"].clone()),
        ("second-child-of-both", dump["roots"][1]["children"][1]["props"].clone()),
        ("first-child-of-legacy-only", dump["roots"][2]["children"][0]["props"].clone()),
        ("right-after-legacy-only-sibling", dump["roots"][3]["props"].clone()),
        ("right-after-both-sibling", dump["roots"][5]["props"].clone()),
    ]
}

type WriteOut = Vec<(&'static str, J)>;

fn run_write(class: &str, props: &[(String, Variant)], ctx: &[(String, Variant)], legacy: &(String, Variant), fmt: &str) -> Result<Result<WriteOut, String>, crate::report::PanicInfo> {
    let t = || {
        let mut b = InstanceBuilder::new(class).with_name("n");
        for (k, v) in props {
            b.add_property(k.as_str(), v.clone());
        }
        b
    };
    let mut both = InstanceBuilder::new(class).with_name("both");
    for (k, v) in ctx {
        both.add_property(k.as_str(), v.clone());
    }
    let only = InstanceBuilder::new(class).with_name("only").with_property(legacy.0.as_str(), legacy.1.clone());
    let dom = WeakDom::new(
        InstanceBuilder::new("DataModel")
            .with_child(t())
            .with_child(both.with_child(t()).with_child(t()))
            .with_child(only.with_child(t()))
            // whichever order a writer visits instances in (parents first or children first), one copy now
            // directly follows a legacy-only instance and one directly follows an instance carrying both
            .with_child(t())
            .with_child({
                let mut b = InstanceBuilder::new(class).with_name("both2");
                for (k, v) in ctx {
                    b.add_property(k.as_str(), v.clone());
                }
                b
            })
            .with_child(t()),
    );
    let roots = dom.root().children().to_vec();
    catch(|| {
        if fmt == "bin" {
            let bytes = crate::rt::write_binary(&dom, &roots, rbx_binary::CompressionType::None).map_err(|e| format!("write: {}", e))?;
            let d = rbx_binary::from_reader(&bytes[..]).map_err(|e| format!("read: {}", e))?;
            Ok(positions(&canon::dump_decoded(&d)))
        } else {
            let bytes = crate::rt::write_xml(&dom, &roots, XmlMode::Default).map_err(|e| format!("write: {}", e))?;
            let d = rbx_xml::from_reader_default(&bytes[..]).map_err(|e| format!("read: {}", e))?;
            Ok(positions(&canon::dump_decoded(&d)))
        }
    })
}

pub fn main(a: &Args) {
    let seed = a.u64("seed", 1);
    let shard = a.u64("shard", 0);
    let nshards = a.u64("nshards", 1);
    let stride = a.u64("stride", 1); // quick: every stride-th legacy value
    let out = a.str("out", "/dev/stdout");
    let mut cases: Option<std::io::BufWriter<std::fs::File>> = a.kv.get("cases").map(|p| std::io::BufWriter::new(std::fs::File::create(p).unwrap()));
    let mut rep = Report::new("C15");
    let db = dbwalk::db();
    let g = VGen::xml();
    let migs = migrations();
    rep.add("migrating_descriptors", migs.len() as u64);
    let mut n: u64 = 0;
    for m in &migs {
        let subs = subclasses(&m.owner);
        let mut classes: Vec<String> = vec![];
        let mut r0 = Rng::derive(seed, "c15-classes", crate::rng::fnv64(format!("{}.{}", m.owner, m.legacy).as_bytes()));
        if subs.is_empty() {
            classes.push(m.owner.clone());
        } else {
            classes.push(subs[r0.below(subs.len())].clone());
            classes.push(subs[r0.below(subs.len())].clone());
            classes.dedup();
        }
        if !subs.is_empty() && db.classes[m.owner.as_str()].tags.is_empty() {
            classes.push(m.owner.clone());
        }
        let values = legacy_values(m);
        rep.add(&format!("legacy_values.{}.{}", m.owner, m.legacy), values.len() as u64);
        for class in &classes {
            let new_travel = match dbwalk::travel(db, class, &m.new_name) {
                Some(t) => t,
                None => continue,
            };
            let legacy_wire_ty = m.legacy_ty;
            for (vi, lv) in values.iter().enumerate() {
                if (vi as u64) % stride != (seed % stride) && values.len() > 2 && vi != 0 {
                    continue;
                }
                for presence in 0..3 {
                    n += 1;
                    if n % nshards != shard {
                        continue;
                    }
                    let mut r = Rng::derive(seed, "c15", n);
                    // whitespace-only text inside XML elements is C05's subject (a foreign writer's plain
                    // text node of only blanks); keep it out of the migration comparison
                    let ws = |s: &str| !s.is_empty() && s.trim().is_empty();
                    let norm = |explicit: Option<Variant>| -> Option<Variant> {
                        let explicit = match explicit {
                            Some(Variant::Content(c)) if matches!(c.value(), ContentType::Uri(u) if ws(u)) => Some(Variant::Content(Content::from_uri("ws"))),
                            Some(Variant::Font(mut f)) => {
                                if ws(&f.family) {
                                    f.family = "ws".into();
                                }
                                if f.cached_face_id.as_deref().map(ws).unwrap_or(false) {
                                    f.cached_face_id = Some("ws".into());
                                }
                                Some(Variant::Font(f))
                            }
                            other => other,
                        };
                        match explicit {
                            Some(Variant::Content(c)) if matches!(c.value(), ContentType::Object(_)) => Some(Variant::Content(Content::from_uri("rbxassetid://77"))),
                            Some(Variant::CFrame(c)) => Some(Variant::CFrame(crate::expect::snap_cframe(&c))),
                            other => other,
                        }
                    };
                    // presence 2: the explicit value is exactly the database default of the new property - a value a reader or
                    // writer might mistake for "nothing was set here"
                    let explicit: Option<Variant> = match presence {
                        1 => norm(g.gen(&mut r, new_travel.declared_ty)),
                        2 => match crate::dbwalk::default_for(crate::dbwalk::db(), &class, &m.new_name).cloned().filter(|d| d.ty() == new_travel.declared_ty) {
                            Some(d) => norm(Some(d)),
                            None => continue,
                        },
                        _ => None,
                    };
                    // the neighbouring instance that carries both spellings (another legacy value where there is one)
                    let ctx_legacy = values[if vi == 0 { 1 % values.len() } else { 0 }].clone();
                    let mut ctx = vec![(m.legacy.clone(), ctx_legacy)];
                    if let Some(cv) = norm(g.gen(&mut r, new_travel.declared_ty)) {
                        if r.chance(1, 2) {
                            ctx.insert(0, (m.new_name.clone(), cv));
                        } else {
                            ctx.push((m.new_name.clone(), cv));
                        }
                    }
                    let mut props = vec![(m.legacy.clone(), lv.clone())];
                    if n % 3 == 0 {
                        // neighbours that reflection cannot resolve (unknown to the database) or that never serialize: the
                        // writers walk the property map past them on their way to the explicit value
                        for k in 0..3 {
                            props.push((format!("{}Zz{}", ["", "aa", "zz"][k], n % 7), Variant::Int32(k as i32)));
                        }
                    }
                    if let Some(e) = &explicit {
                        if r.chance(1, 2) {
                            props.insert(0, (m.new_name.clone(), e.clone()));
                        } else {
                            props.push((m.new_name.clone(), e.clone()));
                        }
                    }
                    rep.evaluations += 1;
                    rep.count(&format!("cases.{}.{}", m.legacy, if presence == 2 { "explicit-new-equal-to-default" } else if presence == 1 { "explicit-new" } else { "legacy-only" }));
                    let lvd: String = format!("{:?}", lv).chars().take(80).collect();
                    let sigv = match lv {
                        Variant::Enum(e) => format!("{}={}", m.legacy, e.to_u32()),
                        _ => m.legacy.clone(),
                    };
                    let label = format!("{}.{}={} {}", class, m.legacy, lvd, if presence >= 1 { "+explicit" } else { "" });
                    let replay = json!({"cmd": "c15", "class": class, "legacy": m.legacy, "value": lvd, "explicit": presence >= 1, "seed": seed, "n": n});
                    rep.nontrivial(crate::rng::fnv64(label.as_bytes()));
                    rep.sample(json!({"case": label}));
                    let no = |_: Ref| J::Null;
                    let mut results: BTreeMap<&str, J> = BTreeMap::new();
                    for fmt in ["bin", "xml"] {
                        match run_write(class, &props, &ctx, &(m.legacy.clone(), lv.clone()), fmt) {
                            Err(p) => rep.violation(&format!("C15:w-{}:{}", fmt, panic_sig(&p)), &format!("{}: {}", label, p.msg), replay.clone(), J::Null),
                            Ok(Err(e)) => {
                                let ec: String = e.split(':').take(2).collect::<Vec<_>>().join(":").chars().filter(|c| !c.is_ascii_digit()).take(60).collect();
                                rep.violation(
                                    &format!("C15:w-{}:error:{}:{}", fmt, sigv, ec),
                                    &format!("{}: migrating while writing {} failed: {}", label, fmt, e),
                                    replay.clone(),
                                    J::Null,
                                );
                            }
                            Ok(Ok(ps)) => {
                                rep.count("positions_compared");
                                let alone = ps[0].1.clone();
                                for (pos, p) in ps.iter().skip(1) {
                                    if let Some((path, e, gv)) = canon::diff(&alone, p) {
                                        rep.violation(
                                            &format!("C15:w-{}:depends-on-neighbours:{}:{}", fmt, m.legacy, pos),
                                            &format!("{}: the same instance written as {} decodes differently at {}: alone {} there {}", label, pos, path, e, gv),
                                            replay.clone(),
                                            J::Null,
                                        );
                                    }
                                }
                                results.insert(fmt, alone);
                            }
                        }
                    }
                    for (fmt, p) in &results {
                        if p.get(&m.legacy).is_some() {
                            rep.violation(
                                &format!("C15:w-{}:legacy-name-survives:{}", fmt, m.legacy),
                                &format!("{}: the decoded DOM still carries the legacy name {} ({})", label, m.legacy, fmt),
                                replay.clone(),
                                J::Null,
                            );
                        }
                        match (&explicit, p.get(&new_travel.back_name)) {
                            (_, None) => rep.violation(
                                &format!("C15:w-{}:new-property-missing:{}", fmt, m.legacy),
                                &format!("{}: no {} after the {} round trip", label, new_travel.back_name, fmt),
                                replay.clone(),
                                J::Null,
                            ),
                            (Some(e), Some(got)) => {
                                // explicit value wins (under the documented quantisation for byte colours)
                                let want = match e {
                                    Variant::Color3(c) if new_travel.wire_ty == VariantType::Color3uint8 => canon::value(&Variant::Color3uint8(crate::expect::quantise(c)), &no),
                                    other => canon::with_nan_class(*fmt == "xml", || canon::value(other, &no)),
                                };
                                let got2 = if *fmt == "xml" { got.clone() } else { got.clone() };
                                let same = if *fmt == "xml" { nan_eq(&want, &got2) } else { want == got2 };
                                if !same {
                                    rep.violation(
                                        &format!("C15:w-{}:explicit-new-value-lost:{}", fmt, m.legacy),
                                        &format!("{}: explicit {} = {} but the {} round trip gives {}", label, m.new_name, want, fmt, got),
                                        replay.clone(),
                                        J::Null,
                                    );
                                }
                            }
                            _ => {}
                        }
                    }
                    if let (Some(b), Some(x)) = (results.get("bin"), results.get("xml")) {
                        let (vb, vx) = (b.get(&new_travel.back_name), x.get(&new_travel.back_name));
                        let same = match (vb, vx) {
                            (Some(p), Some(q)) => nan_eq(p, q),
                            (None, None) => true,
                            _ => false,
                        };
                        if !same {
                            rep.violation(
                                &format!("C15:write-paths-disagree:{}", m.legacy),
                                &format!("{}: {} is {} after writing binary but {} after writing XML", label, new_travel.back_name, vb.map(|v| v.to_string()).unwrap_or("<absent>".into()), vx.map(|v| v.to_string()).unwrap_or("<absent>".into())),
                                replay.clone(),
                                J::Null,
                            );
                        }
                    }
                    // material for the two read paths
                    if let Some(w) = cases.as_mut() {
                        if let Some(expected) = results.get("bin").or(results.get("xml")) {
                            let newv = explicit.as_ref().map(|e| match e {
                                Variant::Color3(c) if new_travel.wire_ty == VariantType::Color3uint8 => canon::value(&Variant::Color3uint8(crate::expect::quantise(c)), &no),
                                other => canon::value(other, &no),
                            });
                            // another class that has the target property too: read-side bookkeeping must be per class
                            let other = dbwalk::sorted_class_names(db)
                                .into_iter()
                                .filter(|c| *c != class.as_str() && !dbwalk::is_service(db, c))
                                .filter_map(|c| dbwalk::travel(db, c, &m.new_name).map(|t| (c, t)))
                                .find(|(_, t)| t.wire_name == new_travel.wire_name && t.wire_ty == new_travel.wire_ty)
                                .and_then(|(c, t)| {
                                    norm(g.gen(&mut r, t.declared_ty)).map(|ov| {
                                        let v = match &ov {
                                            Variant::Color3(c3) if t.wire_ty == VariantType::Color3uint8 => canon::value(&Variant::Color3uint8(crate::expect::quantise(c3)), &no),
                                            other => canon::value(other, &no),
                                        };
                                        json!({"class": c, "back": t.back_name, "wire_name": t.wire_name, "wire_ty": format!("{:?}", t.wire_ty), "value": v})
                                    })
                                });
                            let rec = json!({
                                "kind": "c15", "n": n, "label": label, "class": class, "other": other, "target_wire_name": new_travel.wire_name,
                                "legacy": {"name": m.legacy, "wire_ty": format!("{:?}", legacy_wire_ty), "value": canon::value(lv, &no)},
                                "new": newv.map(|v| json!({"back": new_travel.back_name, "wire_name": new_travel.wire_name, "wire_ty": format!("{:?}", new_travel.wire_ty), "value": v})),
                                "expected_props": {new_travel.back_name.clone(): expected.get(&new_travel.back_name).cloned().unwrap_or(J::Null)},
                            });
                            let _ = writeln!(w, "{}", rec);
                        }
                    }
                }
            }
        }
    }
    if let Some(mut w) = cases {
        let _ = w.flush();
    }
    if shard == 0 {
        // the same rules with a database that knows a migration the bundled one does not (see c16::added_migration)
        crate::c16::added_migration(&mut rep, "C15");
    }
    rep.finish(&out);
}

fn nan_eq(a: &J, b: &J) -> bool {
    // compare two canon values with every NaN bit pattern folded (XML cannot carry payloads)
    fn fold(v: &J) -> J {
        match v {
            J::String(s) if s.len() == 8 && s.chars().all(|c| c.is_ascii_hexdigit()) => {
                let bits = u32::from_str_radix(s, 16).unwrap_or(0);
                if f32::from_bits(bits).is_nan() {
                    J::String("7fc00000".into())
                } else {
                    v.clone()
                }
            }
            J::Array(a) => J::Array(a.iter().map(fold).collect()),
            J::Object(o) => J::Object(o.iter().map(|(k, v)| (k.clone(), fold(v))).collect()),
            other => other.clone(),
        }
    }
    fold(a) == fold(b)
}
