//! C12 beyond operation histories: DOMs obtained from the readers for files that contain
//! duplicate UniqueIds, and concurrent UniqueId::now().

use std::collections::HashSet;
use std::io::BufRead;

use crate::report::{catch, panic_sig, Report};
use crate::Args;
use rbx_dom_weak::types::{UniqueId, Variant};
use rbx_dom_weak::{ustr, InstanceBuilder, WeakDom};
use serde_json::{json, Value as J};

fn held(dom: &WeakDom) -> Vec<UniqueId> {
    dom.descendants()
        .filter_map(|i| match i.properties.get(&ustr("UniqueId")) {
            Some(Variant::UniqueId(u)) => Some(*u),
            _ => None,
        })
        .collect()
}

pub fn read_main(a: &Args) {
    let input = a.str("in", "/dev/stdin");
    let out = a.str("out", "/dev/stdout");
    let mut rep = Report::new("C12");
    let f = std::io::BufReader::new(std::fs::File::open(&input).expect("input"));
    for line in f.lines() {
        let line = line.unwrap();
        if line.trim().is_empty() {
            continue;
        }
        let rec: J = serde_json::from_str(&line).unwrap();
        let fmt = rec["fmt"].as_str().unwrap_or("bin").to_owned();
        let bytes: Vec<u8> = if let Some(h) = rec["bytes_hex"].as_str() { crate::canon::unhex(h) } else { rec["text"].as_str().unwrap_or("").as_bytes().to_vec() };
        let replay = json!({"fmt": fmt, "id": rec["id"], "file_hex": crate::canon::hex(&bytes)});
        rep.evaluations += 1;
        rep.count(&format!("decoded.{}", fmt));
        let dom = catch(|| {
            if fmt == "xml" {
                rbx_xml::from_reader_default(&bytes[..]).map_err(|e| e.to_string())
            } else {
                rbx_binary::from_reader(&bytes[..]).map_err(|e| e.to_string())
            }
        });
        let mut dom = match dom {
            Ok(Ok(d)) => d,
            Ok(Err(e)) => {
                rep.violation(&format!("C12:decode-error:{}", fmt), &format!("reader rejected a file with duplicate UniqueIds: {}", e), replay, J::Null);
                continue;
            }
            Err(p) => {
                rep.violation(&format!("C12:decode:{}", panic_sig(&p)), &format!("reader panicked: {}", p.msg), replay, J::Null);
                continue;
            }
        };
        let ndup = rec["duplicates"].as_u64().unwrap_or(0);
        if ndup > 0 {
            rep.nontrivial(crate::rng::fnv64(&bytes));
        }
        rep.sample(json!({"id": rec["id"], "fmt": fmt, "duplicate_ids_in_file": ndup}));
        let h = held(&dom);
        // (ids are compared field by field: the type's own == / Hash belong to the code under test)
        let hs: HashSet<(u32, u32, i64)> = h.iter().map(|u| (u.index(), u.time(), u.random())).collect();
        if hs.len() != h.len() {
            rep.violation(
                &format!("C12:decoded-duplicate:{}", fmt),
                &format!("{} reader: two instances of the decoded DOM hold the same UniqueId ({} held, {} distinct)", fmt, h.len(), hs.len()),
                replay.clone(),
                J::Null,
            );
        }
        let book: HashSet<(u32, u32, i64)> = dom.verif_unique_ids().iter().map(|u| (u.index(), u.time(), u.random())).collect();
        if book != hs {
            rep.violation(
                &format!("C12:decoded-bookkeeping:{}", fmt),
                &format!("{} reader: bookkeeping set of the decoded DOM has {} ids, its instances hold {}", fmt, book.len(), hs.len()),
                replay.clone(),
                J::Null,
            );
        }
        // a following insert of a colliding id must regenerate; of a fresh one must keep it
        if let Some(first) = h.first().copied() {
            let root = dom.root_ref();
            let r = dom.insert(root, InstanceBuilder::new("Folder").with_property("UniqueId", first));
            let got = dom.get_unique_id(r);
            if got.map(|g| (g.index(), g.time(), g.random())) == Some((first.index(), first.time(), first.random())) {
                rep.violation(
                    &format!("C12:decoded-insert-collision-kept:{}", fmt),
                    &format!("{} reader: inserting an instance whose UniqueId is already held by the decoded DOM kept the id", fmt),
                    replay.clone(),
                    J::Null,
                );
            }
            rep.count("followup.insert_colliding");
        }
        let fresh = UniqueId::new(0x7fff_0001, 0x7fff_0002, 0x7fff_0003);
        if !hs.contains(&(fresh.index(), fresh.time(), fresh.random())) {
            let root = dom.root_ref();
            let r = dom.insert(root, InstanceBuilder::new("Folder").with_property("UniqueId", fresh));
            if dom.get_unique_id(r).map(|g| (g.index(), g.time(), g.random())) != Some((fresh.index(), fresh.time(), fresh.random())) {
                rep.violation(
                    &format!("C12:decoded-insert-fresh-changed:{}", fmt),
                    &format!("{} reader: inserting an instance with an id not present in the decoded DOM changed it", fmt),
                    replay.clone(),
                    J::Null,
                );
            }
            rep.count("followup.insert_fresh");
        }
    }
    rep.finish(&out);
}

pub fn now_main(a: &Args) {
    let threads = a.usize("threads", 8);
    let per = a.usize("per", 50000);
    let out = a.str("out", "/dev/stdout");
    let mut rep = Report::new("C12");
    let start = std::sync::Arc::new(std::sync::Barrier::new(threads));
    let handles: Vec<_> = (0..threads)
        .map(|_| {
            let b = start.clone();
            std::thread::spawn(move || {
                b.wait();
                let mut v = Vec::with_capacity(per);
                for _ in 0..per {
                    v.push(UniqueId::now().expect("UniqueId::now failed"));
                }
                v
            })
        })
        .collect();
    let mut all: Vec<UniqueId> = vec![];
    for h in handles {
        all.extend(h.join().expect("generator thread panicked"));
    }
    let set: HashSet<(u32, u32, i64)> = all.iter().map(|u| (u.index(), u.time(), u.random())).collect();
    rep.evaluations = threads as u64;
    rep.add("uniqueid_now.calls", all.len() as u64);
    rep.add("uniqueid_now.threads", threads as u64);
    let idx: HashSet<u32> = all.iter().map(|u| u.index()).collect();
    rep.add("uniqueid_now.distinct_index_values", idx.len() as u64);
    rep.nontrivial(1);
    rep.nontrivial(2);
    rep.sample(json!({"threads": threads, "per_thread": per, "first": all.first().map(|u| u.to_string())}));
    if set.len() != all.len() {
        rep.violation(
            "C12:now-repeat",
            &format!("UniqueId::now() returned {} values of which only {} are distinct ({} threads)", all.len(), set.len(), threads),
            json!({"cmd": "uidnow", "threads": threads, "per": per}),
            J::Null,
        );
    }
    rep.finish(&out);
}
