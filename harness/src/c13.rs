//! C13: decoders never panic or hang; truncation and I/O faults surface as errors.
//!
//! A supervisor generates inputs and drives a worker process (`vh c13child`) over a pipe, one
//! case at a time with a call/return protocol, so that an abort, a stack overflow or a refused
//! oversized allocation is attributed to the open case and never lost. The worker runs every
//! case on a fresh 8 MiB thread, measures its CPU time and the largest single allocation request
//! (counting global allocator; requests above 1 GiB are refused).

use std::io::{BufRead, BufReader, Read, Write};
use std::process::{Child, Command, Stdio};
use std::sync::atomic::Ordering;
use std::sync::mpsc;
use std::time::Duration;

use crate::alloc_mon;
use crate::canon;
use crate::expect::XmlMode;
use crate::gen_dom::{DomGen, Fmt};
use crate::report::{catch, rel_file, Report};
use crate::rng::Rng;
use crate::spec::{self, BuildMode};
use crate::Args;
use rbx_binary::CompressionType;
use serde_json::{json, Value as J};

// ---------------------------------------------------------------- inputs

fn small_dom(seed: u64, label: &str, index: u64, fmt: Fmt, max_nodes: usize) -> (rbx_dom_weak::WeakDom, Vec<rbx_dom_weak::types::Ref>) {
    let mut rng = Rng::derive(seed, label, index);
    let mut gen = if fmt == Fmt::Binary { DomGen::binary() } else { DomGen::xml() };
    gen.max_nodes = max_nodes;
    let mut spec = gen.tree(&mut rng);
    if fmt == Fmt::Xml {
        for n in spec.nodes.iter_mut() {
            n.props.retain(|(_, pv)| !matches!(pv, crate::spec::PV::ContentObj(_)));
        }
    }
    let built = spec::build(&spec, BuildMode::Nested, &mut rng);
    let roots: Vec<_> = spec.nodes[0].children.iter().map(|i| built.refs[*i]).collect();
    (built.dom, roots)
}

pub fn valid_file(seed: u64, index: u64, kind: &str, max_nodes: usize) -> Option<Vec<u8>> {
    match kind {
        "bin-none" | "bin-lz4" | "bin-zstd" => {
            let (dom, roots) = small_dom(seed, "c13", index, Fmt::Binary, max_nodes);
            let c = match kind {
                "bin-none" => CompressionType::None,
                "bin-lz4" => CompressionType::Lz4,
                _ => CompressionType::Zstd,
            };
            crate::rt::write_binary(&dom, &roots, c).ok()
        }
        "xml" => {
            let (dom, roots) = small_dom(seed, "c13x", index, Fmt::Xml, max_nodes);
            crate::rt::write_xml(&dom, &roots, XmlMode::Unknown).ok()
        }
        "attr" => {
            let mut rng = Rng::derive(seed, "c13a", index);
            let g = crate::gen_value::VGen::binary();
            let a = g.attributes(&mut rng, 12);
            let mut b = vec![];
            a.to_writer(&mut b).ok()?;
            Some(b)
        }
        _ => None,
    }
}

fn decoder_of(kind: &str) -> &'static str {
    if kind.starts_with("bin") {
        "bin"
    } else if kind == "xml" {
        "xml"
    } else {
        "attr"
    }
}

const INTERESTING_U32: &[u32] = &[0, 1, 2, 0x7f, 0x80, 0xff, 0x100, 0xffff, 0x10000, 0x7fff_ffff, 0x8000_0000, 0xffff_fffe, 0xffff_ffff, 0x4000_0000, 0x00ff_ffff];

pub fn mutate(r: &mut Rng, data: &mut Vec<u8>, other: &[u8]) -> &'static str {
    if data.is_empty() {
        data.extend(r.bytes(8));
        return "fill-empty";
    }
    match r.below(10) {
        0 => {
            let i = r.below(data.len());
            data[i] ^= 1 << r.below(8);
            "bit-flip"
        }
        1 => {
            let i = r.below(data.len());
            data[i] = *r.pick(&[0u8, 1, 0x7f, 0x80, 0xff, 0x20, b'<', b'>', b'&']);
            "byte-subst"
        }
        2 | 3 => {
            if data.len() < 4 {
                return "noop";
            }
            let i = r.below(data.len() - 3);
            let v = *r.pick(INTERESTING_U32);
            data[i..i + 4].copy_from_slice(&v.to_le_bytes());
            "u32-interesting"
        }
        4 => {
            if data.len() < 4 {
                return "noop";
            }
            // off-by-one on an existing little-endian length/count field
            let i = r.below(data.len() - 3);
            let cur = u32::from_le_bytes([data[i], data[i + 1], data[i + 2], data[i + 3]]);
            let v = if r.chance(1, 2) { cur.wrapping_add(1) } else { cur.wrapping_sub(1) };
            data[i..i + 4].copy_from_slice(&v.to_le_bytes());
            "u32-off-by-one"
        }
        5 => {
            let i = r.below(data.len());
            let n = 1 + r.below(16.min(data.len() - i));
            data.drain(i..i + n);
            "delete"
        }
        6 => {
            let i = r.below(data.len() + 1);
            let n = 1 + r.below(16);
            let ins = r.bytes(n);
            data.splice(i..i, ins);
            "insert"
        }
        7 => {
            let i = r.below(data.len());
            let n = 1 + r.below(64.min(data.len() - i));
            let seg: Vec<u8> = data[i..i + n].to_vec();
            let j = r.below(data.len() + 1);
            data.splice(j..j, seg);
            "duplicate-range"
        }
        8 => {
            if other.is_empty() {
                return "noop";
            }
            let i = r.below(data.len());
            let j = r.below(other.len());
            data.truncate(i);
            data.extend_from_slice(&other[j..]);
            "splice"
        }
        _ => {
            let i = r.below(data.len());
            let n = 1 + r.below(8.min(data.len() - i));
            for k in 0..n {
                data[i + k] = r.below(256) as u8;
            }
            "random-bytes"
        }
    }
}

/// For an uncompressed binary file: offsets of chunk headers (name, clen, len, reserved).
fn chunk_offsets(data: &[u8]) -> Vec<usize> {
    let mut out = vec![];
    let mut p = 32;
    while p + 16 <= data.len() {
        out.push(p);
        let clen = u32::from_le_bytes([data[p + 4], data[p + 5], data[p + 6], data[p + 7]]) as usize;
        let len = u32::from_le_bytes([data[p + 8], data[p + 9], data[p + 10], data[p + 11]]) as usize;
        let body = if clen == 0 { len } else { clen };
        p = p.saturating_add(16).saturating_add(body);
    }
    out
}

fn mutate_structured(r: &mut Rng, data: &mut Vec<u8>) -> &'static str {
    // targeted at header / chunk-header / leading count fields of an uncompressed file
    let offs = chunk_offsets(data);
    match r.below(5) {
        0 if data.len() >= 32 => {
            let field = *r.pick(&[16usize, 20, 24, 28]);
            let v = *r.pick(INTERESTING_U32);
            data[field..field + 4].copy_from_slice(&v.to_le_bytes());
            "header-field"
        }
        1 | 2 if !offs.is_empty() => {
            let o = *r.pick(&offs);
            let field = *r.pick(&[4usize, 8, 12]);
            if o + field + 4 <= data.len() {
                let v = *r.pick(INTERESTING_U32);
                data[o + field..o + field + 4].copy_from_slice(&v.to_le_bytes());
            }
            "chunk-header-field"
        }
        3 if !offs.is_empty() => {
            // first 24 bytes of a chunk payload: class id, counts, string lengths live there
            let o = *r.pick(&offs) + 16;
            let k = r.below(24);
            if o + k + 4 <= data.len() {
                let v = *r.pick(INTERESTING_U32);
                data[o + k..o + k + 4].copy_from_slice(&v.to_le_bytes());
            }
            "chunk-leading-field"
        }
        _ => {
            if offs.len() >= 2 {
                // swap / duplicate / drop a whole chunk
                let a = r.below(offs.len() - 1);
                let (s, e) = (offs[a], offs[a + 1]);
                let chunk: Vec<u8> = data[s..e.min(data.len())].to_vec();
                match r.below(3) {
                    0 => {
                        data.drain(s..e.min(data.len()));
                    }
                    1 => {
                        data.splice(s..s, chunk);
                    }
                    _ => {
                        let b = offs[r.below(offs.len())].min(data.len());
                        data.splice(b..b, chunk);
                    }
                }
                "chunk-reorder"
            } else {
                "noop"
            }
        }
    }
}

/// XML-aware mutation: element text (the bytes between `>` and `<`) is what the per-type readers parse with
/// fixed widths, split points and number parsers. Keeps the document well-formed so the mutation reaches them.
fn mutate_xml_text(r: &mut Rng, data: &mut Vec<u8>) -> &'static str {
    // text runs of at least one byte that do not contain markup
    let mut runs: Vec<(usize, usize)> = vec![];
    let mut i = 0;
    while i < data.len() {
        if data[i] == b'>' {
            let s = i + 1;
            let mut e = s;
            while e < data.len() && data[e] != b'<' {
                e += 1;
            }
            if e > s && e < data.len() && data[s..e].iter().any(|b| !b.is_ascii_whitespace()) && !data[s..e].contains(&b'&') {
                runs.push((s, e));
            }
            i = e;
        } else {
            i += 1;
        }
    }
    if runs.is_empty() {
        return "noop";
    }
    let (s, e) = *r.pick(&runs);
    let len = e - s;
    const MB: [&str; 6] = ["\u{e9}", "\u{2c98}", "\u{1f600}", "\u{7ff}", "\u{ffff}", "\u{10ffff}"];
    match r.below(8) {
        0 | 1 | 2 => {
            // same byte length, fewer characters: k ASCII bytes become one k-byte character
            let c = *r.pick(&MB);
            let k = c.len();
            if len < k {
                data.splice(s..e, c.bytes());
                return "xml-text-multibyte-replace";
            }
            let at = s + r.below(len - k + 1);
            data.splice(at..at + k, c.bytes());
            "xml-text-multibyte-same-length"
        }
        3 => {
            let c = *r.pick(&MB);
            let at = s + r.below(len + 1);
            data.splice(at..at, c.bytes());
            "xml-text-multibyte-insert"
        }
        4 => {
            let at = s + r.below(len);
            let c: &[u8] = *r.pick(&[&b"+"[..], b"-", b" ", b"e", b".", b"0x", b"_", b",", b"NaN", b"INF", b"-0", b"1e999", b"\t", b"\n"]);
            data.splice(at..at + 1, c.iter().copied());
            "xml-text-number-syntax"
        }
        5 => {
            data.drain(s..e);
            "xml-text-emptied"
        }
        6 => {
            // one character short / one character long
            if r.chance(1, 2) {
                data.remove(s + r.below(len));
            } else {
                let b = data[s + r.below(len)];
                data.insert(s + r.below(len + 1), b);
            }
            "xml-text-length-off-by-one"
        }
        _ => {
            let n = *r.pick(&[33usize, 64, 255, 256, 4096]);
            let b = data[s];
            data.splice(s..e, std::iter::repeat(b).take(n));
            "xml-text-long-run"
        }
    }
}

fn xml_bomb(r: &mut Rng) -> (Vec<u8>, &'static str) {
    match r.below(6) {
        0 => {
            let n = *r.pick(&[100usize, 1000, 5000, 20000, 100000]);
            let mut s = String::from("<roblox version=\"4\">");
            for _ in 0..n {
                s.push_str("<Item class=\"Folder\" referent=\"R\"><Properties></Properties>");
            }
            for _ in 0..n {
                s.push_str("</Item>");
            }
            s.push_str("</roblox>");
            (s.into_bytes(), "nesting")
        }
        1 => {
            let mut s = String::from("<?xml version=\"1.0\"?><!DOCTYPE r [<!ENTITY a \"aaaaaaaaaa\">");
            for i in 0..12 {
                let prev = if i == 0 { "a".to_owned() } else { format!("e{}", i - 1) };
                s.push_str(&format!("<!ENTITY e{} \"&{};&{};&{};&{};&{};&{};&{};&{};\">", i, prev, prev, prev, prev, prev, prev, prev, prev));
            }
            s.push_str("]><roblox version=\"4\"><Item class=\"Folder\" referent=\"R\"><Properties><string name=\"Name\">&e11;</string></Properties></Item></roblox>");
            (s.into_bytes(), "entity-bomb")
        }
        2 => {
            let big = "9".repeat(*r.pick(&[40usize, 400, 5000]));
            let s = format!("<roblox version=\"4\"><Item class=\"IntValue\" referent=\"R\"><Properties><int name=\"Zz\">{}</int><float name=\"F\">{}</float><int64 name=\"Value\">-{}</int64><token name=\"T\">{}</token></Properties></Item></roblox>", big, big, big, big);
            (s.into_bytes(), "huge-number")
        }
        3 => {
            let n = *r.pick(&[1usize << 16, 1 << 20, 10 << 20]);
            let s = format!("<roblox version=\"4\"><Item class=\"Folder\" referent=\"{}\"><Properties></Properties></Item></roblox>", "x".repeat(n));
            (s.into_bytes(), "huge-attribute")
        }
        4 => {
            let mut b = b"<roblox version=\"4\"><Item class=\"Folder\" referent=\"R\"><Properties><string name=\"Name\">".to_vec();
            b.extend_from_slice(&[0xff, 0xfe, 0xc3, 0x28, 0x80]);
            b.extend_from_slice(b"</string></Properties></Item></roblox>");
            (b, "invalid-utf8")
        }
        _ => {
            let n = *r.pick(&[10usize, 1000, 100000]);
            let mut s = String::from("<roblox version=\"4\"><Item class=\"Folder\" referent=\"R\"><Properties>");
            for i in 0..n {
                s.push_str(&format!("<Ref name=\"p{}\">R</Ref><SharedString name=\"s{}\">missing</SharedString>", i, i));
            }
            s.push_str("</Properties></Item></roblox>");
            (s.into_bytes(), "many-rewrites")
        }
    }
}

// ---------------------------------------------------------------- worker process

pub struct SlowReader<'a> {
    pub data: &'a [u8],
    pub pos: usize,
    pub mode: u8,
    pub rng: Rng,
    pub calls: u64,
}
impl<'a> Read for SlowReader<'a> {
    fn read(&mut self, buf: &mut [u8]) -> std::io::Result<usize> {
        self.calls += 1;
        // interruption schedules: every third call (starting with the third, or with the very first), or every other call
        let interrupt = match self.mode {
            2 => self.calls % 3 == 0,
            3 => self.calls % 3 == 1,
            4 => self.calls % 2 == 1,
            _ => false,
        };
        if interrupt {
            return Err(std::io::Error::new(std::io::ErrorKind::Interrupted, "interrupted"));
        }
        if buf.is_empty() || self.pos >= self.data.len() {
            return Ok(0);
        }
        let max = match self.mode {
            0 => 1,
            2 | 3 | 4 => 1 + self.rng.below(3),
            _ => 1 + self.rng.below(17),
        };
        let n = max.min(buf.len()).min(self.data.len() - self.pos);
        buf[..n].copy_from_slice(&self.data[self.pos..self.pos + n]);
        self.pos += n;
        Ok(n)
    }
}

struct FailingSink {
    written: Vec<u8>,
    fail_at: usize,
    kind: u8,
    interrupted_once: bool,
}
impl Write for FailingSink {
    fn write(&mut self, buf: &[u8]) -> std::io::Result<usize> {
        if self.kind == 2 {
            // retryable: every other call is interrupted, and writes are short
            if !self.interrupted_once {
                self.interrupted_once = true;
                return Err(std::io::Error::new(std::io::ErrorKind::Interrupted, "interrupted"));
            }
            self.interrupted_once = false;
            let n = buf.len().min(1 + self.fail_at % 7);
            self.written.extend_from_slice(&buf[..n]);
            return Ok(n);
        }
        let room = self.fail_at.saturating_sub(self.written.len());
        if room == 0 && !buf.is_empty() {
            return match self.kind {
                0 => Err(std::io::Error::new(std::io::ErrorKind::Other, "sink failed")),
                _ => Ok(0),
            };
        }
        let n = buf.len().min(room);
        self.written.extend_from_slice(&buf[..n]);
        Ok(n)
    }
    fn flush(&mut self) -> std::io::Result<()> {
        Ok(())
    }
}

fn thread_cpu_us() -> u64 {
    let mut ts = libc::timespec { tv_sec: 0, tv_nsec: 0 };
    unsafe {
        libc::clock_gettime(libc::CLOCK_THREAD_CPUTIME_ID, &mut ts);
    }
    ts.tv_sec as u64 * 1_000_000 + ts.tv_nsec as u64 / 1000
}

/// Digest of a decoded DOM for "same bytes, same result" comparisons. The value of the `UniqueId` property is left
/// out: when a (mutated) file repeats an id, WeakDom replaces the later one with `UniqueId::now()` (C12), which is
/// different on every decode by design.
fn stable_digest(d: &rbx_dom_weak::WeakDom) -> String {
    let mut dump = canon::dump_decoded(d);
    canon::mask_unique_id(&mut dump);
    format!("{:016x}", canon::digest(&dump))
}

fn decode_any<R: Read>(decoder: &str, r: R) -> Result<String, String> {
    match decoder {
        "bin" => rbx_binary::from_reader(r).map(|d| stable_digest(&d)).map_err(|e| e.to_string()),
        "xml" => rbx_xml::from_reader(r, crate::rt::xml_options(XmlMode::Unknown).1).map(|d| stable_digest(&d)).map_err(|e| e.to_string()),
        // the other decode behaviours (each has its own path for a property the database does not know, or knows but never serializes)
        "xml-strict" => rbx_xml::from_reader(r, rbx_xml::DecodeOptions::new().property_behavior(rbx_xml::DecodePropertyBehavior::ErrorOnUnknown)).map(|d| stable_digest(&d)).map_err(|e| e.to_string()),
        "xml-default" => rbx_xml::from_reader(r, rbx_xml::DecodeOptions::new()).map(|d| stable_digest(&d)).map_err(|e| e.to_string()),
        "xml-noreflect" => rbx_xml::from_reader(r, crate::rt::xml_options(XmlMode::NoReflection).1).map(|d| stable_digest(&d)).map_err(|e| e.to_string()),
        _ => rbx_dom_weak::types::Attributes::from_reader(r)
            .map(|a| format!("{:016x}", canon::digest(&canon::attributes(&a, &|_| J::Null))))
            .map_err(|e| e.to_string()),
    }
}

fn child_case(line: &str) -> J {
    let parts: Vec<&str> = line.trim().split(' ').collect();
    alloc_mon::reset_case();
    let t0 = thread_cpu_us();
    let res: Result<Result<String, String>, crate::report::PanicInfo> = match parts[0] {
        "D" => {
            let data = canon::unhex(parts.get(2).copied().unwrap_or(""));
            let dec = parts[1].to_owned();
            catch(move || decode_any(&dec, &data[..]))
        }
        "P" => {
            let data = canon::unhex(parts.get(3).copied().unwrap_or(""));
            let dec = parts[1].to_owned();
            let mode: u8 = parts[2].parse().unwrap_or(0);
            catch(move || {
                let r = SlowReader { data: &data, pos: 0, mode, rng: Rng::new(data.len() as u64), calls: 0 };
                decode_any(&dec, r)
            })
        }
        "S" => {
            // S <kind> <seed> <index> <fail_at> <errkind>
            let kind = parts[1].to_owned();
            let seed: u64 = parts[2].parse().unwrap();
            let index: u64 = parts[3].parse().unwrap();
            let fail_at: usize = parts[4].parse().unwrap();
            let ek: u8 = parts[5].parse().unwrap();
            catch(move || {
                let sink = FailingSink { written: vec![], fail_at, kind: ek, interrupted_once: false };
                let mut sink = sink;
                let r = match kind.as_str() {
                    "xml" => {
                        let (dom, roots) = small_dom(seed, "c13x", index, Fmt::Xml, 6);
                        rbx_xml::to_writer(&mut sink, &dom, &roots, crate::rt::xml_options(XmlMode::Unknown).0).map_err(|e| e.to_string())
                    }
                    "attr" => {
                        let mut rng = Rng::derive(seed, "c13a", index);
                        let a = crate::gen_value::VGen::binary().attributes(&mut rng, 12);
                        a.to_writer(&mut sink).map_err(|e| e.to_string())
                    }
                    k => {
                        let (dom, roots) = small_dom(seed, "c13", index, Fmt::Binary, 6);
                        let c = match k {
                            "bin-none" => CompressionType::None,
                            "bin-lz4" => CompressionType::Lz4,
                            _ => CompressionType::Zstd,
                        };
                        rbx_binary::Serializer::new().compression_type(c).serialize(&mut sink, &dom, &roots).map_err(|e| e.to_string())
                    }
                };
                r.map(|_| format!("{:016x}", crate::rng::fnv64(&sink.written)))
            })
        }
        _ => Ok(Err("bad command".into())),
    };
    let cpu = thread_cpu_us() - t0;
    let max_alloc = alloc_mon::MAX_SINGLE.load(Ordering::Relaxed);
    match res {
        Ok(Ok(d)) => json!({"o": "ok", "digest": d, "cpu_us": cpu, "max_alloc": max_alloc}),
        Ok(Err(e)) => json!({"o": "err", "e": e.chars().take(160).collect::<String>(), "cpu_us": cpu, "max_alloc": max_alloc}),
        Err(p) => json!({"o": "panic", "e": p.msg.chars().take(200).collect::<String>(), "site": format!("{}:{}", rel_file(&p.file), if p.func.is_empty() { "?".into() } else { p.func.clone() }), "line": p.line, "cpu_us": cpu, "max_alloc": max_alloc}),
    }
}

pub fn child_main() {
    alloc_mon::REFUSE_ABOVE.store(1 << 30, Ordering::Relaxed);
    let stdin = std::io::stdin();
    let mut out = std::io::stdout();
    for line in stdin.lock().lines() {
        let line = match line {
            Ok(l) => l,
            Err(_) => break,
        };
        if line.trim().is_empty() {
            continue;
        }
        // every case on its own 8 MiB stack
        let h = std::thread::Builder::new().stack_size(8 << 20).spawn(move || child_case(&line)).expect("spawn");
        let j = h.join().unwrap_or_else(|_| json!({"o": "panic", "e": "worker thread died", "site": "?"}));
        let _ = writeln!(out, "{}", j);
        let _ = out.flush();
    }
}

// ---------------------------------------------------------------- supervisor

struct Worker {
    child: Child,
    stdin: std::process::ChildStdin,
    rx: mpsc::Receiver<String>,
    profile_exe: std::path::PathBuf,
    restarts: u64,
}

impl Worker {
    fn spawn(exe: &std::path::Path) -> Worker {
        // VH_WORKER_PREFIX="valgrind -q --error-exitcode=99" runs the worker under a dynamic analysis tool
        let prefix: Vec<String> = std::env::var("VH_WORKER_PREFIX").map(|p| p.split_whitespace().map(|s| s.to_owned()).collect()).unwrap_or_default();
        let mut cmd = if prefix.is_empty() {
            Command::new(exe)
        } else {
            let mut c = Command::new(&prefix[0]);
            c.args(&prefix[1..]).arg(exe);
            c
        };
        let mut child = cmd
            .arg("c13child")
            .stdin(Stdio::piped())
            .stdout(Stdio::piped())
            .stderr(Stdio::piped())
            .spawn()
            .expect("cannot spawn worker");
        let stdin = child.stdin.take().unwrap();
        let stdout = child.stdout.take().unwrap();
        let (tx, rx) = mpsc::channel();
        std::thread::spawn(move || {
            let r = BufReader::new(stdout);
            for l in r.lines() {
                match l {
                    Ok(l) => {
                        if tx.send(l).is_err() {
                            break;
                        }
                    }
                    Err(_) => break,
                }
            }
        });
        Worker { child, stdin, rx, profile_exe: exe.to_path_buf(), restarts: 0 }
    }

    /// returns the response JSON; worker death is reported as {"o":"abort"|"signal"|"timeout"}
    fn call(&mut self, line: &str, timeout: Duration) -> J {
        if writeln!(self.stdin, "{}", line).is_err() || self.stdin.flush().is_err() {
            return self.died();
        }
        match self.rx.recv_timeout(timeout) {
            Ok(l) => serde_json::from_str(&l).unwrap_or(json!({"o": "garbled"})),
            Err(mpsc::RecvTimeoutError::Timeout) => {
                let _ = self.child.kill();
                let _ = self.child.wait();
                self.respawn();
                json!({"o": "timeout"})
            }
            Err(mpsc::RecvTimeoutError::Disconnected) => self.died(),
        }
    }

    fn died(&mut self) -> J {
        let status = self.child.wait().ok();
        let mut err = String::new();
        if let Some(mut e) = self.child.stderr.take() {
            let _ = e.read_to_string(&mut err);
        }
        // keep the informative lines (allocation monitor, runtime abort messages), then a short tail
        let mut keep: Vec<&str> = err
            .lines()
            .filter(|l| l.starts_with("OVERSIZE") || l.contains("memory allocation of") || l.contains("overflowed its stack") || l.contains("panicked at"))
            .collect();
        keep.truncate(6);
        let tail: String = format!("{}\n{}", keep.join("\n"), err.chars().rev().take(200).collect::<String>().chars().rev().collect::<String>());
        use std::os::unix::process::ExitStatusExt;
        let sig = status.and_then(|s| s.signal());
        let kind = if tail.contains("has overflowed its stack") {
            "stack-overflow"
        } else if tail.contains("memory allocation of") {
            "alloc-failure"
        } else if sig.is_some() {
            "signal"
        } else {
            "abort"
        };
        self.respawn();
        json!({"o": kind, "signal": sig, "stderr": tail})
    }

    fn respawn(&mut self) {
        let exe = self.profile_exe.clone();
        let restarts = self.restarts + 1;
        *self = Worker::spawn(&exe);
        self.restarts = restarts;
    }
}

fn oversize_site(stderr: &str) -> String {
    // "OVERSIZE <bytes> <frame>" printed by the allocation monitor hook (see main.rs)
    for l in stderr.lines() {
        if let Some(rest) = l.strip_prefix("OVERSIZE ") {
            let mut it = rest.splitn(2, ' ');
            let _n = it.next();
            return it.next().unwrap_or("?").trim().to_owned();
        }
    }
    "?".into()
}

struct Sup {
    w: Worker,
    rep: Report,
    profile: String,
    timeout_s: u64,
    /// valid files with the digest the worker reported for them before it saw anything hostile
    canaries: Vec<(&'static str, Vec<u8>, String)>,
    calls_since_canary: u64,
    confirmed_hangs: u32,
    unconfirmed_timeouts: u32,
}

impl Sup {
    /// Hostile inputs must leave nothing behind in the process (intern tables, thread-locals, caches): every 64 calls
    /// the same worker decodes three valid files again and must report the digests it reported at the start.
    fn canary(&mut self, seed: u64, last: &J) {
        let to = Duration::from_secs(self.timeout_s);
        if self.canaries.is_empty() {
            for (dec, kind) in [("bin", "bin-lz4"), ("xml", "xml"), ("attr", "attr")] {
                if let Some(d) = valid_file(seed ^ 0xca9a, 7, kind, 8) {
                    let r = self.w.call(&format!("D {} {}", dec, canon::hex(&d)), to);
                    if r["o"] == "ok" {
                        self.canaries.push((dec, d, r["digest"].as_str().unwrap_or("").to_owned()));
                    }
                }
            }
            return;
        }
        self.calls_since_canary += 1;
        if self.calls_since_canary < 64 {
            return;
        }
        self.calls_since_canary = 0;
        for (dec, d, want) in self.canaries.clone() {
            let r = self.w.call(&format!("D {} {}", dec, canon::hex(&d)), to);
            self.rep.count("canary.checks");
            if r["o"] != "ok" || r["digest"].as_str() != Some(want.as_str()) {
                self.rep.violation(
                    &format!("C13:state-left-by-hostile-input:{}", dec),
                    &format!("after hostile inputs the same worker decodes a valid {} file differently: {} (digest at start {}); last hostile outcome {}", dec, r, want, last),
                    json!({"cmd": "c13", "note": "canary: re-run the shard"}),
                    J::Null,
                );
            }
        }
    }

    /// Judge one decode outcome. `must_err`: strict prefix of a valid file.
    fn judge_decode(&mut self, decoder: &str, what: &str, input: &[u8], resp: &J, must_err: bool, replay: J) {
        let o = resp["o"].as_str().unwrap_or("?");
        self.rep.count(&format!("outcome.{}.{}", decoder, o));
        let p = &self.profile;
        match o {
            "ok" => {
                if must_err {
                    self.rep.violation(
                        &format!("C13:truncation-accepted:{}", decoder),
                        &format!("{} decoder accepted a strict prefix ({} bytes) of a valid file", decoder, input.len()),
                        replay.clone(),
                        J::Null,
                    );
                }
            }
            "err" => {
                let e = resp["e"].as_str().unwrap_or("");
                let mut key: String = e.to_owned();
                if key.starts_with("line ") {
                    if let Some(i) = key.find(": ") {
                        key = key[i + 2..].to_owned();
                    }
                }
                let key: String = key.split(|c: char| c == ':' || c == '`' || c.is_ascii_digit()).next().unwrap_or("").trim().chars().take(40).collect();
                self.rep.count(&format!("error_variant.{}.{}", decoder, key));
            }
            "panic" => {
                self.rep.violation(
                    &format!("C13:panic:{}:{}", decoder, resp["site"].as_str().unwrap_or("?")),
                    &format!("{} decoder panicked on {} ({} bytes, {} build): {} (line {})", decoder, what, input.len(), p, resp["e"].as_str().unwrap_or(""), resp["line"]),
                    replay.clone(),
                    J::Null,
                );
            }
            "stack-overflow" => {
                self.rep.violation(
                    &format!("C13:stack-overflow:{}", decoder),
                    &format!("{} decoder overflowed an 8 MiB stack on {} ({} bytes)", decoder, what, input.len()),
                    replay.clone(),
                    json!({"stderr": resp["stderr"]}),
                );
            }
            "alloc-failure" => {
                let site = oversize_site(resp["stderr"].as_str().unwrap_or(""));
                self.rep.violation(
                    &format!("C13:oversized-allocation:{}:{}", decoder, site),
                    &format!("{} decoder requested more than 1 GiB in one allocation for a {}-byte input ({})", decoder, input.len(), what),
                    replay.clone(),
                    json!({"stderr": resp["stderr"]}),
                );
            }
            "timeout" if self.confirmed_hangs >= 3 => {
                // three hangs of this run are confirmed and reported already: a tree that hangs on one input usually hangs
                // on hundreds of its neighbours, and confirming each would take hours. Counted, not re-run.
                self.rep.count("timeouts.after-three-confirmed-hangs");
                self.unconfirmed_timeouts += 1;
            }
            "timeout" => {
                // wall-clock is never a verdict on its own: re-run the case alone with three times the budget
                self.rep.count("timeouts.first");
                let again = self.w.call(&format!("D {} {}", decoder, canon::hex(input)), Duration::from_secs(3 * self.timeout_s));
                if again["o"] == "timeout" {
                    self.confirmed_hangs += 1;
                    self.rep.violation(
                        &format!("C13:hang:{}", decoder),
                        &format!("{} decoder made no progress for {} s (and again for {} s when re-run alone) on {} ({} bytes)", decoder, self.timeout_s, 3 * self.timeout_s, what, input.len()),
                        replay.clone(),
                        J::Null,
                    );
                } else {
                    self.rep.count("timeouts.not_reproduced");
                }
            }
            other => {
                self.rep.violation(
                    &format!("C13:{}:{}", other, decoder),
                    &format!("{} decoder worker died ({}) on {} ({} bytes): {}", decoder, other, what, input.len(), resp["stderr"].as_str().unwrap_or("").chars().take(300).collect::<String>()),
                    replay.clone(),
                    J::Null,
                );
            }
        }
        if let Some(ma) = resp["max_alloc"].as_u64() {
            let bound = (16u64 << 20).max(1024 * input.len() as u64);
            if ma > bound {
                self.rep.violation(
                    &format!("C13:allocation-unrelated-to-input:{}", decoder),
                    &format!("{} decoder requested {} bytes in one allocation for a {}-byte input ({})", decoder, ma, input.len(), what),
                    replay,
                    J::Null,
                );
            }
        }
    }
}

pub fn main(a: &Args) {
    let seed = a.u64("seed", 1);
    let shard = a.u64("shard", 0);
    let nshards = a.u64("nshards", 1);
    let out = a.str("out", "/dev/stdout");
    let mode = a.str("mode", "mutate");
    let exe = match a.kv.get("worker") {
        Some(p) => std::path::PathBuf::from(p),
        None => std::env::current_exe().unwrap(),
    };
    let profile = a.str("profile-name", "release");
    let mut sup = Sup { w: Worker::spawn(&exe), rep: Report::new("C13"), profile, timeout_s: a.u64("timeout", 30), canaries: vec![], calls_since_canary: 0, confirmed_hangs: 0, unconfirmed_timeouts: 0 };
    let to = Duration::from_secs(a.u64("timeout", 30));
    const KINDS: &[&str] = &["bin-none", "bin-none", "bin-lz4", "bin-zstd", "xml", "xml", "attr"];
    match mode.as_str() {
        "replay" => {
            let dec = a.str("decoder", "bin");
            let data = canon::unhex(&a.str("input_hex", ""));
            let resp = sup.w.call(&format!("D {} {}", dec, canon::hex(&data)), to);
            eprintln!("{}", resp);
            sup.rep.evaluations = 1;
            sup.judge_decode(&dec, "replayed input", &data, &resp, a.flag("must-err"), J::Null);
        }
        "corpus" => {
            // structure-aware hostile files produced by lib/monitors/c13.py
            let f = BufReader::new(std::fs::File::open(a.str("in", "/dev/stdin")).expect("corpus"));
            for (n, line) in f.lines().enumerate() {
                if sup.unconfirmed_timeouts >= 5 {
                    sup.rep.notes.push("stopped early: three hangs confirmed and reported, five more inputs timed out".into());
                    break;
                }
                let line = line.unwrap();
                if line.trim().is_empty() || (n as u64) % nshards != shard {
                    continue;
                }
                let rec: J = serde_json::from_str(&line).unwrap();
                let label = rec["label"].as_str().unwrap_or("?").to_owned();
                let dec = rec["dec"].as_str().unwrap_or("bin").to_owned();
                let data = canon::unhex(rec["hex"].as_str().unwrap_or(""));
                sup.rep.evaluations += 1;
                sup.rep.count(&format!("structured.{}", label.split("-len").next().unwrap_or(&label).trim_end_matches(|c: char| c.is_ascii_digit()).trim_end_matches('-')));
                sup.rep.nontrivial(crate::rng::fnv64(&data));
                sup.rep.sample(json!({"label": label, "bytes": data.len()}));
                let replay = json!({"cmd": "c13", "mode": "replay", "decoder": dec, "input_hex": canon::hex(&data[..data.len().min(1 << 20)]), "how": label});
                let resp = sup.w.call(&format!("D {} {}", dec, canon::hex(&data)), to);
                let lab_class: String = label.split("-len").next().unwrap_or(&label).trim_end_matches(|c: char| c.is_ascii_digit()).trim_end_matches('-').to_owned();
                sup.rep.count(&format!("structured-outcome.{}.{}", lab_class, resp["o"].as_str().unwrap_or("?")));
                sup.judge_decode(&dec, &format!("structured:{}", label), &data, &resp, false, replay);
            }
        }
        "mutate" => {
            let count = a.u64("count", 1000);
            let mut i = shard;
            while i < count {
                if sup.unconfirmed_timeouts >= 5 {
                    sup.rep.notes.push("stopped early: three hangs confirmed and reported, five more inputs timed out".into());
                    break;
                }
                let mut r = Rng::derive(seed, "c13-mut", i);
                let kind = *r.pick(KINDS);
                let dec = decoder_of(kind);
                let (data, how): (Vec<u8>, String) = match r.below(12) {
                    0 => {
                        let n = r.below(200);
                        (r.bytes(n), "random-bytes".into())
                    }
                    1 => {
                        let mut d = b"<roblox!\x89\xff\x0d\x0a\x1a\x0a\0\0".to_vec();
                        let n = 16 + r.below(120);
                        d.extend(r.bytes(n));
                        if r.chance(1, 2) {
                            for x in d[24..32].iter_mut() {
                                *x = 0;
                            }
                        }
                        (d, "random-after-valid-magic".into())
                    }
                    2 if dec == "xml" => {
                        let (d, h) = xml_bomb(&mut r);
                        (d, format!("xml-{}", h))
                    }
                    _ => {
                        let base_i = r.below(400) as u64;
                        let mut d = match valid_file(seed, base_i, kind, 6) {
                            Some(d) => d,
                            None => {
                                i += nshards;
                                continue;
                            }
                        };
                        let other = valid_file(seed, base_i + 1, kind, 6).unwrap_or_default();
                        let n = 1 + r.below(3);
                        let mut hows = vec![];
                        for _ in 0..n {
                            let h = if kind == "bin-none" && r.chance(1, 2) {
                                mutate_structured(&mut r, &mut d)
                            } else if dec == "xml" && r.chance(1, 2) {
                                mutate_xml_text(&mut r, &mut d)
                            } else {
                                mutate(&mut r, &mut d, &other)
                            };
                            hows.push(h);
                        }
                        (d, format!("{}:{}", kind, hows.join("+")))
                    }
                };
                sup.rep.evaluations += 1;
                sup.rep.count(&format!("mutation.{}", how.split(':').last().unwrap_or("").split('+').next().unwrap_or("")));
                sup.rep.nontrivial(crate::rng::fnv64(&data));
                sup.rep.sample(json!({"index": i, "decoder": dec, "how": how, "bytes": data.len()}));
                let replay = json!({"cmd": "c13", "mode": "replay", "decoder": dec, "input_hex": canon::hex(&data[..data.len().min(1 << 20)]), "how": how, "seed": seed, "index": i});
                if sup.canaries.is_empty() {
                    sup.canary(seed, &J::Null);
                }
                let resp = sup.w.call(&format!("D {} {}", dec, canon::hex(&data)), to);
                sup.judge_decode(dec, &how, &data, &resp, false, replay.clone());
                sup.canary(seed, &resp);
                // read partition: the same bytes through hostile readers must give the same result
                if i % 4 == 0 && data.len() <= 4096 && matches!(resp["o"].as_str(), Some("ok") | Some("err")) {
                    for m in 0..5u8 {
                        let r2 = sup.w.call(&format!("P {} {} {}", dec, m, canon::hex(&data)), to);
                        sup.rep.evaluations += 1;
                        sup.rep.count(&format!("partition.mode{}", m));
                        let same = r2["o"] == resp["o"] && (resp["o"] != "ok" || r2["digest"] == resp["digest"]);
                        if !same {
                            sup.rep.violation(
                                &format!("C13:read-partition:{}:mode{}", dec, m),
                                &format!("{} decoder: result depends on how the reader delivers bytes (contiguous {} / partitioned {})", dec, resp, r2),
                                replay.clone(),
                                J::Null,
                            );
                        }
                    }
                }
                i += nshards;
            }
        }
        "truncate" => {
            let files = a.u64("files", 10);
            // degenerate but valid files first: no instance at all (binary: header counts 0 / 0 and only an END chunk; XML: an
            // empty <roblox> element), an instance without properties, a lone service. Their prefixes must be rejected too.
            if shard == 0 {
                let empty = rbx_dom_weak::WeakDom::new(rbx_dom_weak::InstanceBuilder::new("DataModel"));
                let one = rbx_dom_weak::WeakDom::new(rbx_dom_weak::InstanceBuilder::new("DataModel").with_child(rbx_dom_weak::InstanceBuilder::new("Workspace")));
                let mut degenerate: Vec<(&str, &str, Vec<u8>)> = vec![];
                for (label, dom) in [("no-instances", &empty), ("one-bare-service", &one)] {
                    let roots = dom.root().children().to_vec();
                    for c in [CompressionType::None, CompressionType::Lz4, CompressionType::Zstd] {
                        if let Ok(b) = crate::rt::write_binary(dom, &roots, c) {
                            degenerate.push((label, "bin", b));
                        }
                    }
                    if let Ok(x) = crate::rt::write_xml(dom, &roots, XmlMode::Unknown) {
                        degenerate.push((label, "xml", x));
                    }
                }
                for (label, dec, d) in degenerate {
                    let full = sup.w.call(&format!("D {} {}", dec, canon::hex(&d)), to);
                    if full["o"] != "ok" {
                        sup.rep.notes.push(format!("degenerate file {} ({}) does not decode: {}", label, dec, full));
                        continue;
                    }
                    for k in 0..d.len() {
                        let resp = sup.w.call(&format!("D {} {}", dec, canon::hex(&d[..k])), to);
                        sup.rep.evaluations += 1;
                        sup.rep.count(&format!("truncation.degenerate.{}.{}", label, dec));
                        let replay = json!({"cmd": "c13", "mode": "replay", "decoder": dec, "input_hex": canon::hex(&d[..k]), "must-err": "1", "cut_at": k, "of": d.len()});
                        sup.judge_decode(dec, &format!("{} {} cut at {}/{}", dec, label, k, d.len()), &d[..k], &resp, true, replay);
                    }
                    if dec == "bin" && d.len() > 40 {
                        // the header followed by something that is not a chunk sequence ending in END
                        let mut g = d[..32].to_vec();
                        g.extend_from_slice(b"not a chunk at all, and certainly no END");
                        let resp = sup.w.call(&format!("D bin {}", canon::hex(&g)), to);
                        sup.rep.evaluations += 1;
                        let replay = json!({"cmd": "c13", "mode": "replay", "decoder": "bin", "input_hex": canon::hex(&g), "must-err": "1"});
                        sup.judge_decode("bin", &format!("header of a {} file followed by garbage", label), &g, &resp, true, replay);
                    }
                    sup.rep.nontrivial(crate::rng::fnv64(&d));
                }
            }
            let mut i = shard;
            while i < files {
                if sup.unconfirmed_timeouts >= 5 {
                    sup.rep.notes.push("stopped early: three hangs confirmed and reported, five more inputs timed out".into());
                    break;
                }
                let kind = KINDS[(i as usize) % KINDS.len()];
                let dec = decoder_of(kind);
                if let Some(d) = valid_file(seed, 1000 + i, kind, 4) {
                    if d.len() <= a.usize("maxlen", 6000) && dec != "attr" {
                        // the whole file must decode
                        let full = sup.w.call(&format!("D {} {}", dec, canon::hex(&d)), to);
                        if full["o"] != "ok" {
                            sup.rep.notes.push(format!("base file {} ({}) does not decode: {}", i, kind, full));
                        } else {
                            for k in 0..d.len() {
                                let resp = sup.w.call(&format!("D {} {}", dec, canon::hex(&d[..k])), to);
                                sup.rep.evaluations += 1;
                                sup.rep.count(&format!("truncation.{}", kind));
                                let replay = json!({"cmd": "c13", "mode": "replay", "decoder": dec, "input_hex": canon::hex(&d[..k]), "must-err": "1", "cut_at": k, "of": d.len()});
                                sup.judge_decode(dec, &format!("{} cut at {}/{}", kind, k, d.len()), &d[..k], &resp, true, replay);
                            }
                            sup.rep.nontrivial(crate::rng::fnv64(&d));
                            sup.rep.sample(json!({"file": i, "kind": kind, "bytes": d.len(), "prefixes_tried": d.len()}));
                        }
                    }
                }
                i += nshards;
            }
        }
        "sink" => {
            let files = a.u64("files", 6);
            let mut i = shard;
            const SK: &[&str] = &["bin-none", "bin-lz4", "bin-zstd", "xml", "attr"];
            while i < files {
                if sup.unconfirmed_timeouts >= 5 {
                    sup.rep.notes.push("stopped early: three hangs confirmed and reported, five more inputs timed out".into());
                    break;
                }
                let kind = SK[(i as usize) % SK.len()];
                let index = 1000 + i;
                let full = match valid_file_for_sink(seed, index, kind) {
                    Some(f) => f,
                    None => {
                        i += nshards;
                        continue;
                    }
                };
                if full.len() > a.usize("maxlen", 4000) {
                    i += nshards;
                    continue;
                }
                let want = format!("{:016x}", crate::rng::fnv64(&full));
                for k in 0..=full.len() {
                    for ek in 0..3u8 {
                        if ek == 2 && k % 16 != 0 {
                            continue;
                        }
                        let resp = sup.w.call(&format!("S {} {} {} {} {}", kind, seed, index, k, ek), to);
                        sup.rep.evaluations += 1;
                        sup.rep.count(&format!("sink.{}.kind{}", kind, ek));
                        let o = resp["o"].as_str().unwrap_or("?");
                        let replay = json!({"cmd": "c13", "mode": "sink-replay", "kind": kind, "seed": seed, "index": index, "fail_at": k, "errkind": ek});
                        let bad = match (ek, o) {
                            (2, "ok") => resp["digest"].as_str() != Some(&want),
                            (2, "err") => true,
                            (_, "err") => false,
                            (_, "ok") => k < full.len(),
                            _ => true,
                        };
                        if bad {
                            let sig = match o {
                                "panic" => format!("C13:sink-panic:{}:{}", decoder_of(kind), resp["site"].as_str().unwrap_or("?")),
                                "ok" if ek == 2 => format!("C13:sink-retry-output-differs:{}", decoder_of(kind)),
                                "ok" => format!("C13:sink-error-swallowed:{}", decoder_of(kind)),
                                "err" => format!("C13:sink-interrupted-not-retried:{}", decoder_of(kind)),
                                other => format!("C13:sink-{}:{}", other, decoder_of(kind)),
                            };
                            sup.rep.violation(
                                &sig,
                                &format!("{} writer with a sink failing at byte {}/{} (kind {}): {}", kind, k, full.len(), ek, resp),
                                replay,
                                J::Null,
                            );
                        }
                    }
                }
                sup.rep.nontrivial(crate::rng::fnv64(&full));
                sup.rep.sample(json!({"file": i, "kind": kind, "output_bytes": full.len(), "failure_points": full.len() + 1}));
                i += nshards;
            }
        }
        _ => {}
    }
    sup.rep.add("worker.restarts", sup.w.restarts);
    if std::env::var("VH_WORKER_PREFIX").is_ok() {
        // let the tool finish and collect its report
        let Worker { mut child, stdin, .. } = sup.w;
        drop(stdin);
        let status = child.wait().ok();
        let mut err = String::new();
        if let Some(mut e) = child.stderr.take() {
            let _ = e.read_to_string(&mut err);
        }
        let reports: Vec<&str> = err.lines().filter(|l| l.contains("Invalid ") || l.contains("uninitialised") || l.contains("Mismatched free") || l.contains("overlap")).collect();
        sup.rep.add("tool.report_lines", reports.len() as u64);
        if !reports.is_empty() || status.and_then(|s| s.code()) == Some(99) {
            let first: String = reports.first().map(|l| l.split("== ").last().unwrap_or(l).chars().take(80).collect()).unwrap_or("exit 99".into());
            sup.rep.violation(
                &format!("C13:valgrind:{}", first),
                &format!("memcheck reported while decoding hostile input: {}", err.chars().take(1500).collect::<String>()),
                json!({"cmd": "c13", "mode": mode, "seed": seed, "tool": "valgrind"}),
                J::Null,
            );
        }
        sup.rep.finish(&out);
        return;
    }
    let _ = sup.w.child.kill();
    sup.rep.finish(&out);
}

fn valid_file_for_sink(seed: u64, index: u64, kind: &str) -> Option<Vec<u8>> {
    match kind {
        "xml" => {
            let (dom, roots) = small_dom(seed, "c13x", index, Fmt::Xml, 6);
            crate::rt::write_xml(&dom, &roots, XmlMode::Unknown).ok()
        }
        "attr" => valid_file(seed, index, "attr", 6),
        k => {
            let (dom, roots) = small_dom(seed, "c13", index, Fmt::Binary, 6);
            let c = match k {
                "bin-none" => CompressionType::None,
                "bin-lz4" => CompressionType::Lz4,
                _ => CompressionType::Zstd,
            };
            crate::rt::write_binary(&dom, &roots, c).ok()
        }
    }
}
