//! C06: binary and XML encodings of one database-only DOM decode to equivalent DOMs, and
//! converting between the formats loses nothing the first read produced.

use std::collections::{BTreeMap, BTreeSet};

use crate::canon;
use crate::dbwalk;
use crate::expect::{self, XmlMode};
use crate::gen_dom::{settable_props, type_ok, DomGen, Fmt};
use crate::gen_value::VGen;
use crate::report::{catch, panic_sig, Report};
use crate::rng::Rng;
use crate::spec::{self, BuildMode, RefT, TreeSpec, PV};
use crate::Args;
use rbx_dom_weak::types::*;
use serde_json::{json, Value as J};

/// values both formats can carry identically: near-basis rotations are replaced by the exact
/// basis (binary snaps them by design, XML does not), object Content is left to C02's finding.
fn both_ok(pv: PV) -> Option<PV> {
    let fix = |c: &CFrame| -> CFrame { expect::snap_cframe(c) };
    Some(match pv {
        PV::ContentObj(_) => return None,
        PV::V(Variant::CFrame(c)) => PV::V(Variant::CFrame(fix(&c))),
        PV::V(Variant::OptionalCFrame(Some(c))) => PV::V(Variant::OptionalCFrame(Some(fix(&c)))),
        other => other,
    })
}

fn types_ok(ty: VariantType) -> bool {
    type_ok(Fmt::Binary, ty) && type_ok(Fmt::Xml, ty)
}

fn run_spec(rep: &mut Report, spec: &TreeSpec, replay: J, label: &str) {
    let sel: Vec<usize> = spec.nodes[0].children.clone();
    let mut rng = Rng::new(3);
    let built = spec::build(spec, BuildMode::Nested, &mut rng);
    let roots: Vec<Ref> = sel.iter().map(|i| built.refs[*i]).collect();
    rep.evaluations += 1;
    let res = catch(|| -> Result<(J, J, J, J), String> {
        let bb = crate::rt::write_binary(&built.dom, &roots, rbx_binary::CompressionType::Lz4).map_err(|e| format!("write_bin: {}", e))?;
        let xb = crate::rt::write_xml(&built.dom, &roots, XmlMode::Default).map_err(|e| format!("write_xml: {}", e))?;
        let b = rbx_binary::from_reader(&bb[..]).map_err(|e| format!("read_bin: {}", e))?;
        let x = rbx_xml::from_reader_default(&xb[..]).map_err(|e| format!("read_xml: {}", e))?;
        // conversion chains
        let br: Vec<Ref> = b.root().children().to_vec();
        let xr: Vec<Ref> = x.root().children().to_vec();
        let b2x = crate::rt::write_xml(&b, &br, XmlMode::Default).map_err(|e| format!("bin->xml write: {}", e))?;
        let x2b = crate::rt::write_binary(&x, &xr, rbx_binary::CompressionType::None).map_err(|e| format!("xml->bin write: {}", e))?;
        let bx = rbx_xml::from_reader_default(&b2x[..]).map_err(|e| format!("bin->xml read: {}", e))?;
        let xbk = rbx_binary::from_reader(&x2b[..]).map_err(|e| format!("xml->bin read: {}", e))?;
        Ok(canon::with_nan_class(true, || (canon::dump_decoded(&b), canon::dump_decoded(&x), canon::dump_decoded(&bx), canon::dump_decoded(&xbk))))
    });
    let (b, x, bx, xb) = match res {
        Err(p) => {
            rep.violation(&format!("C06:{}", panic_sig(&p)), &format!("{}: {}", label, p.msg), replay, J::Null);
            return;
        }
        Ok(Err(e)) => {
            let ec: String = e.split(':').take(2).collect::<Vec<_>>().join(":").chars().filter(|c| !c.is_ascii_digit()).take(60).collect();
            rep.violation(&format!("C06:error:{}", ec), &format!("{}: {}", label, e), replay, J::Null);
            return;
        }
        Ok(Ok(t)) => t,
    };
    // names under which the explicitly set properties are expected (independent database walk)
    let db = dbwalk::db();
    fn walk<'a>(spec: &'a TreeSpec, n: usize, out: &mut Vec<&'a crate::spec::NodeSpec>) {
        out.push(&spec.nodes[n]);
        for c in &spec.nodes[n].children {
            walk(spec, *c, out);
        }
    }
    fn flat<'a>(d: &'a J, out: &mut Vec<&'a J>) {
        for r in d["roots"].as_array().into_iter().flatten() {
            fn go<'a>(n: &'a J, out: &mut Vec<&'a J>) {
                out.push(n);
                for c in n["children"].as_array().into_iter().flatten() {
                    go(c, out);
                }
            }
            go(r, out);
        }
    }
    let mut specs = vec![];
    for r in &sel {
        walk(spec, *r, &mut specs);
    }
    let (mut fb, mut fx, mut fbx, mut fxb) = (vec![], vec![], vec![], vec![]);
    flat(&b, &mut fb);
    flat(&x, &mut fx);
    flat(&bx, &mut fbx);
    flat(&xb, &mut fxb);
    if fb.len() != specs.len() || fx.len() != specs.len() {
        rep.violation("C06:shape", &format!("{}: {} instances written, binary read {} / xml read {}", label, specs.len(), fb.len(), fx.len()), replay, J::Null);
        return;
    }
    for (i, ns) in specs.iter().enumerate() {
        let (nb, nx) = (fb[i], fx[i]);
        if nb["class"] != nx["class"] || nb["name"] != nx["name"] || nb["children"].as_array().map(|a| a.len()) != nx["children"].as_array().map(|a| a.len()) {
            rep.violation("C06:shape", &format!("{}: instance {} differs in class/name/child count between the formats", label, i), replay.clone(), J::Null);
            return;
        }
        for (k, _) in &ns.props {
            let back = match dbwalk::travel(db, &ns.class, k) {
                Some(t) => t.back_name,
                None => continue,
            };
            rep.count("properties_compared");
            let (vb, vx) = (nb["props"].get(&back), nx["props"].get(&back));
            match (vb, vx) {
                (Some(a), Some(c)) if a == c => {}
                _ => {
                    let t = vb.or(vx).map(|v| v["t"].as_str().unwrap_or("?").to_owned()).unwrap_or("absent".into());
                    // database quirk: two canonical descriptors share one wire name and instances of the class use both
                    let mut canon_by_wire: BTreeMap<String, BTreeSet<String>> = BTreeMap::new();
                    for other in specs.iter().filter(|o| o.class == ns.class) {
                        for (ok, _) in &other.props {
                            if let Some(tr) = dbwalk::travel(db, &other.class, ok) {
                                if tr.back_name == back {
                                    canon_by_wire.entry(tr.wire_name.clone()).or_default().insert(tr.resolved.canonical.name.to_string());
                                }
                            }
                        }
                    }
                    if let Some((w, _)) = canon_by_wire.iter().find(|(_, c)| c.len() > 1) {
                        rep.violation(
                            &format!("C06:shared-wire-name:{}.{}", ns.class, w),
                            &format!("{}: {}.{}: binary gives {}, xml gives {}", label, ns.class, back, vb.map(|v| v.to_string()).unwrap_or("<absent>".into()), vx.map(|v| v.to_string()).unwrap_or("<absent>".into())),
                            replay.clone(),
                            J::Null,
                        );
                        continue;
                    }
                    rep.violation(
                        &format!("C06:formats-disagree:{}", t),
                        &format!("{}: {}.{} (set as {}): binary gives {}, xml gives {}", label, ns.class, back, k, vb.map(|v| v.to_string()).unwrap_or("<absent>".into()), vx.map(|v| v.to_string()).unwrap_or("<absent>".into())),
                        replay.clone(),
                        J::Null,
                    );
                }
            }
        }
        // conversion loses nothing the first read produced
        if fbx.len() == fb.len() && fxb.len() == fx.len() {
            for (first, conv, dir) in [(nb, fbx[i], "binary->xml"), (nx, fxb[i], "xml->binary")] {
                for (k, v) in first["props"].as_object().unwrap() {
                    match conv["props"].get(k) {
                        Some(c) if c == v => {}
                        other => {
                            // binary fills defaults for gaps; XML has no such notion. Only what the first read produced counts.
                            rep.violation(
                                &format!("C06:conversion-loses:{}:{}", dir, v["t"].as_str().unwrap_or("?")),
                                &format!("{}: converting {} changes {}.{} from {} to {}", label, dir, ns.class, k, v, other.map(|x| x.to_string()).unwrap_or("<absent>".into())),
                                replay.clone(),
                                J::Null,
                            );
                        }
                    }
                }
            }
        } else {
            rep.violation("C06:conversion-shape", &format!("{}: instance count changes through conversion", label), replay.clone(), J::Null);
            return;
        }
    }
}

fn descriptor_sweep(rep: &mut Report, seed: u64, shard: u64, nshards: u64, values: usize) {
    let db = dbwalk::db();
    // subclass map
    let mut subs: BTreeMap<&str, Vec<&str>> = BTreeMap::new();
    for cn in dbwalk::sorted_class_names(db) {
        for anc in dbwalk::class_chain(db, cn).iter().skip(1) {
            subs.entry(anc.name.as_ref()).or_default().push(cn);
        }
    }
    let g = VGen::xml();
    let mut covered = 0u64;
    let mut skipped: BTreeMap<String, u64> = BTreeMap::new();
    for (ci, cname) in dbwalk::sorted_class_names(db).into_iter().enumerate() {
        if ci as u64 % nshards != shard {
            continue;
        }
        let c = &db.classes[cname];
        let mut pnames: Vec<&str> = c.properties.keys().map(|k| k.as_ref()).collect();
        pnames.sort();
        for pn in pnames {
            let d = &c.properties[pn];
            let reason = if pn == "Name" {
                Some("Name lives in Instance::name")
            } else {
                match dbwalk::resolve(db, cname, pn) {
                    None => Some("unresolvable"),
                    Some(r) => match r.ser {
                        dbwalk::Ser::No => Some("does not serialize"),
                        dbwalk::Ser::Migrate(_) => Some("migrates (C15)"),
                        dbwalk::Ser::Unknown => Some("unknown serialization"),
                        dbwalk::Ser::As(_) => None,
                    },
                }
            };
            let ty = dbwalk::vtype(d);
            let reason = reason.or_else(|| match (ty, dbwalk::travel(db, cname, pn)) {
                (Some(t), Some(tr)) if types_ok(t) && types_ok(tr.wire_ty) => {
                    if t != tr.declared_ty && !(t == VariantType::Color3uint8 && tr.declared_ty == VariantType::Color3) {
                        Some("alias with a blob type (converted on load by design)")
                    } else if tr.back_name == "Name" {
                        Some("travels as Name")
                    } else {
                        None
                    }
                }
                _ => Some("type not implemented by both formats"),
            });
            if let Some(why) = reason {
                *skipped.entry(why.to_owned()).or_default() += 1;
                continue;
            }
            covered += 1;
            let ty = ty.unwrap();
            for k in 0..values {
                let mut r = Rng::derive(seed, "c06-desc", (ci as u64) << 20 | crate::rng::fnv64(pn.as_bytes()) & 0xfffff ^ (k as u64) << 40);
                let mut spec = TreeSpec::new("DataModel");
                let mut classes = vec![cname];
                if let Some(s) = subs.get(cname) {
                    classes.push(s[r.below(s.len())]);
                }
                for cl in classes {
                    let id = spec.add(0, cl, "n");
                    let pv = match ty {
                        VariantType::Ref => PV::Ref(if r.chance(1, 2) { RefT::Null } else { RefT::Node(1) }),
                        t => PV::V(g.gen(&mut r, t).unwrap()),
                    };
                    if let Some(pv) = both_ok(pv) {
                        spec.nodes[id].props.push((pn.to_owned(), pv));
                    }
                }
                rep.nontrivial(crate::rng::fnv64(format!("{}.{}#{}", cname, pn, k).as_bytes()));
                if covered <= 2 && k == 0 {
                    rep.sample(json!({"descriptor": format!("{}.{}", cname, pn), "type": format!("{:?}", ty)}));
                }
                run_spec(rep, &spec, json!({"cmd": "c06", "mode": "descriptor", "class": cname, "prop": pn, "seed": seed, "k": k}), &format!("{}.{}", cname, pn));
            }
        }
    }
    rep.add("descriptors.covered", covered);
    for (k, v) in skipped {
        rep.add(&format!("descriptors.skipped.{}", k), v);
    }
}

fn random_case(rep: &mut Report, seed: u64, index: u64) {
    let mut r = Rng::derive(seed, "c06", index);
    let mut gen = DomGen::xml();
    gen.unknown_classes = false;
    gen.unknown_props = false;
    gen.max_nodes = 14;
    let mut spec = if index % 40 == 39 { gen.scale_tree(&mut r) } else { gen.tree(&mut r) };
    for n in spec.nodes.iter_mut() {
        let props = std::mem::take(&mut n.props);
        n.props = props
            .into_iter()
            .filter(|(_, pv)| match pv {
                PV::V(v) => types_ok(v.ty()),
                _ => true,
            })
            .filter_map(|(k, pv)| both_ok(pv).map(|p| (k, p)))
            .collect();
    }
    let shape: BTreeSet<String> = spec.nodes.iter().map(|n| n.class.clone()).collect();
    rep.nontrivial(crate::rng::fnv64(format!("{:?}{}", shape, index).as_bytes()));
    rep.sample(json!({"index": index, "nodes": spec.nodes.len()}));
    run_spec(rep, &spec, json!({"cmd": "c06", "seed": seed, "index": index}), "random DOM");
    let _ = settable_props;
}

pub fn main(a: &Args) {
    let seed = a.u64("seed", 1);
    let count = a.u64("count", 200);
    let shard = a.u64("shard", 0);
    let nshards = a.u64("nshards", 1);
    let out = a.str("out", "/dev/stdout");
    let mut rep = Report::new("C06");
    if let Some(only) = a.kv.get("index") {
        random_case(&mut rep, seed, only.parse().unwrap());
    } else {
        if a.usize("values", 1) > 0 {
            descriptor_sweep(&mut rep, seed, shard, nshards, a.usize("values", 1));
        }
        let mut i = shard;
        while i < count {
            random_case(&mut rep, seed, i);
            i += nshards;
        }
    }
    rep.finish(&out);
}
