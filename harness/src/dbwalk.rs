//! Independent walk over the public rbx_reflection types. Nothing here calls into rbx_binary /
//! rbx_xml; it re-derives "canonical name", "serialized name/type", "migration" and "default"
//! from the database's own fields, as docs/patching-database.md describes them.

use rbx_dom_weak::types::{Variant, VariantType};
use rbx_reflection::{
    ClassDescriptor, DataType, PropertyDescriptor, PropertyKind, PropertyMigration,
    PropertySerialization, ReflectionDatabase,
};

pub type Db = ReflectionDatabase<'static>;

pub fn db() -> &'static Db {
    rbx_reflection_database::get()
}

#[derive(Clone, Copy)]
pub enum Ser<'a> {
    /// does not serialize
    No,
    /// serializes through this descriptor (may be the canonical one itself)
    As(&'a PropertyDescriptor<'a>),
    /// legacy property that migrates to another one
    Migrate(&'a PropertyMigration),
    /// a serialization kind this walk does not know
    Unknown,
}

#[derive(Clone, Copy)]
pub struct Resolved<'a> {
    pub owner: &'a ClassDescriptor<'a>,
    pub canonical: &'a PropertyDescriptor<'a>,
    /// the descriptor that was actually named (the alias descriptor when via_alias)
    pub named: &'a PropertyDescriptor<'a>,
    pub ser: Ser<'a>,
    pub via_alias: bool,
}

pub fn vtype(d: &PropertyDescriptor) -> Option<VariantType> {
    match &d.data_type {
        DataType::Value(t) => Some(*t),
        DataType::Enum(_) => Some(VariantType::Enum),
        _ => None,
    }
}

pub fn class_chain<'a>(db: &'a Db, class: &str) -> Vec<&'a ClassDescriptor<'a>> {
    let mut out = Vec::new();
    let mut cur = db.classes.get(class);
    let mut guard = 0;
    while let Some(c) = cur {
        out.push(c);
        guard += 1;
        if guard > 64 {
            break;
        }
        cur = match &c.superclass {
            Some(s) => db.classes.get(s.as_ref()),
            None => None,
        };
    }
    out
}

pub fn resolve<'a>(db: &'a Db, class: &str, prop: &str) -> Option<Resolved<'a>> {
    for c in class_chain(db, class) {
        if let Some(d) = c.properties.get(prop) {
            let (canonical, via_alias) = match &d.kind {
                PropertyKind::Canonical { .. } => (d, false),
                PropertyKind::Alias { alias_for } => (c.properties.get(alias_for.as_ref())?, true),
                _ => return None,
            };
            let ser = match &canonical.kind {
                PropertyKind::Canonical { serialization } => match serialization {
                    PropertySerialization::Serializes => Ser::As(canonical),
                    PropertySerialization::DoesNotSerialize => Ser::No,
                    PropertySerialization::SerializesAs(n) => match c.properties.get(n.as_ref()) {
                        Some(s) => Ser::As(s),
                        None => Ser::Unknown,
                    },
                    PropertySerialization::Migrate(m) => Ser::Migrate(m),
                    _ => Ser::Unknown,
                },
                _ => return None,
            };
            return Some(Resolved {
                owner: c,
                canonical,
                named: d,
                ser,
                via_alias,
            });
        }
    }
    None
}

/// Name under which a property set as `prop` is expected to be found after a write/read cycle,
/// with the serialized descriptor it travels through. None: unknown to the database.
pub struct Travel<'a> {
    pub back_name: String,
    pub declared_ty: VariantType,
    pub wire_name: String,
    pub wire_ty: VariantType,
    pub resolved: Resolved<'a>,
}

pub fn travel<'a>(db: &'a Db, class: &str, prop: &str) -> Option<Travel<'a>> {
    let r = resolve(db, class, prop)?;
    match r.ser {
        Ser::As(s) => {
            // The reader sees the wire name and canonicalises *that*.
            let back = resolve(db, class, s.name.as_ref())?;
            Some(Travel {
                back_name: back.canonical.name.to_string(),
                declared_ty: vtype(back.canonical)?,
                wire_name: s.name.to_string(),
                wire_ty: vtype(s)?,
                resolved: r,
            })
        }
        _ => None,
    }
}

pub fn default_for<'a>(db: &'a Db, class: &str, canonical: &str) -> Option<&'a Variant> {
    for c in class_chain(db, class) {
        if let Some(v) = c.default_properties.get(canonical) {
            return Some(v);
        }
    }
    None
}

/// Every descriptor visible on `class` (own and inherited; nearest class wins on shadowing).
pub fn all_props<'a>(db: &'a Db, class: &str) -> Vec<(&'a ClassDescriptor<'a>, &'a PropertyDescriptor<'a>)> {
    let mut seen = std::collections::HashSet::new();
    let mut out = Vec::new();
    for c in class_chain(db, class) {
        let mut names: Vec<&str> = c.properties.keys().map(|k| k.as_ref()).collect();
        names.sort();
        for n in names {
            if seen.insert(n.to_string()) {
                out.push((c, &c.properties[n]));
            }
        }
    }
    out
}

pub fn sorted_class_names(db: &Db) -> Vec<&str> {
    let mut v: Vec<&str> = db.classes.keys().map(|k| k.as_ref()).collect();
    v.sort();
    v
}

pub fn is_service(db: &Db, class: &str) -> bool {
    db.classes
        .get(class)
        .map(|c| c.tags.contains(&rbx_reflection::ClassTag::Service))
        .unwrap_or(false)
}
