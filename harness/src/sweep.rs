//! Exhaustive / large-domain sweeps through the real scalar codecs (C01 via the cfg-guarded
//! rbx_binary::verif_hooks wrappers; C02 float text through whole XML documents).

use crate::expect::XmlMode;
use crate::report::Report;
use crate::rng::Rng;
use crate::Args;
use rbx_binary::verif_hooks as vhk;
use rbx_dom_weak::types::Variant;
use rbx_dom_weak::{InstanceBuilder, WeakDom};
use serde_json::{json, Value as J};

/// docs/binary.md, "Integer Transformations": x >= 0 -> 2x, x < 0 -> 2|x| - 1
fn doc_zigzag32(x: i32) -> u32 {
    let v = x as i64;
    (if v >= 0 { 2 * v } else { 2 * (-v) - 1 }) as u32
}
fn doc_zigzag64(x: i64) -> u64 {
    let v = x as i128;
    (if v >= 0 { 2 * v } else { 2 * (-v) - 1 }) as u64
}

fn i32_sweep(rep: &mut Report, shard: u64, nshards: u64) {
    // all 2^32 values, split by the top bits
    let per = (1u64 << 32) / nshards;
    let lo = shard * per;
    let hi = if shard == nshards - 1 { 1u64 << 32 } else { lo + per };
    let mut bad = 0u64;
    let mut first: Option<String> = None;
    for u in lo..hi {
        let x = u as u32 as i32;
        let t = vhk::transform_i32(x);
        if t as u32 != doc_zigzag32(x) || vhk::untransform_i32(t) != x {
            bad += 1;
            first.get_or_insert(format!("x={} transform={:#x} doc={:#x} back={}", x, t as u32, doc_zigzag32(x), vhk::untransform_i32(t)));
        }
    }
    rep.evaluations += hi - lo;
    rep.add("sweep.i32.values", hi - lo);
    if bad > 0 {
        rep.violation("C01:sweep:i32-transform", &format!("{} of {} i32 values: {}", bad, hi - lo, first.unwrap()), json!({"cmd": "sweep", "what": "i32"}), J::Null);
    }
    // interleaved array layout on a block
    let block: Vec<i32> = (0..4096).map(|k| (lo as u32).wrapping_add(k * 1_048_573) as i32).collect();
    let mut out = vec![];
    vhk::write_interleaved_i32_array(&mut out, &block).unwrap();
    let n = block.len();
    for (i, x) in block.iter().enumerate() {
        let be = doc_zigzag32(*x).to_be_bytes();
        for j in 0..4 {
            if out[i + n * j] != be[j] {
                rep.violation("C01:sweep:i32-interleave", "interleaved i32 array is not column-major big-endian zig-zag", json!({"cmd": "sweep", "what": "i32"}), J::Null);
                return;
            }
        }
    }
    let mut back = vec![0i32; n];
    vhk::read_interleaved_i32_array(&out, &mut back).unwrap();
    if back != block {
        rep.violation("C01:sweep:i32-array-roundtrip", "interleaved i32 array does not read back", json!({"cmd": "sweep", "what": "i32"}), J::Null);
    }
}

fn f32_sweep(rep: &mut Report, shard: u64, nshards: u64) {
    // every f32 bit pattern through write_interleaved_f32_array -> read_interleaved_f32_array, in blocks
    let per = (1u64 << 32) / nshards;
    let lo = shard * per;
    let hi = if shard == nshards - 1 { 1u64 << 32 } else { lo + per };
    const B: u64 = 1 << 20;
    let mut u = lo;
    let mut out = Vec::with_capacity((B * 4) as usize);
    let mut back = vec![0f32; B as usize];
    while u < hi {
        let n = B.min(hi - u) as usize;
        let block: Vec<f32> = (0..n as u64).map(|k| f32::from_bits((u + k) as u32)).collect();
        out.clear();
        vhk::write_interleaved_f32_array(&mut out, &block).unwrap();
        // layout per the document: sign bit rotated to the LSB, big-endian, column-major
        for i in (0..n).step_by(4099) {
            let r = block[i].to_bits().rotate_left(1).to_be_bytes();
            for j in 0..4 {
                if out[i + n * j] != r[j] {
                    rep.violation("C01:sweep:f32-layout", &format!("f32 {:#010x} is not stored as rotl1 big-endian column-major", block[i].to_bits()), json!({"cmd": "sweep", "what": "f32"}), J::Null);
                    return;
                }
            }
        }
        vhk::read_interleaved_f32_array(&out, &mut back[..n]).unwrap();
        for i in 0..n {
            if back[i].to_bits() != block[i].to_bits() {
                rep.violation(
                    "C01:sweep:f32-roundtrip",
                    &format!("f32 bit pattern {:#010x} reads back as {:#010x}", block[i].to_bits(), back[i].to_bits()),
                    json!({"cmd": "sweep", "what": "f32"}),
                    J::Null,
                );
                return;
            }
        }
        u += n as u64;
    }
    rep.evaluations += hi - lo;
    rep.add("sweep.f32.bit_patterns", hi - lo);
}

fn i64_sweep(rep: &mut Report, seed: u64, shard: u64, count: u64) {
    let mut r = Rng::derive(seed, "sweep-i64", shard);
    let mut vals: Vec<i64> = vec![0, 1, -1, i64::MAX, i64::MIN, i64::MAX - 1, i64::MIN + 1, 1 << 62, -(1 << 62), (1 << 62) - 1, -(1 << 62) - 1, i32::MAX as i64, i32::MIN as i64];
    for k in 0..64 {
        vals.push(1i64.wrapping_shl(k));
        vals.push(1i64.wrapping_shl(k).wrapping_neg());
        vals.push(1i64.wrapping_shl(k).wrapping_sub(1));
    }
    for _ in 0..count {
        vals.push(r.next_u64() as i64);
    }
    for x in &vals {
        let t = vhk::transform_i64(*x);
        if t as u64 != doc_zigzag64(*x) || vhk::untransform_i64(t) != *x {
            rep.violation("C01:sweep:i64-transform", &format!("x={} transform={:#x} doc={:#x} back={}", x, t as u64, doc_zigzag64(*x), vhk::untransform_i64(t)), json!({"cmd": "sweep", "what": "i64"}), J::Null);
            break;
        }
    }
    for chunk in vals.chunks(1000) {
        let mut out = vec![];
        vhk::write_interleaved_i64_array(&mut out, chunk).unwrap();
        let mut back = vec![0i64; chunk.len()];
        vhk::read_interleaved_i64_array(&out, &mut back).unwrap();
        if back != chunk {
            rep.violation("C01:sweep:i64-array-roundtrip", "interleaved i64 array does not read back", json!({"cmd": "sweep", "what": "i64"}), J::Null);
            break;
        }
    }
    rep.evaluations += vals.len() as u64;
    rep.add("sweep.i64.values", vals.len() as u64);
    // referent arrays: delta coding
    for _ in 0..2000 {
        let n = 1 + r.below(50);
        let refs: Vec<i32> = (0..n).map(|_| match r.below(5) { 0 => -1, 1 => r.below(10) as i32, 2 => i32::MAX - r.below(3) as i32, _ => (r.next_u32() >> 1) as i32 }).collect();
        let mut out = vec![];
        vhk::write_referent_array(&mut out, &refs).unwrap();
        // document: each stored value is the difference to the previous referent (first relative to 0), zig-zag interleaved
        let mut deltas = vec![];
        let mut prev = 0i32;
        for x in &refs {
            deltas.push(x.wrapping_sub(prev));
            prev = *x;
        }
        let mut exp = vec![];
        vhk::write_interleaved_i32_array(&mut exp, &deltas).unwrap();
        let mut back = vec![0i32; n];
        vhk::read_referent_array(&out, &mut back).unwrap();
        if out != exp || back != refs {
            rep.violation("C01:sweep:referent-array", &format!("referent array {:?} -> back {:?}", &refs[..refs.len().min(6)], &back[..back.len().min(6)]), json!({"cmd": "sweep", "what": "refs"}), J::Null);
            break;
        }
        rep.evaluations += 1;
    }
    rep.add("sweep.referent_arrays", 2000);
}

/// f32 / f64 values through decimal XML text: all exponents x sampled mantissas, both signs.
fn xml_float_sweep(rep: &mut Report, seed: u64, shard: u64, nshards: u64, mantissas: u64) {
    let mut r = Rng::derive(seed, "sweep-xmlf", shard);
    let mut vals32: Vec<u32> = vec![];
    for sign in 0..2u32 {
        for exp in 0..=254u32 {
            if (exp as u64) % nshards != shard {
                continue;
            }
            for m in [0u32, 1, 0x7f_ffff, 0x40_0000, 0x3f_ffff, 0x2a_aaaa] {
                vals32.push(sign << 31 | exp << 23 | m);
            }
            for _ in 0..mantissas {
                vals32.push(sign << 31 | exp << 23 | (r.next_u32() & 0x7f_ffff));
            }
        }
    }
    let mut vals64: Vec<u64> = vec![];
    for sign in 0..2u64 {
        for exp in (0..=2046u64).filter(|e| e % nshards == shard) {
            for m in [0u64, 1, 0xf_ffff_ffff_ffff, 0x8_0000_0000_0000] {
                vals64.push(sign << 63 | exp << 52 | m);
            }
            for _ in 0..(mantissas / 8).max(1) {
                vals64.push(sign << 63 | exp << 52 | (r.next_u64() & 0xf_ffff_ffff_ffff));
            }
        }
    }
    let (enc, dec) = crate::rt::xml_options(XmlMode::Unknown);
    let _ = (&enc, &dec);
    for chunk in vals32.chunks(2000) {
        let mut b = InstanceBuilder::new("ZzSweep");
        for (i, bits) in chunk.iter().enumerate() {
            b.add_property(format!("F{}", i).as_str(), Variant::Float32(f32::from_bits(*bits)));
        }
        let dom = WeakDom::new(InstanceBuilder::new("DataModel").with_child(b));
        let roots = dom.root().children().to_vec();
        let text = crate::rt::write_xml(&dom, &roots, XmlMode::Unknown).expect("write_xml");
        let back = rbx_xml::from_reader(&text[..], crate::rt::xml_options(XmlMode::Unknown).1).expect("from_reader");
        let inst = back.get_by_ref(back.root().children()[0]).unwrap();
        for (i, bits) in chunk.iter().enumerate() {
            match inst.properties.get(&rbx_dom_weak::ustr(&format!("F{}", i))) {
                Some(Variant::Float32(f)) if f.to_bits() == *bits => {}
                other => {
                    rep.violation(
                        "C02:sweep:f32-text",
                        &format!("f32 {:#010x} ({:e}) does not survive its decimal text: read back {:?}", bits, f32::from_bits(*bits), other.map(|v| format!("{:?}", v))),
                        json!({"cmd": "sweep", "what": "xmlf", "bits": bits}),
                        J::Null,
                    );
                    return;
                }
            }
        }
        rep.evaluations += chunk.len() as u64;
    }
    rep.add("sweep.xml.f32_values", vals32.len() as u64);
    for chunk in vals64.chunks(2000) {
        let mut b = InstanceBuilder::new("ZzSweep");
        for (i, bits) in chunk.iter().enumerate() {
            b.add_property(format!("D{}", i).as_str(), Variant::Float64(f64::from_bits(*bits)));
        }
        let dom = WeakDom::new(InstanceBuilder::new("DataModel").with_child(b));
        let roots = dom.root().children().to_vec();
        let text = crate::rt::write_xml(&dom, &roots, XmlMode::Unknown).expect("write_xml");
        let back = rbx_xml::from_reader(&text[..], crate::rt::xml_options(XmlMode::Unknown).1).expect("from_reader");
        let inst = back.get_by_ref(back.root().children()[0]).unwrap();
        for (i, bits) in chunk.iter().enumerate() {
            match inst.properties.get(&rbx_dom_weak::ustr(&format!("D{}", i))) {
                Some(Variant::Float64(f)) if f.to_bits() == *bits => {}
                other => {
                    rep.violation(
                        "C02:sweep:f64-text",
                        &format!("f64 {:#018x} does not survive its decimal text: read back {:?}", bits, other.map(|v| format!("{:?}", v))),
                        json!({"cmd": "sweep", "what": "xmlf", "bits": bits}),
                        J::Null,
                    );
                    return;
                }
            }
        }
        rep.evaluations += chunk.len() as u64;
    }
    rep.add("sweep.xml.f64_values", vals64.len() as u64);
}

pub fn main(a: &Args) {
    let shard = a.u64("shard", 0);
    let nshards = a.u64("nshards", 1);
    let seed = a.u64("seed", 1);
    let out = a.str("out", "/dev/stdout");
    let what = a.str("what", "i32");
    let mut rep = Report::new(if what == "xmlf" { "C02" } else { "C01" });
    match what.as_str() {
        "i32" => i32_sweep(&mut rep, shard, nshards),
        "f32" => f32_sweep(&mut rep, shard, nshards),
        "i64" => i64_sweep(&mut rep, seed, shard, a.u64("count", 1 << 24)),
        "xmlf" => xml_float_sweep(&mut rep, seed, shard, nshards, a.u64("mantissas", 64)),
        _ => {}
    }
    rep.finish(&out);
}
