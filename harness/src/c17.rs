//! C17: serde / text encodings of rbx_types values and the Lua wire contract (allValues.json).

use std::str::FromStr;

use crate::canon;
use crate::gen_value::VGen;
use crate::report::{catch, panic_sig, Report};
use crate::rng::Rng;
use crate::Args;
use rbx_dom_weak::types::*;
use serde_json::{json, Value as J};

pub const ALL_VARIANT_TYPES: &[VariantType] = &[
    VariantType::Axes,
    VariantType::BinaryString,
    VariantType::Bool,
    VariantType::BrickColor,
    VariantType::CFrame,
    VariantType::Color3,
    VariantType::Color3uint8,
    VariantType::ColorSequence,
    VariantType::ContentId,
    VariantType::Enum,
    VariantType::Faces,
    VariantType::Float32,
    VariantType::Float64,
    VariantType::Int32,
    VariantType::Int64,
    VariantType::NumberRange,
    VariantType::NumberSequence,
    VariantType::PhysicalProperties,
    VariantType::Ray,
    VariantType::Rect,
    VariantType::Ref,
    VariantType::Region3,
    VariantType::Region3int16,
    VariantType::SharedString,
    VariantType::String,
    VariantType::UDim,
    VariantType::UDim2,
    VariantType::Vector2,
    VariantType::Vector2int16,
    VariantType::Vector3,
    VariantType::Vector3int16,
    VariantType::OptionalCFrame,
    VariantType::Tags,
    VariantType::Attributes,
    VariantType::Font,
    VariantType::UniqueId,
    VariantType::MaterialColors,
    VariantType::SecurityCapabilities,
    VariantType::EnumItem,
    VariantType::Content,
];

fn refstr(r: Ref) -> J {
    if r.is_none() {
        J::Null
    } else {
        J::String(r.to_string())
    }
}

fn gen_any(g: &VGen, r: &mut Rng, ty: VariantType) -> Variant {
    match ty {
        VariantType::Ref => Variant::Ref(match r.below(4) {
            0 => Ref::none(),
            1 => Ref::from_str("00000000000000000000000000000001").unwrap(),
            2 => Ref::from_str("ffffffffffffffffffffffffffffffff").unwrap(),
            _ => Ref::new(),
        }),
        VariantType::Content if r.chance(1, 3) => Variant::Content(Content::from_referent(if r.chance(1, 4) { Ref::none() } else { Ref::new() })),
        // the serde encodings CAN tell an empty cached face id from an absent one (the file formats cannot, so the
        // shared generator never produces it): both must survive
        VariantType::Font if r.chance(1, 5) => match g.gen(r, ty) {
            Some(Variant::Font(mut f)) => {
                f.cached_face_id = Some(String::new());
                if r.chance(1, 3) {
                    f.family = String::new();
                }
                Variant::Font(f)
            }
            other => other.expect("generator covers every variant type"),
        },
        _ => g.gen(r, ty).expect("generator covers every variant type"),
    }
}

fn check_entry<E: std::fmt::Display>(
    rep: &mut Report,
    name: &str,
    ty: VariantType,
    orig: &J,
    res: Result<Result<Variant, E>, crate::report::PanicInfo>,
    replay: &J,
    dbg: &str,
) {
    rep.count(&format!("encoding.{}", name));
    match res {
        Err(p) => rep.violation(
            &format!("C17:{}:panic:{:?}:{}", name, ty, panic_sig(&p)),
            &format!("{} of a {:?} panicked: {}", name, ty, p.msg),
            replay.clone(),
            json!({"value": dbg}),
        ),
        Ok(Err(e)) => {
            let es: String = e.to_string().chars().take(60).filter(|c| !c.is_ascii_digit()).collect();
            rep.violation(
                &format!("C17:{}:decode-error:{:?}", name, ty),
                &format!("{}: decoding its own encoding of a {:?} failed: {} (value {})", name, ty, es, dbg),
                replay.clone(),
                json!({"value": dbg}),
            )
        }
        Ok(Ok(v)) => {
            let back = canon::value(&v, &refstr);
            if &back != orig {
                rep.violation(
                    &format!("C17:{}:changed:{:?}", name, ty),
                    &format!("{}: a {:?} came back changed: {} -> {}", name, ty, orig, back),
                    replay.clone(),
                    json!({"value": dbg}),
                );
            }
        }
    }
}

/// a sink that accepts `0` bytes in total and then fails every call
struct FailAfter(usize);
impl std::io::Write for FailAfter {
    fn write(&mut self, b: &[u8]) -> std::io::Result<usize> {
        if self.0 == 0 {
            return Err(std::io::Error::new(std::io::ErrorKind::Other, "sink full"));
        }
        let n = b.len().min(self.0);
        self.0 -= n;
        Ok(n)
    }
    fn flush(&mut self) -> std::io::Result<()> {
        Ok(())
    }
}

fn floor_char_boundary(s: &str, mut k: usize) -> usize {
    k = k.min(s.len());
    while !s.is_char_boundary(k) {
        k -= 1;
    }
    k
}

fn short(s: &str) -> String {
    if s.len() > 160 {
        format!("{}...({} bytes)", &s[..floor_char_boundary(s, 160)], s.len())
    } else {
        s.to_owned()
    }
}

fn value_case(rep: &mut Report, seed: u64, index: u64) {
    let mut r = Rng::derive(seed, "c17", index);
    let ty = ALL_VARIANT_TYPES[(index as usize) % ALL_VARIANT_TYPES.len()];
    let json_ok = r.chance(1, 2);
    let g = VGen { xml: false, big: r.chance(1, 200), finite: json_ok };
    let v = gen_any(&g, &mut r, ty);
    let orig = canon::value(&v, &refstr);
    let dbg: String = format!("{:?}", v).chars().take(300).collect();
    let replay = json!({"cmd": "c17", "seed": seed, "index": index});
    rep.evaluations += 1;
    rep.count(&format!("values.{:?}", ty));
    rep.nontrivial(canon::digest(&orig) ^ (ty as u64) << 56);
    rep.sample(json!({"index": index, "type": format!("{:?}", ty), "value": dbg}));
    if json_ok {
        // every serde_json entry point
        let s = catch(|| serde_json::to_string(&v));
        match s {
            Ok(Ok(text)) => {
                check_entry(rep, "json.from_str", ty, &orig, catch(|| serde_json::from_str::<Variant>(&text)), &replay, &dbg);
                check_entry(rep, "json.from_slice", ty, &orig, catch(|| serde_json::from_slice::<Variant>(text.as_bytes())), &replay, &dbg);
                check_entry(rep, "json.from_reader", ty, &orig, catch(|| serde_json::from_reader::<_, Variant>(text.as_bytes())), &replay, &dbg);
                let mut w = Vec::new();
                if serde_json::to_writer(&mut w, &v).is_ok() && w != text.as_bytes() {
                    rep.violation(&format!("C17:json.to_writer-differs:{:?}", ty), "to_writer and to_string disagree", replay.clone(), J::Null);
                }
                // a call that FAILS half-way (sink refuses after k bytes, input cut after k bytes) must leave nothing
                // behind: the next ordinary call on the same thread gives exactly what it gave before
                let cuts = [0usize, 1, text.len() / 2, text.len().saturating_sub(1), r.below(text.len().max(1))];
                for k in cuts {
                    let failed = catch(|| serde_json::to_writer(FailAfter(k), &v).is_err());
                    rep.count("fault.json.sink-fails-mid-value");
                    match failed {
                        Err(p) => rep.violation(&format!("C17:json.to_writer:panic-on-failing-sink:{:?}", ty), &p.msg, replay.clone(), J::Null),
                        Ok(false) if k < text.len() => rep.violation(
                            &format!("C17:json.to_writer:sink-error-swallowed:{:?}", ty),
                            &format!("the sink refused everything after {} of {} bytes and to_writer reported success", k, text.len()),
                            replay.clone(),
                            J::Null,
                        ),
                        _ => {}
                    }
                    let _ = catch(|| serde_json::from_str::<Variant>(&text[..floor_char_boundary(&text, k)]).is_err());
                    let _ = catch(|| bincode::serialize_into(FailAfter(k), &v).is_err());
                    let _ = catch(|| rmp_serde::encode::write(&mut FailAfter(k), &v).is_err());
                    match catch(|| serde_json::to_string(&v)) {
                        Ok(Ok(again)) if again == text => {}
                        Ok(Ok(again)) => rep.violation(
                            &format!("C17:json:state-left-by-failed-call:{:?}", ty),
                            &format!("after a serialization that failed at byte {}, the same value serializes to {} instead of {}", k, short(&again), short(&text)),
                            replay.clone(),
                            J::Null,
                        ),
                        _ => rep.violation(&format!("C17:json:fails-after-failed-call:{:?}", ty), "serialization fails after an earlier failed call", replay.clone(), J::Null),
                    }
                    check_entry(rep, "json.from_str-after-failed-call", ty, &orig, catch(|| serde_json::from_str::<Variant>(&text)), &replay, &dbg);
                }
            }
            Ok(Err(e)) => rep.violation(&format!("C17:json.to_string:error:{:?}", ty), &format!("to_string failed: {} ({})", e, dbg), replay.clone(), J::Null),
            Err(p) => rep.violation(&format!("C17:json.to_string:panic:{:?}", ty), &format!("to_string panicked: {}", p.msg), replay.clone(), J::Null),
        }
        match catch(|| serde_json::to_value(&v)) {
            Ok(Ok(val)) => check_entry(rep, "json.from_value", ty, &orig, catch(|| serde_json::from_value::<Variant>(val.clone())), &replay, &dbg),
            Ok(Err(e)) => rep.violation(&format!("C17:json.to_value:error:{:?}", ty), &format!("to_value failed: {}", e), replay.clone(), J::Null),
            Err(p) => rep.violation(&format!("C17:json.to_value:panic:{:?}", ty), &format!("to_value panicked: {}", p.msg), replay.clone(), J::Null),
        }
    }
    match catch(|| bincode::serialize(&v)) {
        Ok(Ok(b)) => check_entry(rep, "bincode", ty, &orig, catch(|| bincode::deserialize::<Variant>(&b)), &replay, &dbg),
        Ok(Err(e)) => rep.violation(&format!("C17:bincode:encode-error:{:?}", ty), &format!("bincode::serialize failed: {}", e), replay.clone(), J::Null),
        Err(p) => rep.violation(&format!("C17:bincode:encode-panic:{:?}", ty), &format!("bincode::serialize panicked: {}", p.msg), replay.clone(), J::Null),
    }
    match catch(|| rmp_serde::to_vec(&v)) {
        Ok(Ok(b)) => check_entry(rep, "msgpack.compact", ty, &orig, catch(|| rmp_serde::from_slice::<Variant>(&b)), &replay, &dbg),
        Ok(Err(e)) => rep.violation(&format!("C17:msgpack.compact:encode-error:{:?}", ty), &format!("rmp_serde::to_vec failed: {}", e), replay.clone(), J::Null),
        Err(p) => rep.violation(&format!("C17:msgpack.compact:encode-panic:{:?}", ty), &format!("{}", p.msg), replay.clone(), J::Null),
    }
    match catch(|| rmp_serde::to_vec_named(&v)) {
        Ok(Ok(b)) => check_entry(rep, "msgpack.named", ty, &orig, catch(|| rmp_serde::from_slice::<Variant>(&b)), &replay, &dbg),
        Ok(Err(e)) => rep.violation(&format!("C17:msgpack.named:encode-error:{:?}", ty), &format!("rmp_serde::to_vec_named failed: {}", e), replay.clone(), J::Null),
        Err(p) => rep.violation(&format!("C17:msgpack.named:encode-panic:{:?}", ty), &format!("{}", p.msg), replay.clone(), J::Null),
    }
}

/// Values of a SIZE the generator never makes: byte strings and strings at and around 2^16 and 2^20 bytes through every
/// encoding (chunked or streamed encoders tend to go wrong exactly at their piece size).
fn large_values(rep: &mut Report) {
    for len in [65535usize, 65536, 65537, (1 << 20) - 1, 1 << 20, (1 << 20) + 1, 3 << 20] {
        let bytes: Vec<u8> = (0..len).map(|i| (i * 131 % 251) as u8).collect();
        let text: String = (0..len).map(|i| (b'a' + (i % 26) as u8) as char).collect();
        let vals = vec![
            Variant::BinaryString(bytes.clone().into()),
            Variant::SharedString(SharedString::new(bytes.clone())),
            Variant::String(text),
            Variant::Tags(vec!["t".repeat(len / 2), "u".repeat(len / 2)].into()),
        ];
        for v in vals {
            let ty = v.ty();
            let orig = canon::digest(&canon::value(&v, &refstr));
            rep.evaluations += 1;
            rep.count(&format!("large.{:?}", ty));
            let replay = json!({"cmd": "c17", "part": "large", "type": format!("{:?}", ty), "len": len});
            let mut check = |name: &str, back: Result<Result<Variant, String>, crate::report::PanicInfo>| match back {
                Ok(Ok(b)) if canon::digest(&canon::value(&b, &refstr)) == orig => {}
                Ok(Ok(_)) => rep.violation(&format!("C17:large:{}:changed:{:?}", name, ty), &format!("a {:?} of {} bytes came back changed through {}", ty, len, name), replay.clone(), J::Null),
                Ok(Err(e)) => rep.violation(&format!("C17:large:{}:error:{:?}", name, ty), &format!("a {:?} of {} bytes does not survive {}: {}", ty, len, name, e.chars().take(120).collect::<String>()), replay.clone(), J::Null),
                Err(p) => rep.violation(&format!("C17:large:{}:panic:{:?}", name, ty), &p.msg, replay.clone(), J::Null),
            };
            check("json.to_string", catch(|| serde_json::to_string(&v).map_err(|e| e.to_string()).and_then(|t| serde_json::from_str::<Variant>(&t).map_err(|e| e.to_string()))));
            check("json.to_vec+from_reader", catch(|| serde_json::to_vec(&v).map_err(|e| e.to_string()).and_then(|t| serde_json::from_reader::<_, Variant>(&t[..]).map_err(|e| e.to_string()))));
            check("json.to_value", catch(|| serde_json::to_value(&v).map_err(|e| e.to_string()).and_then(|t| serde_json::from_value::<Variant>(t).map_err(|e| e.to_string()))));
            check("bincode", catch(|| bincode::serialize(&v).map_err(|e| e.to_string()).and_then(|t| bincode::deserialize::<Variant>(&t).map_err(|e| e.to_string()))));
            check("msgpack", catch(|| rmp_serde::to_vec(&v).map_err(|e| e.to_string()).and_then(|t| rmp_serde::from_slice::<Variant>(&t).map_err(|e| e.to_string()))));
        }
    }
}

fn text_forms(rep: &mut Report, seed: u64, n: u64) {
    let mut r = Rng::derive(seed, "c17-text", 0);
    // Ref
    let mut refs: Vec<u128> = vec![1, 2, u128::MAX, 1 << 127, (1 << 127) - 1, u64::MAX as u128, (u64::MAX as u128) + 1];
    for _ in 0..n {
        refs.push(((r.next_u64() as u128) << 64) | r.next_u64() as u128);
    }
    for v in refs {
        let s = format!("{:032x}", v);
        rep.evaluations += 1;
        rep.count("text.Ref");
        match Ref::from_str(&s) {
            Ok(rf) => {
                let back = rf.to_string();
                if back != s || Ref::from_str(&back).ok() != Some(rf) {
                    rep.violation("C17:text:Ref", &format!("Ref {} prints as {}", s, back), json!({"ref": s}), J::Null);
                }
            }
            Err(e) => rep.violation("C17:text:Ref:parse", &format!("Ref::from_str({}) failed: {}", s, e), json!({"ref": s}), J::Null),
        }
    }
    let none = Ref::none().to_string();
    if Ref::from_str(&none).ok() != Some(Ref::none()) {
        rep.violation("C17:text:Ref:none", "the null referent does not survive its text form", J::Null, J::Null);
    }
    // UniqueId
    let mut uids = vec![
        UniqueId::new(0, 0, 0),
        UniqueId::new(1, 2, 3),
        UniqueId::new(u32::MAX, u32::MAX, i64::MAX),
        UniqueId::new(0, 0, -1),
        UniqueId::new(5, 6, i64::MIN),
        UniqueId::new(5, 6, -5),
    ];
    let g = VGen::binary();
    for _ in 0..n {
        uids.push(g.unique_id(&mut r));
    }
    for u in uids {
        rep.evaluations += 1;
        rep.count("text.UniqueId");
        if u.random() < 0 {
            rep.count("text.UniqueId.negative_random");
        }
        let s = u.to_string();
        match UniqueId::from_str(&s) {
            Ok(b) if b == u => {}
            Ok(b) => rep.violation("C17:text:UniqueId:changed", &format!("UniqueId {:?} printed as {} parses to {:?}", u, s, b), json!({"uid": s}), J::Null),
            Err(e) => rep.violation("C17:text:UniqueId:parse", &format!("UniqueId {:?} prints as {} which its own parser rejects: {}", u, s, e), json!({"uid": s}), J::Null),
        }
    }
}

fn small_domains(rep: &mut Report) {
    // BrickColor: all u16 numbers
    let mut valid = 0;
    for n in 0..=u16::MAX {
        rep.evaluations += 1;
        if let Some(b) = BrickColor::from_number(n) {
            valid += 1;
            if b as u16 != n {
                rep.violation("C17:BrickColor:number", &format!("from_number({}) has number {}", n, b as u16), json!({"n": n}), J::Null);
            }
            let name = b.to_string();
            match BrickColor::from_name(&name) {
                Some(b2) if b2.to_string() == name => {}
                other => rep.violation("C17:BrickColor:name", &format!("name {:?} of number {} maps to {:?}", name, n, other), json!({"n": n}), J::Null),
            }
            let v = Variant::BrickColor(b);
            for (enc, ok) in [
                ("json", serde_json::to_string(&v).ok().and_then(|s| serde_json::from_str::<Variant>(&s).ok()) == Some(v.clone())),
                ("bincode", bincode::serialize(&v).ok().and_then(|s| bincode::deserialize::<Variant>(&s).ok()) == Some(v.clone())),
                ("msgpack", rmp_serde::to_vec(&v).ok().and_then(|s| rmp_serde::from_slice::<Variant>(&s).ok()) == Some(v.clone())),
            ] {
                if !ok {
                    rep.violation(&format!("C17:BrickColor:serde:{}", enc), &format!("BrickColor {} does not survive {}", n, enc), json!({"n": n}), J::Null);
                }
            }
        }
    }
    rep.add("brickcolor.numbers_tried", 65536);
    rep.add("brickcolor.valid", valid);
    // Faces / Axes: all 256 raw bytes through the compact encodings
    for bits in 0..=255u8 {
        rep.evaluations += 1;
        let f = Faces::from_bits(bits);
        let a = Axes::from_bits(bits);
        if (bits < 64) != f.is_some() {
            rep.violation("C17:Faces:from_bits", &format!("Faces::from_bits({}) = {:?}", bits, f), json!({"bits": bits}), J::Null);
        }
        if (bits < 8) != a.is_some() {
            rep.violation("C17:Axes:from_bits", &format!("Axes::from_bits({}) = {:?}", bits, a), json!({"bits": bits}), J::Null);
        }
        // bincode encodes a u8 as one byte; msgpack as a positive fixint / uint8
        let raw_bincode = vec![bits];
        let raw_msgpack = rmp_serde::to_vec(&bits).unwrap();
        for (enc, fr, ar) in [
            ("bincode", bincode::deserialize::<Faces>(&raw_bincode).ok(), bincode::deserialize::<Axes>(&raw_bincode).ok()),
            ("msgpack", rmp_serde::from_slice::<Faces>(&raw_msgpack).ok(), rmp_serde::from_slice::<Axes>(&raw_msgpack).ok()),
        ] {
            match (f, fr) {
                (Some(x), Some(y)) if x.bits() == y.bits() => {}
                (None, None) => {}
                (x, y) => rep.violation(&format!("C17:Faces:raw:{}", enc), &format!("raw byte {} decodes to {:?}, from_bits gives {:?}", bits, y, x), json!({"bits": bits}), J::Null),
            }
            match (a, ar) {
                (Some(x), Some(y)) if x.bits() == y.bits() => {}
                (None, None) => {}
                (x, y) => rep.violation(&format!("C17:Axes:raw:{}", enc), &format!("raw byte {} decodes to {:?}, from_bits gives {:?}", bits, y, x), json!({"bits": bits}), J::Null),
            }
        }
        if let Some(x) = f {
            let v = Variant::Faces(x);
            let ok = serde_json::to_string(&v).ok().and_then(|s| serde_json::from_str::<Variant>(&s).ok()) == Some(v.clone())
                && bincode::serialize(&v).ok().and_then(|s| bincode::deserialize::<Variant>(&s).ok()) == Some(v.clone());
            if !ok {
                rep.violation("C17:Faces:serde", &format!("Faces {} does not survive serde", bits), json!({"bits": bits}), J::Null);
            }
        }
        if let Some(x) = a {
            let v = Variant::Axes(x);
            let ok = serde_json::to_string(&v).ok().and_then(|s| serde_json::from_str::<Variant>(&s).ok()) == Some(v.clone())
                && bincode::serialize(&v).ok().and_then(|s| bincode::deserialize::<Variant>(&s).ok()) == Some(v.clone());
            if !ok {
                rep.violation("C17:Axes:serde", &format!("Axes {} does not survive serde", bits), json!({"bits": bits}), J::Null);
            }
        }
    }
}

fn blobs(rep: &mut Report, seed: u64, n: u64) {
    let g = VGen::binary();
    for i in 0..n {
        let mut r = Rng::derive(seed, "c17-blob", i);
        rep.evaluations += 1;
        // Tags
        let t = g.tags(&mut r);
        let enc = t.encode();
        match Tags::decode(&enc) {
            Ok(t2) if t2 == t => {}
            // (listed finding: decode filters empty tag names out)
            Ok(t2) if t.iter().any(|x| x.is_empty()) && t2.iter().collect::<Vec<_>>() == t.iter().filter(|x| !x.is_empty()).collect::<Vec<_>>() => {
                rep.violation("C17:Tags:empty-tag-dropped", &format!("Tags {:?} -> {:?}", t, t2), json!({"seed": seed, "i": i}), J::Null)
            }
            other => rep.violation("C17:Tags:roundtrip", &format!("Tags {:?} -> {:?}", t, other.map(|x| format!("{:?}", x))), json!({"seed": seed, "i": i}), J::Null),
        }
        rep.count("blob.Tags");
        let raw = g.bytes(&mut r);
        if let Ok(t1) = Tags::decode(&raw) {
            let e1 = t1.encode();
            match Tags::decode(&e1) {
                Ok(t2) if t2 == t1 && t2.encode() == e1 => {}
                _ => rep.violation("C17:Tags:idempotent", "decode(encode(decode(b))) differs", json!({"seed": seed, "i": i}), J::Null),
            }
        }
        // MaterialColors
        let mut b = vec![0u8; 69];
        for x in b.iter_mut() {
            *x = r.below(256) as u8;
        }
        match MaterialColors::decode(&b) {
            Ok(m) => {
                let e = m.encode();
                if e.len() != 69 || e[6..] != b[6..] {
                    rep.violation("C17:MaterialColors:blob", "encode(decode(b)) differs from b outside the reserved bytes", json!({"seed": seed, "i": i}), J::Null);
                }
                match MaterialColors::decode(&e) {
                    Ok(m2) if m2.encode() == e => {}
                    _ => rep.violation("C17:MaterialColors:value", "decode(encode(m)) differs", json!({"seed": seed, "i": i}), J::Null),
                }
            }
            Err(e) => rep.violation("C17:MaterialColors:decode", &format!("69-byte blob rejected: {}", e), json!({"seed": seed, "i": i}), J::Null),
        }
        rep.count("blob.MaterialColors");
        for wrong in [0usize, 68, 70] {
            if MaterialColors::decode(&vec![0u8; wrong]).is_ok() {
                rep.violation("C17:MaterialColors:length", &format!("a {}-byte blob was accepted", wrong), J::Null, J::Null);
            }
        }
    }
}

fn all_values(rep: &mut Report, repo: &str) {
    let path = format!("{}/rbx_dom_lua/src/allValues.json", repo);
    let text = match std::fs::read_to_string(&path) {
        Ok(t) => t,
        Err(e) => {
            rep.notes.push(format!("INCONCLUSIVE cannot read {}: {}", path, e));
            return;
        }
    };
    let j: J = serde_json::from_str(&text).expect("allValues.json is not JSON");
    for (name, entry) in j.as_object().unwrap() {
        rep.evaluations += 1;
        rep.count("allValues.entries");
        let ty = entry["ty"].as_str().unwrap_or("");
        let val = entry["value"].clone();
        let replay = json!({"allValues": name});
        // through a string (what a file reader does) and through a Value (what rbx_reflector / tools do)
        let from_str = catch(|| serde_json::from_str::<Variant>(&val.to_string()));
        let from_val = catch(|| serde_json::from_value::<Variant>(val.clone()));
        for (how, res) in [("from_str", from_str), ("from_value", from_val)] {
            match res {
                Ok(Ok(v)) => {
                    if format!("{:?}", v.ty()) != ty {
                        rep.violation(&format!("C17:allValues:type:{}", name), &format!("{}: decodes to {:?}, stated {}", name, v.ty(), ty), replay.clone(), J::Null);
                    }
                    match serde_json::to_value(&v) {
                        Ok(back) if back == val => {}
                        Ok(back) => rep.violation(
                            &format!("C17:allValues:reencode:{}", name),
                            &format!("{} ({}): re-encodes to {} instead of {}", name, how, back, val),
                            replay.clone(),
                            J::Null,
                        ),
                        Err(e) => rep.violation(&format!("C17:allValues:reencode-error:{}", name), &format!("{}: {}", name, e), replay.clone(), J::Null),
                    }
                }
                Ok(Err(e)) => rep.violation(
                    &format!("C17:allValues:{}:decode-error:{}", how, ty),
                    &format!("{}: serde_json::{} cannot decode the sample: {}", name, how, e),
                    replay.clone(),
                    J::Null,
                ),
                Err(p) => rep.violation(&format!("C17:allValues:{}:panic:{}", how, name), &format!("{}: {}", name, p.msg), replay.clone(), J::Null),
            }
        }
    }
}

pub fn main(a: &Args) {
    let seed = a.u64("seed", 1);
    let count = a.u64("count", 1000);
    let shard = a.u64("shard", 0);
    let nshards = a.u64("nshards", 1);
    let out = a.str("out", "/dev/stdout");
    let repo = a.str("repo", "/repo");
    let mut rep = Report::new("C17");
    if let Some(only) = a.kv.get("index") {
        value_case(&mut rep, seed, only.parse().unwrap());
        rep.finish(&out);
        return;
    }
    let mut i = shard;
    while i < count {
        value_case(&mut rep, seed, i);
        i += nshards;
    }
    if shard == 0 {
        text_forms(&mut rep, seed, a.u64("text", 100000));
        small_domains(&mut rep);
        large_values(&mut rep);
        blobs(&mut rep, seed, a.u64("blobs", 2000));
        all_values(&mut rep, &repo);
    }
    rep.finish(&out);
}
