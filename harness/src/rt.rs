//! C01 / C02: file round trips of generated DOMs against the statement-derived oracle.
//! Also writes the case log consumed by the independent-decoder monitors (C03 / C05).

use crate::canon;
use crate::expect::{self, XmlMode};
use crate::gen_dom::{DomGen, Fmt};
use crate::report::{catch, panic_sig, Report};
use crate::rng::Rng;
use crate::spec::{self, BuildMode, TreeSpec, PV};
use crate::Args;
use rbx_binary::CompressionType;
use rbx_dom_weak::types::Ref;
use serde_json::{json, Value as J};

pub fn comp_name(c: CompressionType) -> &'static str {
    match c {
        CompressionType::Lz4 => "lz4",
        CompressionType::None => "none",
        CompressionType::Zstd => "zstd",
    }
}

/// Readers other than a slice over the same bytes (all legal `Read` behaviour).
pub fn hostile_reader<'a>(bytes: &'a [u8], kind: usize, salt: u64) -> Box<dyn std::io::Read + 'a> {
    struct Trickle<'a>(&'a [u8], usize);
    impl<'a> std::io::Read for Trickle<'a> {
        fn read(&mut self, buf: &mut [u8]) -> std::io::Result<usize> {
            let n = buf.len().min(self.1).min(self.0.len());
            buf[..n].copy_from_slice(&self.0[..n]);
            self.0 = &self.0[n..];
            Ok(n)
        }
    }
    use std::io::Read;
    match kind {
        1 => Box::new(Trickle(bytes, 1 + (salt % 7) as usize)),
        2 => Box::new(std::io::BufReader::with_capacity(8 + (salt % 57) as usize, Trickle(bytes, 5 + (salt % 11) as usize))),
        3 => {
            let h = if bytes.is_empty() { 0 } else { (salt as usize * 7919) % bytes.len() };
            Box::new(bytes[..h].chain(&bytes[h..]))
        }
        _ => Box::new(bytes),
    }
}

pub fn write_binary(dom: &rbx_dom_weak::WeakDom, refs: &[Ref], c: CompressionType) -> Result<Vec<u8>, String> {
    let mut out = Vec::new();
    rbx_binary::Serializer::new()
        .compression_type(c)
        .serialize(&mut out, dom, refs)
        .map_err(|e| e.to_string())?;
    Ok(out)
}

pub fn xml_options(mode: XmlMode) -> (rbx_xml::EncodeOptions<'static>, rbx_xml::DecodeOptions<'static>) {
    use rbx_xml::{DecodeOptions, DecodePropertyBehavior as D, EncodeOptions, EncodePropertyBehavior as E};
    match mode {
        XmlMode::Default => (EncodeOptions::new(), DecodeOptions::new()),
        XmlMode::Unknown => (
            EncodeOptions::new().property_behavior(E::WriteUnknown),
            DecodeOptions::new().property_behavior(D::ReadUnknown),
        ),
        XmlMode::NoReflection => (
            EncodeOptions::new().property_behavior(E::NoReflection),
            DecodeOptions::new().property_behavior(D::NoReflection),
        ),
    }
}

pub fn write_xml(dom: &rbx_dom_weak::WeakDom, refs: &[Ref], mode: XmlMode) -> Result<Vec<u8>, String> {
    let mut out = Vec::new();
    rbx_xml::to_writer(&mut out, dom, refs, xml_options(mode).0).map_err(|e| e.to_string())?;
    Ok(out)
}

fn spec_summary(spec: &TreeSpec, sel: &[usize]) -> J {
    let nodes: Vec<J> = spec
        .nodes
        .iter()
        .enumerate()
        .map(|(i, n)| {
            json!({
                "i": i,
                "class": n.class,
                "name": n.name,
                "parent": n.parent,
                "props": n.props.iter().map(|(k, v)| {
                    let vs = match v {
                        PV::V(v) => {
                            let s = format!("{:?}", v);
                            s.chars().take(160).collect::<String>()
                        }
                        PV::Ref(r) => format!("Ref({:?})", r),
                        PV::ContentObj(r) => format!("Content::Object({:?})", r),
                    };
                    json!([k, vs])
                }).collect::<Vec<_>>(),
            })
        })
        .collect();
    json!({"nodes": nodes, "selection": sel})
}

fn pv_type(pv: &PV) -> String {
    match pv {
        PV::V(v) => format!("{:?}", v.ty()),
        PV::Ref(_) => "Ref".into(),
        PV::ContentObj(_) => "Content::Object".into(),
    }
}

/// error strings carry instance names etc.; keep only the stable leading part for signatures
fn err_class(e: &str) -> String {
    // rbx_xml errors start with "line N, column M: "
    let mut e = e;
    if e.starts_with("line ") {
        if let Some(p) = e.find(": ") {
            e = &e[p + 2..];
        }
    }
    let s: String = e.chars().take(60).collect();
    let s = s.split(|c: char| c == ':' || c == '`' || c == '\'' || c == '"').next().unwrap_or("").trim().to_owned();
    s
}

pub struct CaseOut {
    pub violated: bool,
}

pub fn run_case(rep: &mut Report, fmt: Fmt, seed: u64, index: u64, verbose: bool) -> CaseOut {
    let label = if fmt == Fmt::Binary { "c01" } else { "c02" };
    let prop = if fmt == Fmt::Binary { "C01" } else { "C02" };
    let mut rng = Rng::derive(seed, label, index);
    let mut gen = if fmt == Fmt::Binary { DomGen::binary() } else { DomGen::xml() };
    if rng.chance(1, 40) {
        gen.max_nodes = 300;
    }
    if rng.chance(1, 25) {
        gen.vgen.big = true;
    }
    let xml_mode = if fmt == Fmt::Xml {
        *rng.pick(&[XmlMode::Default, XmlMode::Unknown, XmlMode::Unknown, XmlMode::NoReflection])
    } else {
        XmlMode::Default
    };
    if fmt == Fmt::Xml && xml_mode == XmlMode::Default {
        // default options only promise to keep database-known properties (Name included)
        gen.unknown_props = false;
        gen.unknown_classes = false;
    }
    let mut spec = if index % 50 == 49 {
        rep.count("cases.scale");
        gen.scale_tree(&mut rng)
    } else {
        gen.tree(&mut rng)
    };
    if fmt == Fmt::Xml && !rng.chance(1, 8) {
        // rbx_xml panics on Content::Object (known finding); keep observing it in 1/8 of the
        // cases and let the others exercise the rest of the writer
        for n in spec.nodes.iter_mut() {
            for (_, pv) in n.props.iter_mut() {
                if let PV::ContentObj(_) = pv {
                    *pv = PV::V(rbx_dom_weak::types::Variant::Content(rbx_dom_weak::types::Content::none()));
                }
            }
        }
    }
    let sel = gen.selection(&mut rng, &spec);
    let mode = if spec.nodes.len() > 200 { BuildMode::Incremental } else { *rng.pick(&[BuildMode::Nested, BuildMode::Incremental, BuildMode::ShuffledProps]) };
    let built = spec::build(&spec, mode, &mut rng);
    let sel_refs: Vec<Ref> = sel.iter().map(|i| built.refs[*i]).collect();
    let nan_class = fmt == Fmt::Xml;
    let exp = canon::with_nan_class(nan_class, || expect::expect_roundtrip(&spec, &sel, fmt, xml_mode));
    let replay = json!({"cmd": label, "seed": seed, "index": index});

    // coverage + non-triviality
    let paths = expect::written_paths(&spec, &sel);
    let written = paths.len();
    let mut nprops = 0;
    for (n, _) in &paths {
        for (k, pv) in &spec.nodes[*n].props {
            nprops += 1;
            rep.count(&format!("values.{}", pv_type(pv)));
            let known = crate::dbwalk::resolve(crate::dbwalk::db(), &spec.nodes[*n].class, k).is_some();
            rep.count(if known { "props.known" } else { "props.unknown" });
            if let PV::Ref(crate::spec::RefT::Node(t)) | PV::ContentObj(crate::spec::RefT::Node(t)) = pv {
                rep.count(if paths.contains_key(t) { "refs.inside" } else { "refs.outside" });
            }
        }
        let kc = crate::dbwalk::db().classes.contains_key(spec.nodes[*n].class.as_str());
        rep.count(if kc { "instances.known_class" } else { "instances.unknown_class" });
    }
    if written >= 2 && nprops >= 1 {
        rep.nontrivial(canon::digest(&exp.dump));
    }
    rep.sample(json!({"seed": seed, "index": index, "written_instances": written, "spec": spec_summary(&spec, &sel)}));

    let variants: Vec<(String, Box<dyn Fn() -> Result<Vec<u8>, String>>)> = if fmt == Fmt::Binary {
        [CompressionType::Lz4, CompressionType::None, CompressionType::Zstd]
            .into_iter()
            .map(|c| {
                let dom = &built.dom;
                let refs = sel_refs.clone();
                (
                    comp_name(c).to_owned(),
                    Box::new(move || write_binary(dom, &refs, c)) as Box<dyn Fn() -> Result<Vec<u8>, String>>,
                )
            })
            .collect()
    } else {
        let dom = &built.dom;
        let refs = sel_refs.clone();
        vec![(
            format!("{:?}", xml_mode),
            Box::new(move || write_xml(dom, &refs, xml_mode)) as Box<dyn Fn() -> Result<Vec<u8>, String>>,
        )]
    };

    let mut violated = false;
    for (vname, writer) in &variants {
        rep.evaluations += 1;
        rep.count(&format!("mode.{}", vname));
        let detail_base = json!({"variant": vname, "spec": spec_summary(&spec, &sel)});
        let bytes = match catch(|| writer()) {
            Err(p) => {
                violated = true;
                rep.count("outcome.write_panic");
                rep.violation(
                    &format!("{}:write:{}", prop, panic_sig(&p)),
                    &format!("serializer panicked: {} at {}:{}", p.msg, p.file, p.line),
                    replay.clone(),
                    detail_base.clone(),
                );
                continue;
            }
            Ok(Err(e)) => {
                violated = true;
                rep.count("outcome.write_err");
                rep.violation(
                    &format!("{}:write-error:{}", prop, err_class(&e)),
                    &format!("serializer returned an error for a DOM of implemented types: {}", e),
                    replay.clone(),
                    detail_base.clone(),
                );
                continue;
            }
            Ok(Ok(b)) => b,
        };
        if rep.has_caselog() {
            rep.log_case(&json!({
                "kind": "case", "prop": prop, "seed": seed, "index": index, "variant": vname,
                "bytes_hex": canon::hex(&bytes),
                "expected": exp.dump,
                "carried": exp.carried.iter().map(|(c, m)| (c.clone(), m.keys().cloned().collect::<Vec<_>>())).collect::<std::collections::BTreeMap<_, _>>(),
                "wire": wire_names(&spec, &paths),
                "xml_mode": format!("{:?}", xml_mode),
            }));
        }
        let decoded = match catch(|| {
            if fmt == Fmt::Binary {
                rbx_binary::from_reader(&bytes[..]).map_err(|e| e.to_string())
            } else {
                rbx_xml::from_reader(&bytes[..], xml_options(xml_mode).1).map_err(|e| e.to_string())
            }
        }) {
            Err(p) => {
                violated = true;
                rep.count("outcome.read_panic");
                rep.violation(
                    &format!("{}:read:{}", prop, panic_sig(&p)),
                    &format!("deserializer panicked on the serializer's own output: {} at {}:{}", p.msg, p.file, p.line),
                    replay.clone(),
                    detail_base.clone(),
                );
                continue;
            }
            Ok(Err(e)) => {
                violated = true;
                rep.count("outcome.read_err");
                rep.violation(
                    &format!("{}:read-error:{}", prop, err_class(&e)),
                    &format!("deserializer rejected the serializer's own output: {}", e),
                    replay.clone(),
                    detail_base.clone(),
                );
                continue;
            }
            Ok(Ok(d)) => d,
        };
        let dump = canon::with_nan_class(nan_class, || canon::dump_decoded(&decoded));
        // "reading the bytes back" is not tied to a slice: the same bytes through a reader that hands out a few
        // bytes per call, a small BufReader, or two halves chained (short read at the seam) must give the same DOM
        {
            let kind = 1 + (index % 3) as usize;
            let kname = ["slice", "few-bytes-per-call", "small-bufreader", "chained-halves"][kind];
            let alt = catch(|| {
                let rd = hostile_reader(&bytes, kind, index);
                if fmt == Fmt::Binary {
                    rbx_binary::from_reader(rd).map_err(|e| e.to_string())
                } else {
                    rbx_xml::from_reader(rd, xml_options(xml_mode).1).map_err(|e| e.to_string())
                }
            });
            rep.count(&format!("reader-kinds.{}", kname));
            match alt {
                Ok(Ok(d2)) => {
                    let mut dump2 = canon::with_nan_class(nan_class, || canon::dump_decoded(&d2));
                    let mut dump1 = dump.clone();
                    // repeated (gap-filled) ids are regenerated on every decode, by design
                    canon::mask_unique_id(&mut dump1);
                    canon::mask_unique_id(&mut dump2);
                    if let Some((path, a, b)) = canon::diff(&dump1, &dump2) {
                        violated = true;
                        rep.violation(
                            &format!("{}:reader-kind:{}:differs", prop, kname),
                            &format!("the same bytes decode differently through a {} reader at {}: slice {} / there {}", kname, path, a, b),
                            replay.clone(),
                            detail_base.clone(),
                        );
                    }
                }
                Ok(Err(e)) => {
                    violated = true;
                    rep.violation(
                        &format!("{}:reader-kind:{}:error", prop, kname),
                        &format!("bytes that decode from a slice are rejected through a {} reader: {}", kname, e),
                        replay.clone(),
                        detail_base.clone(),
                    );
                }
                Err(p) => {
                    violated = true;
                    rep.violation(&format!("{}:read:{}", prop, panic_sig(&p)), &format!("deserializer panicked through a {} reader: {}", kname, p.msg), replay.clone(), detail_base.clone());
                }
            }
        }
        // the same tree written through sinks that are not a Vec (a few bytes accepted per call; a small BufWriter in front
        // of a write()-only sink), and the bytes decoded on a freshly started thread: neither may change anything
        if index % 4 == 1 {
            struct Trickle(Vec<u8>, usize);
            impl std::io::Write for Trickle {
                fn write(&mut self, b: &[u8]) -> std::io::Result<usize> {
                    let n = b.len().min(self.1);
                    self.0.extend_from_slice(&b[..n]);
                    Ok(n)
                }
                fn flush(&mut self) -> std::io::Result<()> {
                    Ok(())
                }
            }
            let step = 1 + (index % 13) as usize;
            let comp = [CompressionType::Lz4, CompressionType::None, CompressionType::Zstd].into_iter().find(|c| comp_name(*c) == vname.as_str());
            let outs: Vec<(&str, Result<Result<Vec<u8>, String>, crate::report::PanicInfo>)> = vec![
                ("few-bytes-per-call", catch(|| {
                    let mut w = Trickle(vec![], step);
                    match comp {
                        Some(c) => rbx_binary::Serializer::new().compression_type(c).serialize(&mut w, &built.dom, &sel_refs).map_err(|e| e.to_string())?,
                        None => rbx_xml::to_writer(&mut w, &built.dom, &sel_refs, xml_options(xml_mode).0).map_err(|e| e.to_string())?,
                    }
                    Ok(w.0)
                })),
                ("small-bufwriter", catch(|| {
                    let mut w = std::io::BufWriter::with_capacity(16 + step, Trickle(vec![], usize::MAX));
                    match comp {
                        Some(c) => rbx_binary::Serializer::new().compression_type(c).serialize(&mut w, &built.dom, &sel_refs).map_err(|e| e.to_string())?,
                        None => rbx_xml::to_writer(&mut w, &built.dom, &sel_refs, xml_options(xml_mode).0).map_err(|e| e.to_string())?,
                    }
                    w.into_inner().map(|t| t.0).map_err(|e| e.to_string())
                })),
            ];
            for (kind, o) in outs {
                rep.count(&format!("writer-kinds.{}", kind));
                let problem = match o {
                    Ok(Ok(b)) if b == bytes => None,
                    Ok(Ok(b)) => Some(format!("{} bytes, {} into a Vec, and success was reported", b.len(), bytes.len())),
                    Ok(Err(e)) => Some(format!("failed: {}", e)),
                    Err(p) => Some(format!("panicked: {}", p.msg)),
                };
                if let Some(pr) = problem {
                    violated = true;
                    rep.violation(&format!("{}:writer-kind:{}", prop, kind), &format!("writing through a {} sink: {}", kind, pr), replay.clone(), detail_base.clone());
                }
            }
            let on_thread = std::thread::scope(|sc| {
                sc.spawn(|| {
                    catch(|| {
                        if fmt == Fmt::Binary {
                            rbx_binary::from_reader(&bytes[..]).map_err(|e| e.to_string())
                        } else {
                            rbx_xml::from_reader(&bytes[..], xml_options(xml_mode).1).map_err(|e| e.to_string())
                        }
                        .map(|d| {
                            let mut j = canon::with_nan_class(nan_class, || canon::dump_decoded(&d));
                            canon::mask_unique_id(&mut j);
                            j
                        })
                    })
                })
                .join()
            });
            rep.count("decoded-on-another-thread");
            let mut base = dump.clone();
            canon::mask_unique_id(&mut base);
            let problem = match on_thread {
                Ok(Ok(Ok(j))) => canon::diff(&base, &j).map(|(path, a, b)| format!("differs at {}: {} / {}", path, a, b)),
                Ok(Ok(Err(e))) => Some(format!("error: {}", e)),
                Ok(Err(p)) => Some(format!("panicked: {}", p.msg)),
                Err(_) => Some("the decoding thread died".into()),
            };
            if let Some(pr) = problem {
                violated = true;
                rep.violation(&format!("{}:other-thread", prop), &format!("decoding the same bytes on a freshly started thread: {}", pr), replay.clone(), detail_base.clone());
            }
        }
        // the other public entry points are documented as shorthands: they must agree with the ones used above
        if index % 4 == 0 {
            let mut probes: Vec<(&str, Result<Result<Option<J>, String>, crate::report::PanicInfo>)> = vec![];
            let dumpd = |d: rbx_dom_weak::WeakDom| {
                let mut j = canon::with_nan_class(nan_class, || canon::dump_decoded(&d));
                canon::mask_unique_id(&mut j);
                j
            };
            if fmt == Fmt::Binary {
                probes.push(("rbx_binary::Deserializer::new().deserialize", catch(|| rbx_binary::Deserializer::new().deserialize(&bytes[..]).map(|d| Some(dumpd(d))).map_err(|e| e.to_string()))));
                if vname == comp_name(CompressionType::Lz4) {
                    probes.push(("rbx_binary::to_writer", catch(|| {
                        let mut v = vec![];
                        rbx_binary::to_writer(&mut v, &built.dom, &sel_refs).map_err(|e| e.to_string())?;
                        if v != bytes {
                            return Err(format!("{} bytes, Serializer::new().serialize gives {}", v.len(), bytes.len()));
                        }
                        Ok(None)
                    })));
                }
            } else {
                let text = String::from_utf8_lossy(&bytes).into_owned();
                probes.push(("rbx_xml::from_str", catch(|| rbx_xml::from_str(&text, xml_options(xml_mode).1).map(|d| Some(dumpd(d))).map_err(|e| e.to_string()))));
                if xml_mode == XmlMode::Default {
                    probes.push(("rbx_xml::from_reader_default", catch(|| rbx_xml::from_reader_default(&bytes[..]).map(|d| Some(dumpd(d))).map_err(|e| e.to_string()))));
                    probes.push(("rbx_xml::from_str_default", catch(|| rbx_xml::from_str_default(&text).map(|d| Some(dumpd(d))).map_err(|e| e.to_string()))));
                    // with known classes and properties only, the strict behaviours must agree with the lenient default
                    probes.push(("EncodePropertyBehavior::ErrorOnUnknown", catch(|| {
                        let mut v = vec![];
                        rbx_xml::to_writer(&mut v, &built.dom, &sel_refs, rbx_xml::EncodeOptions::new().property_behavior(rbx_xml::EncodePropertyBehavior::ErrorOnUnknown)).map_err(|e| e.to_string())?;
                        if v != bytes {
                            return Err(format!("{} bytes, the default behaviour gives {}", v.len(), bytes.len()));
                        }
                        Ok(None)
                    })));
                    probes.push(("DecodePropertyBehavior::ErrorOnUnknown", catch(|| {
                        rbx_xml::from_reader(&bytes[..], rbx_xml::DecodeOptions::new().property_behavior(rbx_xml::DecodePropertyBehavior::ErrorOnUnknown)).map(|d| Some(dumpd(d))).map_err(|e| e.to_string())
                    })));
                    probes.push(("rbx_xml::to_writer_default", catch(|| {
                        let mut v = vec![];
                        rbx_xml::to_writer_default(&mut v, &built.dom, &sel_refs).map_err(|e| e.to_string())?;
                        if v != bytes {
                            return Err(format!("{} bytes, to_writer with default options gives {}", v.len(), bytes.len()));
                        }
                        Ok(None)
                    })));
                }
            }
            let mut base = dump.clone();
            canon::mask_unique_id(&mut base);
            for (name, out) in probes {
                rep.count(&format!("entry-points.{}", name));
                let problem = match out {
                    Err(p) => Some(format!("panicked: {}", p.msg)),
                    Ok(Err(e)) => Some(e),
                    Ok(Ok(Some(j))) => canon::diff(&base, &j).map(|(path, a, b)| format!("decodes differently at {}: {} / {}", path, a, b)),
                    Ok(Ok(None)) => None,
                };
                if let Some(pr) = problem {
                    violated = true;
                    rep.violation(&format!("{}:entry-point:{}", prop, name), &format!("{} disagrees with the entry point it abbreviates: {}", name, pr), replay.clone(), detail_base.clone());
                }
            }
        }
        match canon::with_nan_class(nan_class, || expect::compare(&exp, &dump, fmt == Fmt::Binary)) {
            None => rep.count("outcome.ok"),
            Some(m) => {
                violated = true;
                rep.count("outcome.mismatch");
                let known = crate::dbwalk::resolve(crate::dbwalk::db(), &m.class, &m.prop).is_some();
                let shared = shared_wire_conflict(&spec, &paths, &m.class, &m.prop);
                let sig = if let Some(w) = shared {
                    // two *canonical* descriptors of the database share one serialized name and the
                    // written instances of this class use both: a database quirk, keyed precisely
                    format!("{}:shared-wire-name:{}.{}", prop, m.class, w)
                } else {
                    format!(
                    "{}:{}:{}:{}",
                    prop,
                    m.kind,
                    m.vtype,
                    if m.prop.is_empty() { "-" } else if known { "known" } else { "unknown" }
                )
                };
                if verbose {
                    eprintln!("MISMATCH {} idx={} {:?}", sig, index, m);
                }
                rep.violation(
                    &sig,
                    &format!(
                        "round trip changed {} at {} ({}.{}): expected {} got {}",
                        m.kind, m.path, m.class, m.prop, m.expected, m.actual
                    ),
                    replay.clone(),
                    json!({"variant": vname, "mismatch": format!("{:?}", m), "spec": spec_summary(&spec, &sel)}),
                );
            }
        }
    }
    CaseOut { violated }
}

/// If written instances of `class` set two different canonical properties that travel under the
/// same wire name, and `back` is the name they come back under, return that wire name.
fn shared_wire_conflict(
    spec: &TreeSpec,
    paths: &std::collections::HashMap<usize, Vec<usize>>,
    class: &str,
    back: &str,
) -> Option<String> {
    let db = crate::dbwalk::db();
    let mut canon_by_wire: std::collections::BTreeMap<String, std::collections::BTreeSet<String>> = Default::default();
    for n in paths.keys() {
        let ns = &spec.nodes[*n];
        if ns.class != class {
            continue;
        }
        for (k, _) in &ns.props {
            if let Some(t) = crate::dbwalk::travel(db, class, k) {
                if t.back_name == back {
                    canon_by_wire
                        .entry(t.wire_name.clone())
                        .or_default()
                        .insert(t.resolved.canonical.name.to_string());
                }
            }
        }
    }
    canon_by_wire.into_iter().find(|(_, c)| c.len() > 1).map(|(w, _)| w)
}

/// class -> back name -> [wire name, wire type] for every database-known property in the written set.
fn wire_names(spec: &TreeSpec, paths: &std::collections::HashMap<usize, Vec<usize>>) -> J {
    let db = crate::dbwalk::db();
    let mut out = serde_json::Map::new();
    for n in paths.keys() {
        let ns = &spec.nodes[*n];
        for (k, _) in &ns.props {
            if let Some(t) = crate::dbwalk::travel(db, &ns.class, k) {
                let e = out.entry(ns.class.clone()).or_insert_with(|| json!({}));
                e[t.back_name.clone()] = json!([t.wire_name, format!("{:?}", t.wire_ty)]);
            }
        }
    }
    J::Object(out)
}

pub fn main(a: &Args, fmt: Fmt) {
    let seed = a.u64("seed", 1);
    let count = a.u64("count", 100);
    let shard = a.u64("shard", 0);
    let nshards = a.u64("nshards", 1);
    let out = a.str("out", "/dev/stdout");
    let mut rep = Report::new(if fmt == Fmt::Binary { "C01" } else { "C02" });
    if let Some(p) = a.kv.get("caselog") {
        rep.open_caselog(p);
    }
    if let Some(only) = a.kv.get("index") {
        let idx: u64 = only.parse().unwrap();
        rep.max_samples = 1;
        run_case(&mut rep, fmt, seed, idx, true);
    } else {
        let mut i = shard;
        while i < count {
            run_case(&mut rep, fmt, seed, i, a.flag("verbose"));
            i += nshards;
        }
    }
    rep.finish(&out);
}
