//! C18: SharedString interning under controlled schedules of real OS threads, plus stress.
//!
//! Real threads run the real code; at every yield point (operation entries taken by the harness
//! at the client boundary, and the two cfg-guarded hooks inside `new` / `Drop`) the calling thread
//! parks on a condvar and the controller releases exactly one thread at a time. Between two yield
//! points exactly one thread runs, so a schedule is the sequence of release choices and is
//! replayed deterministically from that choice string. Hooks sit outside the table's critical
//! section: a parked thread never holds the table lock.

use std::cell::Cell;
use std::collections::{HashMap, HashSet};
use std::hash::{Hash, Hasher};
use std::sync::{Arc, Condvar, Mutex};
use std::time::Duration;

use crate::domops::{Chooser, EnumCh, RandCh};
use crate::report::Report;
use crate::rng::Rng;
use crate::Args;
use rbx_dom_weak::types::SharedString;
use rbx_types::verif_hooks;
use serde_json::{json, Value as J};

#[derive(Clone, Copy, Debug, PartialEq, Eq, Hash, PartialOrd, Ord)]
pub enum SOp {
    New(u8),
    /// clone the handle in slot i
    Clone(u8),
    /// drop the handle in slot i
    Drop(u8),
}

pub type Prog = Vec<SOp>;

#[derive(Default)]
struct Shared {
    /// thread currently allowed to run (set by controller, cleared by the thread when it parks/finishes)
    turn: Option<usize>,
    running: Option<usize>,
    parked: Vec<bool>,
    finished: Vec<bool>,
    at: Vec<&'static str>,
    /// live handles: (thread, slot) -> (content id, buffer address)
    live: HashMap<(usize, usize), (u8, usize)>,
    errors: Vec<String>,
    trace: Vec<String>,
}

struct Ctl {
    st: Mutex<Shared>,
    cv: Condvar,
}

thread_local! {
    static TID: Cell<Option<usize>> = Cell::new(None);
}

static CTL: Mutex<Option<Arc<Ctl>>> = Mutex::new(None);

fn ctl() -> Option<Arc<Ctl>> {
    CTL.lock().unwrap().clone()
}

/// Park the calling controlled thread until the controller hands it the turn.
fn yield_here(point: &'static str) {
    let tid = match TID.with(|t| t.get()) {
        Some(t) => t,
        None => return,
    };
    let c = match ctl() {
        Some(c) => c,
        None => return,
    };
    let mut s = c.st.lock().unwrap();
    s.parked[tid] = true;
    s.at[tid] = point;
    s.running = None;
    c.cv.notify_all();
    while s.turn != Some(tid) {
        s = c.cv.wait(s).unwrap();
    }
    s.turn = None;
    s.parked[tid] = false;
    s.running = Some(tid);
}

fn hash_of(s: &SharedString) -> u64 {
    let mut h = std::collections::hash_map::DefaultHasher::new();
    Hash::hash(s, &mut h);
    h.finish()
}

fn content_bytes(run_tag: u64, c: u8) -> Vec<u8> {
    format!("c18-{}-{}", run_tag, c).into_bytes()
}

fn worker(tid: usize, prog: Prog, run_tag: u64, c: Arc<Ctl>) {
    TID.with(|t| t.set(Some(tid)));
    let mut slots: Vec<Option<SharedString>> = vec![];
    let mut first = true;
    for op in prog {
        match op {
            SOp::New(content) => {
                // the hook inside `new` ("new:before_lock") is this operation's yield point
                let bytes = content_bytes(run_tag, content);
                let h = SharedString::new(bytes.clone());
                let ptr = h.data().as_ptr() as usize;
                let mut s = c.st.lock().unwrap();
                if h.data() != &bytes[..] {
                    s.errors.push(format!("data-mismatch: handle created from content {} exposes other bytes", content));
                }
                for (i, other) in slots.iter().enumerate() {
                    if let Some(o) = other {
                        if o.data() == h.data() && (o != &h || hash_of(o) != hash_of(&h)) {
                            s.errors.push(format!("eq-hash: equal contents (slot {}) do not compare/hash equal", i));
                        }
                    }
                }
                s.live.insert((tid, slots.len()), (content, ptr));
                s.trace.push(format!("T{} new({}) -> slot {} buf {:x}", tid, content, slots.len(), ptr & 0xffffff));
                drop(s);
                slots.push(Some(h));
            }
            SOp::Clone(i) => {
                yield_here("clone:entry");
                let h = slots[i as usize].as_ref().expect("program clones an empty slot").clone();
                let ptr = h.data().as_ptr() as usize;
                let content = {
                    let s = c.st.lock().unwrap();
                    s.live[&(tid, i as usize)].0
                };
                let mut s = c.st.lock().unwrap();
                if h.data() != &content_bytes(run_tag, content)[..] {
                    s.errors.push("data-mismatch: clone exposes other bytes".into());
                }
                s.live.insert((tid, slots.len()), (content, ptr));
                s.trace.push(format!("T{} clone(slot {}) -> slot {}", tid, i, slots.len()));
                drop(s);
                slots.push(Some(h));
            }
            SOp::Drop(i) => {
                // from here on the handle no longer counts as live
                {
                    let mut s = c.st.lock().unwrap();
                    s.live.remove(&(tid, i as usize));
                    s.trace.push(format!("T{} drop(slot {}) begins", tid, i));
                }
                yield_here("drop:entry");
                let h = slots[i as usize].take().expect("program drops an empty slot");
                drop(h); // may park at "drop:released_before_lock"
                let mut s = c.st.lock().unwrap();
                s.trace.push(format!("T{} drop(slot {}) done", tid, i));
            }
        }
        let _ = first;
        first = false;
    }
    let mut s = c.st.lock().unwrap();
    if slots.iter().any(|x| x.is_some()) {
        s.errors.push("internal: program not closed".into());
    }
    s.finished[tid] = true;
    s.running = None;
    c.cv.notify_all();
}

fn hook(name: &'static str) {
    yield_here(name);
}

pub struct SchedResult {
    pub errors: Vec<String>,
    pub trace: Vec<String>,
    pub decisions: usize,
    pub inconclusive: Option<String>,
}

static RUN_TAG: std::sync::atomic::AtomicU64 = std::sync::atomic::AtomicU64::new(0);

/// Execute `progs` (one per thread) under the schedule chosen by `ch`.
pub fn run_schedule(progs: &[Prog], ch: &mut dyn Chooser) -> SchedResult {
    let n = progs.len();
    let run_tag = RUN_TAG.fetch_add(1, std::sync::atomic::Ordering::SeqCst) + ((std::process::id() as u64) << 32);
    let c = Arc::new(Ctl {
        st: Mutex::new(Shared {
            turn: None,
            running: None,
            parked: vec![false; n],
            finished: vec![false; n],
            at: vec!["start"; n],
            live: HashMap::new(),
            errors: vec![],
            trace: vec![],
        }),
        cv: Condvar::new(),
    });
    let base_len = verif_hooks::cache_len();
    *CTL.lock().unwrap() = Some(c.clone());
    verif_hooks::set_yield(Some(hook));
    let handles: Vec<_> = progs
        .iter()
        .enumerate()
        .map(|(tid, p)| {
            let p = p.clone();
            let c2 = c.clone();
            std::thread::spawn(move || {
                // every program starts with `new`, whose hook is the thread's first yield point
                worker(tid, p, run_tag, c2)
            })
        })
        .collect();
    let mut decisions = 0usize;
    let mut inconclusive = None;
    loop {
        let mut s = c.st.lock().unwrap();
        // wait for quiescence: nobody running, everybody parked or finished
        let deadline = std::time::Instant::now() + Duration::from_secs(45);
        loop {
            let quiet = s.running.is_none() && s.turn.is_none() && (0..n).all(|i| s.parked[i] || s.finished[i]);
            if quiet {
                break;
            }
            let (g, to) = c.cv.wait_timeout(s, Duration::from_millis(200)).unwrap();
            s = g;
            if to.timed_out() && std::time::Instant::now() > deadline {
                // Exactly one thread has been released and every other one is parked at a yield point (outside any lock of
                // the code under test) or has finished: if that one thread neither reaches its next yield point nor
                // finishes within the deadline, it is blocked on something only it could release, or it spins - the
                // operation hangs. Any other picture at the deadline says nothing about the code (inconclusive).
                let others_quiet = (0..n).all(|i| Some(i) == s.running || Some(i) == s.turn || s.parked[i] || s.finished[i]);
                let what = format!("after 45 s: parked {:?} finished {:?} running {:?} turn {:?}", s.parked, s.finished, s.running, s.turn);
                if others_quiet && (s.running.is_some() || s.turn.is_some()) {
                    s.errors.push(format!("deadlock: the one released thread made no progress while all others were parked ({})", what));
                    HUNG.store(true, std::sync::atomic::Ordering::SeqCst);
                }
                inconclusive = Some(format!("watchdog: threads not quiescent {}", what));
                break;
            }
        }
        if inconclusive.is_some() {
            break;
        }
        // ---- oracle at the quiescent point
        let mut by_content: HashMap<u8, HashSet<usize>> = HashMap::new();
        for ((_t, _slot), (content, ptr)) in s.live.iter() {
            by_content.entry(*content).or_default().insert(*ptr);
        }
        for (content, ptrs) in &by_content {
            if ptrs.len() > 1 {
                let msg = format!("dedup: {} live handles of content {} sit on {} different buffers", s.live.values().filter(|(c2, _)| c2 == content).count(), content, ptrs.len());
                if !s.errors.iter().any(|e| e.starts_with("dedup")) {
                    s.errors.push(msg);
                }
            }
        }
        let runnable: Vec<usize> = (0..n).filter(|i| s.parked[*i] && !s.finished[*i]).collect();
        if runnable.is_empty() {
            if (0..n).all(|i| s.finished[i]) {
                break;
            }
            s.errors.push("deadlock: no thread is runnable but not all finished".into());
            break;
        }
        let pick = runnable[ch.choose(runnable.len())];
        decisions += 1;
        let at = s.at[pick];
        s.trace.push(format!("  sched -> T{} (at {})", pick, at));
        s.turn = Some(pick);
        c.cv.notify_all();
    }
    verif_hooks::set_yield(None);
    if inconclusive.is_some() {
        // leak the threads; the process is going to report inconclusive
        *CTL.lock().unwrap() = None;
        let s = c.st.lock().unwrap();
        return SchedResult { errors: s.errors.clone(), trace: s.trace.clone(), decisions, inconclusive };
    }
    for h in handles {
        let _ = h.join();
    }
    *CTL.lock().unwrap() = None;
    let mut s = c.st.lock().unwrap();
    let end_len = verif_hooks::cache_len();
    if end_len != base_len {
        s.errors.push(format!("table-not-empty: intern table holds {} entries after every handle was dropped (was {} before the run)", end_len, base_len));
    }
    SchedResult { errors: s.errors.clone(), trace: s.trace.clone(), decisions, inconclusive: None }
}

// ---------------------------------------------------------------- programs

/// All well-formed closed thread programs with at most `len` operations before closing, over
/// `contents` contents. Slots are numbered in creation order; a thread may only clone / drop
/// handles it owns.
pub fn thread_programs(len: usize, contents: u8) -> Vec<Prog> {
    fn rec(cur: &mut Prog, live: &mut Vec<u8>, nslots: u8, len: usize, contents: u8, out: &mut Vec<Prog>) {
        if !cur.is_empty() {
            // close: drop everything still alive, oldest first
            let mut p = cur.clone();
            for s in live.iter() {
                p.push(SOp::Drop(*s));
            }
            out.push(p);
        }
        if cur.len() >= len {
            return;
        }
        for c in 0..contents {
            cur.push(SOp::New(c));
            live.push(nslots);
            rec(cur, live, nslots + 1, len, contents, out);
            live.pop();
            cur.pop();
        }
        for (i, s) in live.clone().iter().enumerate() {
            let _ = i;
            cur.push(SOp::Clone(*s));
            live.push(nslots);
            rec(cur, live, nslots + 1, len, contents, out);
            live.pop();
            cur.pop();
        }
        for (i, s) in live.clone().iter().enumerate() {
            cur.push(SOp::Drop(*s));
            let removed = live.remove(i);
            rec(cur, live, nslots, len, contents, out);
            live.insert(i, removed);
            cur.pop();
        }
    }
    let mut out = vec![];
    rec(&mut vec![], &mut vec![], 0, len, contents, &mut out);
    out.sort();
    out.dedup();
    out
}

fn prog_str(p: &Prog) -> String {
    p.iter()
        .map(|o| match o {
            SOp::New(c) => format!("new {}", (b'a' + c) as char),
            SOp::Clone(s) => format!("clone s{}", s),
            SOp::Drop(s) => format!("drop s{}", s),
        })
        .collect::<Vec<_>>()
        .join("; ")
}

fn parse_prog(s: &str) -> Prog {
    s.split(';')
        .filter_map(|t| {
            let t = t.trim();
            if let Some(c) = t.strip_prefix("new ") {
                Some(SOp::New(c.as_bytes()[0] - b'a'))
            } else if let Some(c) = t.strip_prefix("clone s") {
                Some(SOp::Clone(c.parse().ok()?))
            } else if let Some(c) = t.strip_prefix("drop s") {
                Some(SOp::Drop(c.parse().ok()?))
            } else {
                None
            }
        })
        .collect()
}

fn classify(e: &str) -> &'static str {
    if e.starts_with("dedup") {
        "dedup"
    } else if e.starts_with("table-not-empty") {
        "table-not-empty"
    } else if e.starts_with("deadlock") {
        "deadlock"
    } else if e.starts_with("data-mismatch") {
        "data-mismatch"
    } else if e.starts_with("eq-hash") {
        "eq-hash"
    } else {
        "other"
    }
}

/// Set when a schedule ended with a thread of the code under test hung: the process cannot run further schedules (the
/// hung thread may hold the intern table's lock), it reports what it has and ends.
static HUNG: std::sync::atomic::AtomicBool = std::sync::atomic::AtomicBool::new(false);

/// Enumerate every schedule of one program set.
fn explore(progs: &[Prog], rep: &mut Report, max_schedules: u64) -> (u64, u64) {
    let mut ch = EnumCh { stack: vec![], pos: 0 };
    let mut n = 0u64;
    let mut bad = 0u64;
    let label = progs.iter().map(prog_str).collect::<Vec<_>>().join(" || ");
    loop {
        ch.pos = 0;
        let r = run_schedule(progs, &mut ch);
        n += 1;
        rep.evaluations += 1;
        if let Some(why) = r.inconclusive {
            if HUNG.load(std::sync::atomic::Ordering::SeqCst) {
                let choices: Vec<usize> = ch.stack.iter().map(|(_, i)| *i).collect();
                for e in &r.errors {
                    rep.violation(
                        &format!("C18:{}", classify(e)),
                        &format!("program [{}]: {}", label, e),
                        json!({"cmd": "sstr", "mode": "replay", "programs": label, "choices": format!("{:?}", choices)}),
                        json!({"trace": r.trace}),
                    );
                }
                bad += 1;
            } else {
                rep.notes.push(format!("INCONCLUSIVE {}", why));
            }
            break;
        }
        if r.decisions >= 2 {
            let choices: Vec<usize> = ch.stack.iter().map(|(_, i)| *i).collect();
            rep.nontrivial(crate::rng::fnv64(format!("{}|{:?}", label, choices).as_bytes()));
        }
        if !r.errors.is_empty() {
            bad += 1;
            for e in &r.errors {
                let choices: Vec<usize> = ch.stack.iter().map(|(_, i)| *i).collect();
                rep.violation(
                    &format!("C18:{}", classify(e)),
                    &format!("program [{}]: {}", label, e),
                    json!({"cmd": "sstr", "mode": "replay", "programs": label, "choices": format!("{:?}", choices)}),
                    json!({"trace": r.trace}),
                );
            }
        }
        if n == 1 {
            rep.sample(json!({"programs": label, "first_schedule_trace": r.trace.iter().take(40).collect::<Vec<_>>()}));
        }
        if !ch.advance() || n >= max_schedules {
            if n >= max_schedules {
                rep.count("programs.truncated_at_max_schedules");
            }
            break;
        }
    }
    (n, bad)
}

/// Pairs of threads that release the LAST TWO handles of one buffer at (as nearly as real threads allow) the same
/// instant: one thread creates a unique string and hands a clone to its partner, both spin to a rendezvous and drop.
/// Whatever decides "I was the last one" inside Drop is hit from both sides at once; every string is unique, so an
/// entry whose clean-up nobody ran stays in the table until the final size check.
fn rendezvous_drops(rep: &mut Report, pairs: usize, rounds: usize, seed: u64) {
    use std::sync::atomic::{AtomicU64, Ordering};
    let base_len = verif_hooks::cache_len();
    let tag = RUN_TAG.fetch_add(1, std::sync::atomic::Ordering::SeqCst) + ((std::process::id() as u64) << 32);
    let mut hs = vec![];
    let bad = Arc::new(Mutex::new(Vec::<String>::new()));
    for p in 0..pairs {
        let slot: Arc<Mutex<Option<SharedString>>> = Arc::new(Mutex::new(None));
        let go = Arc::new(AtomicU64::new(0));
        let ack = Arc::new(AtomicU64::new(0));
        {
            let (slot, go, ack) = (slot.clone(), go.clone(), ack.clone());
            hs.push(std::thread::spawn(move || {
                for k in 1..=rounds as u64 {
                    let mut bytes = content_bytes(tag, 254);
                    bytes.extend_from_slice(&(p as u32).to_le_bytes());
                    bytes.extend_from_slice(&k.to_le_bytes());
                    bytes.extend_from_slice(&seed.to_le_bytes());
                    let h = SharedString::new(bytes);
                    *slot.lock().unwrap() = Some(h.clone());
                    go.store(k, Ordering::Release);
                    while ack.load(Ordering::Acquire) != k {
                        std::hint::spin_loop();
                    }
                    drop(h);
                }
            }));
        }
        {
            let bad = bad.clone();
            hs.push(std::thread::spawn(move || {
                for k in 1..=rounds as u64 {
                    while go.load(Ordering::Acquire) != k {
                        std::hint::spin_loop();
                    }
                    let h = slot.lock().unwrap().take();
                    ack.store(k, Ordering::Release);
                    match h {
                        Some(h) => drop(h),
                        None => bad.lock().unwrap().push("rendezvous slot empty".into()),
                    }
                }
            }));
        }
    }
    for h in hs.drain(..) {
        if h.join().is_err() {
            bad.lock().unwrap().push("panic: a rendezvous thread panicked".into());
        }
    }
    // swell: one thread repeatedly holds a few thousand distinct strings alive at once and drops them all (so the table
    // grows past several capacity steps and becomes sparse again), while the other threads keep asking for a content that
    // a keeper handle holds alive the whole time: every one of those handles must sit on the keeper's buffer
    {
        let keeper_bytes = {
            let mut b = content_bytes(tag, 251);
            b.extend_from_slice(&seed.to_le_bytes());
            b
        };
        let keeper = SharedString::new(keeper_bytes.clone());
        let kp = keeper.data().as_ptr() as usize;
        let stop = Arc::new(std::sync::atomic::AtomicBool::new(false));
        let mut probes = vec![];
        for _ in 0..pairs.max(2) {
            let (stop, bad, kb) = (stop.clone(), bad.clone(), keeper_bytes.clone());
            probes.push(std::thread::spawn(move || {
                let mut n = 0u64;
                while !stop.load(Ordering::Relaxed) {
                    let h = SharedString::new(kb.clone());
                    if h.data().as_ptr() as usize != kp {
                        bad.lock().unwrap().push("dedup: a handle of the keeper's content sits on another buffer while the table is being grown and emptied".into());
                        break;
                    }
                    n += 1;
                }
                n
            }));
        }
        let cycles = 24 + (rounds / 10_000).min(60);
        for c in 0..cycles {
            let held: Vec<SharedString> = (0..[700usize, 1500, 4000][c % 3])
                .map(|i| {
                    let mut b = content_bytes(tag, 250);
                    b.extend_from_slice(&(c as u32).to_le_bytes());
                    b.extend_from_slice(&(i as u32).to_le_bytes());
                    b.extend_from_slice(&seed.to_le_bytes());
                    SharedString::new(b)
                })
                .collect();
            drop(held);
        }
        stop.store(true, Ordering::Relaxed);
        let mut asked = 0u64;
        for p in probes {
            asked += p.join().unwrap_or(0);
        }
        rep.add("stress.swell_cycles", cycles as u64);
        rep.add("stress.swell_keeper_lookups", asked);
        drop(keeper);
    }
    // unwinding: threads that die (for a reason of their own) while holding the last handles of unique strings. Their
    // handles are dropped by the unwinder; the table must be just as empty afterwards as after an orderly exit.
    {
        let mut dying = vec![];
        for t in 0..pairs.max(2) * 4 {
            dying.push(std::thread::spawn(move || {
                let _ = crate::report::catch(|| {
                    let held: Vec<SharedString> = (0..25)
                        .map(|i| {
                            let mut b = content_bytes(tag, 249);
                            b.extend_from_slice(&(t as u32).to_le_bytes());
                            b.extend_from_slice(&(i as u32).to_le_bytes());
                            b.extend_from_slice(&seed.to_le_bytes());
                            SharedString::new(b)
                        })
                        .collect();
                    let shared_with_nobody = held.len();
                    if shared_with_nobody > 0 {
                        panic!("worker gives up (deliberate, part of the workload)");
                    }
                    drop(held);
                });
            }));
        }
        for d in dying {
            let _ = d.join();
        }
        rep.add("stress.handles_dropped_by_unwinding", (pairs.max(2) * 4 * 25) as u64);
    }
    // ping-pong: both threads of a pair run new()+drop of the SAME content a few times, in step, then move on to a
    // content that never comes back. One thread's table clean-up keeps meeting the other's new() and drop of that
    // content (slot dead / re-populated / released again), and whatever is left behind when the pair moves on stays.
    for p in 0..pairs {
        let done = [Arc::new(AtomicU64::new(0)), Arc::new(AtomicU64::new(0))];
        for side in 0..2usize {
            let mine = done[side].clone();
            let other = done[1 - side].clone();
            hs.push(std::thread::spawn(move || {
                let mut x: u64 = 0x9E3779B97F4A7C15 ^ ((p as u64) << 8 | side as u64);
                for k in 1..=rounds as u64 {
                    let mut bytes = content_bytes(tag, 252);
                    bytes.extend_from_slice(&(p as u32).to_le_bytes());
                    bytes.extend_from_slice(&k.to_le_bytes());
                    bytes.extend_from_slice(&seed.to_le_bytes());
                    for _ in 0..3 {
                        let h = SharedString::new(bytes.clone());
                        x ^= x << 13;
                        x ^= x >> 7;
                        x ^= x << 17;
                        for _ in 0..(x % 24) {
                            std::hint::spin_loop();
                        }
                        drop(h);
                    }
                    mine.store(k, Ordering::Release);
                    while other.load(Ordering::Acquire) < k {
                        std::hint::spin_loop();
                    }
                }
            }));
        }
    }
    for h in hs {
        if h.join().is_err() {
            bad.lock().unwrap().push("panic: a rendezvous thread panicked".into());
        }
    }
    rep.evaluations += 1;
    rep.add("stress.rendezvous_last_two_drops", (pairs * rounds) as u64);
    rep.add("stress.pingpong_contents", (pairs * rounds) as u64);
    let end_len = verif_hooks::cache_len();
    let mut errs = bad.lock().unwrap().clone();
    if end_len != base_len {
        errs.push(format!("table-not-empty: {} entries left after {} simultaneous last-two drops (was {})", end_len, pairs * rounds, base_len));
    }
    errs.dedup_by_key(|e| classify(e));
    for e in errs {
        rep.violation(
            &format!("C18:stress:{}", classify(&e)),
            &format!("rendezvous drops ({} pairs): {}", pairs, e),
            json!({"cmd": "sstr", "mode": "stress", "seed": seed, "phase": "rendezvous"}),
            J::Null,
        );
    }
}

fn heartbeat_only(_: &'static str) {
    HEARTBEAT.fetch_add(1, std::sync::atomic::Ordering::Relaxed);
}

static HEARTBEAT: std::sync::atomic::AtomicU64 = std::sync::atomic::AtomicU64::new(0);
static INJECT: std::sync::atomic::AtomicBool = std::sync::atomic::AtomicBool::new(false);
static STRESS_DONE: std::sync::atomic::AtomicBool = std::sync::atomic::AtomicBool::new(false);

/// The uncontrolled phases have no scheduler that could notice a deadlock. A side thread watches the heartbeat that every
/// SharedString operation gives at its hook: 16 threads that do nothing but create and drop strings and have not passed a
/// single hook for two minutes are blocked (or spinning) inside the code under test. It writes the report itself and ends
/// the process, because the main thread is waiting for the stuck workers.
fn start_no_progress_watchdog(out: String) {
    std::thread::spawn(move || {
        let mut last = HEARTBEAT.load(std::sync::atomic::Ordering::Relaxed);
        let mut since = std::time::Instant::now();
        loop {
            std::thread::sleep(Duration::from_secs(2));
            if STRESS_DONE.load(std::sync::atomic::Ordering::SeqCst) {
                return;
            }
            let now = HEARTBEAT.load(std::sync::atomic::Ordering::Relaxed);
            if now != last {
                last = now;
                since = std::time::Instant::now();
            } else if since.elapsed() > Duration::from_secs(120) && now > 0 {
                let what = format!("stress: no SharedString operation passed a hook for 120 s after {} operations: the worker threads are blocked inside new / clone / drop", now);
                let j = json!({"prop": "C18", "evaluations": 1, "digests": [], "coverage": {"stress.operations_before_the_hang": now}, "samples": [],
                    "violations": [{"sig": "C18:stress:deadlock", "what": what, "replay": {"cmd": "sstr", "mode": "stress"}, "detail": J::Null, "count": 1}], "notes": [], "extra": {}});
                let _ = std::fs::write(&out, serde_json::to_vec(&j).unwrap());
                std::process::exit(0);
            }
        }
    });
}

fn stress(rep: &mut Report, threads: usize, ops: usize, contents: usize, seed: u64, inject: bool) {
    // uncontrolled run: real scheduler, random yields injected at the hooks
    fn jitter(_: &'static str) {
        // every operation of the code under test passes a hook: the heartbeat of the no-progress watchdog
        HEARTBEAT.fetch_add(1, std::sync::atomic::Ordering::Relaxed);
        if !INJECT.load(std::sync::atomic::Ordering::Relaxed) {
            return;
        }
        thread_local! { static X: Cell<u64> = Cell::new(0x9E3779B97F4A7C15); }
        let v = X.with(|x| {
            let mut v = x.get();
            v ^= v << 13;
            v ^= v >> 7;
            v ^= v << 17;
            x.set(v);
            v
        });
        match v % 8 {
            0 => std::thread::yield_now(),
            1 => std::thread::sleep(Duration::from_micros(v % 50)),
            _ => {}
        }
    }
    let base_len = verif_hooks::cache_len();
    INJECT.store(inject, std::sync::atomic::Ordering::Relaxed);
    verif_hooks::set_yield(Some(jitter));
    let tag = RUN_TAG.fetch_add(1, std::sync::atomic::Ordering::SeqCst) + ((std::process::id() as u64) << 32);
    let rounds = 40usize;
    let per_round = ops / threads / rounds;
    let errors = Arc::new(Mutex::new(Vec::<String>::new()));
    let barrier = Arc::new(std::sync::Barrier::new(threads));
    let shared_ptrs: Arc<Mutex<HashMap<(usize, usize), usize>>> = Arc::new(Mutex::new(HashMap::new()));
    // Continuous oracle: a registry of the buffer addresses of all handles that are live right now.
    // A handle is registered after its constructing call returned and unregistered before its drop
    // begins, so every registered handle is live; two registered handles of one content on
    // different buffers are therefore a violation at that instant (no barrier needed).
    let registry: Arc<Mutex<HashMap<usize, HashMap<usize, usize>>>> = Arc::new(Mutex::new(HashMap::new()));
    let churn = contents > 3;
    let hs: Vec<_> = (0..threads)
        .map(|t| {
            let errors = errors.clone();
            let barrier = barrier.clone();
            let shared_ptrs = shared_ptrs.clone();
            let registry = registry.clone();
            std::thread::spawn(move || {
                let mut rng = Rng::derive(seed, "sstr-stress", t as u64);
                let mut held: Vec<(usize, SharedString)> = vec![];
                let reg = |c: usize, h: &SharedString, errors: &Mutex<Vec<String>>| {
                    let p = h.data().as_ptr() as usize;
                    let mut r = registry.lock().unwrap();
                    let e = r.entry(c).or_default();
                    *e.entry(p).or_insert(0) += 1;
                    if e.len() > 1 {
                        errors.lock().unwrap().push(format!("dedup: content {} is live on {} different buffers at once", c, e.len()));
                    }
                };
                let unreg = |c: usize, h: &SharedString| {
                    let p = h.data().as_ptr() as usize;
                    let mut r = registry.lock().unwrap();
                    if let Some(e) = r.get_mut(&c) {
                        if let Some(n) = e.get_mut(&p) {
                            *n -= 1;
                            if *n == 0 {
                                e.remove(&p);
                            }
                        }
                    }
                };
                for round in 0..rounds {
                    for _ in 0..per_round {
                        match rng.below(5) {
                            4 if held.len() >= 2 => {
                                // a handle is overwritten in place (Clone::clone_from, which containers forward to their
                                // elements): the old contents are released exactly as if the handle had been dropped
                                let i = rng.below(held.len());
                                let j = rng.below(held.len());
                                if i != j {
                                    let (cj, hj) = (held[j].0, held[j].1.clone());
                                    let (ci, old) = (held[i].0, held[i].1.data().as_ptr() as usize);
                                    let _ = old;
                                    unreg(ci, &held[i].1);
                                    held[i].1.clone_from(&hj);
                                    held[i].0 = cj;
                                    reg(cj, &held[i].1, &errors);
                                    if held[i].1 != hj || held[i].1.data() != hj.data() {
                                        errors.lock().unwrap().push("data-mismatch: clone_from".into());
                                    }
                                }
                            }
                            0 | 1 | 4 => {
                                let c = rng.below(contents);
                                let bytes = content_bytes(tag, c as u8);
                                let h = SharedString::new(bytes.clone());
                                if h.data() != &bytes[..] {
                                    errors.lock().unwrap().push("data-mismatch: new".into());
                                }
                                reg(c, &h, &errors);
                                held.push((c, h));
                            }
                            2 if !held.is_empty() => {
                                let i = rng.below(held.len());
                                let (c, h) = (held[i].0, held[i].1.clone());
                                reg(c, &h, &errors);
                                held.push((c, h));
                            }
                            _ if !held.is_empty() => {
                                let i = rng.below(held.len());
                                let (c, h) = held.swap_remove(i);
                                unreg(c, &h);
                                drop(h);
                            }
                            _ => {}
                        }
                        // churn mode: hold very little so contents keep dying and being re-created concurrently
                        let cap = if churn { 2 } else { 64 };
                        while held.len() > cap {
                            let (c, h) = held.pop().unwrap();
                            unreg(c, &h);
                            drop(h);
                        }
                    }
                    // quiescent point: everybody publishes the buffer address per content it holds
                    barrier.wait();
                    {
                        let mut sp = shared_ptrs.lock().unwrap();
                        for (c, h) in &held {
                            let p = h.data().as_ptr() as usize;
                            if let Some(prev) = sp.insert((round, *c), p) {
                                if prev != p {
                                    errors.lock().unwrap().push(format!("dedup: round {} content {} lives on two buffers", round, c));
                                }
                            }
                        }
                    }
                    barrier.wait();
                }
                for (c, h) in held.drain(..) {
                    unreg(c, &h);
                    drop(h);
                }
                // unique-contents phase: every string lives and dies exactly once while the other threads
                // keep the table busy, so an entry whose clean-up was skipped or lost is never re-used by a
                // later new() and stays visible in the final table size
                barrier.wait();
                for k in 0..(per_round * rounds / 4).max(1000) {
                    let mut bytes = content_bytes(tag, 255);
                    bytes.extend_from_slice(&(t as u32).to_le_bytes());
                    bytes.extend_from_slice(&(k as u64).to_le_bytes());
                    let h = SharedString::new(bytes.clone());
                    let h2 = h.clone();
                    if h2.data() != &bytes[..] {
                        errors.lock().unwrap().push("data-mismatch: unique".into());
                    }
                    drop(h);
                    drop(h2);
                    if k % 4 == 0 {
                        // the other ways a handle ends: overwritten in place by clone_from (directly and through Vec / Option,
                        // which forward to their elements), by assignment, by mem::replace, taken out of an Option
                        let uniq = |n: u8| {
                            let mut b = content_bytes(tag, 250 - n);
                            b.extend_from_slice(&(t as u32).to_le_bytes());
                            b.extend_from_slice(&(k as u64).to_le_bytes());
                            b
                        };
                        let src = SharedString::new(uniq(0));
                        let mut a = SharedString::new(uniq(1));
                        a.clone_from(&src);
                        let mut v = vec![SharedString::new(uniq(2)), SharedString::new(uniq(3))];
                        let w = vec![src.clone(), src.clone(), src.clone()];
                        v.clone_from(&w);
                        let mut o = Some(SharedString::new(uniq(4)));
                        o.clone_from(&Some(src.clone()));
                        let mut e = SharedString::new(uniq(5));
                        e = src.clone();
                        let mut f = SharedString::new(uniq(6));
                        let old = std::mem::replace(&mut f, src.clone());
                        drop(old);
                        let mut g = Some(SharedString::new(uniq(7)));
                        let taken = g.take();
                        drop(taken);
                        if a.data() != src.data() || v.iter().any(|x| x.data() != src.data()) || o.as_ref().map(|x| x.data()) != Some(src.data()) || e != src || f != src {
                            errors.lock().unwrap().push("data-mismatch: overwritten handle".into());
                        }
                    }
                }
                // sliding-alphabet phase: all threads create / clone / drop the SAME content at about the same time, and
                // the content changes every few operations and never comes back. Races between one thread's clean-up
                // and another thread's new()/drop of that content happen as in the churn phase, but an entry left
                // behind is never re-used, so it is still there at the final table-size check.
                let slide = (per_round * rounds / 4).max(4000);
                for k in 0..slide {
                    if k % 1024 == 0 {
                        barrier.wait();
                    }
                    let mut bytes = content_bytes(tag, 253);
                    bytes.extend_from_slice(&((k / 8) as u64).to_le_bytes());
                    let h = SharedString::new(bytes);
                    if rng.chance(1, 3) {
                        let h2 = h.clone();
                        drop(h);
                        drop(h2);
                    } else {
                        drop(h);
                    }
                }
            })
        })
        .collect();
    for h in hs {
        if h.join().is_err() {
            errors.lock().unwrap().push("panic: a stress thread panicked".into());
        }
    }
    verif_hooks::set_yield(Some(heartbeat_only)); // (the later phases keep the watchdog's heartbeat)
    let end_len = verif_hooks::cache_len();
    let mut errs = errors.lock().unwrap().clone();
    if end_len != base_len {
        errs.push(format!("table-not-empty: {} entries left after the stress run (was {})", end_len, base_len));
    }
    rep.evaluations += 1;
    rep.add("stress.operations", (per_round * rounds * threads) as u64);
    rep.add("stress.barrier_checks", (rounds * threads) as u64);
    rep.add("stress.sliding_alphabet_operations", ((per_round * rounds / 4).max(4000) * threads) as u64);
    rep.add("stress.unique_strings_created_and_dropped", ((per_round * rounds / 4).max(1000) * threads) as u64);
    errs.sort();
    errs.dedup_by_key(|e| classify(e));
    for e in errs {
        rep.violation(
            &format!("C18:stress:{}", classify(&e)),
            &format!("stress ({} threads, {} contents): {}", threads, contents, e),
            json!({"cmd": "sstr", "mode": "stress", "seed": seed, "threads": threads, "ops": ops, "contents": contents}),
            J::Null,
        );
    }
}

pub fn main(a: &Args) {
    let out = a.str("out", "/dev/stdout");
    let mode = a.str("mode", "explore");
    let shard = a.u64("shard", 0);
    let nshards = a.u64("nshards", 1);
    let mut rep = Report::new("C18");
    match mode.as_str() {
        "replay" => {
            let progs: Vec<Prog> = a.str("programs", "").split("||").map(parse_prog).collect();
            let choices: Vec<usize> = a
                .str("choices", "")
                .trim_matches(|c| c == '[' || c == ']')
                .split(',')
                .filter_map(|x| x.trim().parse().ok())
                .collect();
            let mut ch = EnumCh { stack: choices.iter().map(|i| (usize::MAX, *i)).collect(), pos: 0 };
            let r = run_schedule(&progs, &mut ch);
            rep.evaluations = 1;
            for l in &r.trace {
                eprintln!("{}", l);
            }
            for e in &r.errors {
                eprintln!("ERROR {}", e);
                rep.violation(&format!("C18:{}", classify(e)), e, J::Null, J::Null);
            }
        }
        "stress" => {
            let seed = a.u64("seed", 1);
            start_no_progress_watchdog(out.clone());
            stress(&mut rep, a.usize("threads", 16), a.usize("ops", 1_000_000), a.usize("contents", 3), seed + shard, true);
            stress(&mut rep, a.usize("threads", 16), a.usize("ops", 1_000_000), 2, seed + shard + 1000, false);
            // churn: many contents, almost nothing held, so the "not yet interned / just released" paths of new() race
            stress(&mut rep, a.usize("threads", 16), a.usize("ops", 1_000_000), 6, seed + shard + 2000, true);
            stress(&mut rep, 4, a.usize("ops", 1_000_000) / 2, 4, seed + shard + 3000, false);
            rendezvous_drops(&mut rep, (a.usize("threads", 16) / 2).max(1), (a.usize("ops", 1_000_000) / 40).clamp(10_000, 150_000), seed + shard);
            rep.nontrivial(1);
            rep.nontrivial(2);
            rep.sample(json!({"stress": {"threads": a.usize("threads", 16), "ops": a.usize("ops", 1_000_000)}}));
            STRESS_DONE.store(true, std::sync::atomic::Ordering::SeqCst);
        }
        _ => {
            // scope: `threads` threads, each a closed program of <= len operations over `contents` contents
            let len = a.usize("len", 2);
            let contents = a.usize("contents", 1) as u8;
            let threads = a.usize("threads", 2);
            let maxs = a.u64("max-schedules", 200_000);
            let tp = thread_programs(len, contents);
            let mut sets: Vec<Vec<Prog>> = vec![];
            if threads == 2 {
                for i in 0..tp.len() {
                    for j in i..tp.len() {
                        sets.push(vec![tp[i].clone(), tp[j].clone()]);
                    }
                }
            } else {
                // three threads: single-content short programs
                let small: Vec<Prog> = thread_programs(len.min(2), 1);
                for i in 0..small.len() {
                    for j in i..small.len() {
                        for k in j..small.len() {
                            sets.push(vec![small[i].clone(), small[j].clone(), small[k].clone()]);
                        }
                    }
                }
            }
            rep.add("program_sets.total", sets.len() as u64);
            let mut mine = 0u64;
            let mut schedules = 0u64;
            for (idx, set) in sets.iter().enumerate() {
                if idx as u64 % nshards != shard {
                    continue;
                }
                mine += 1;
                if HUNG.load(std::sync::atomic::Ordering::SeqCst) {
                    rep.count("program_sets.skipped_after_hang");
                    continue;
                }
                let (n, bad) = explore(set, &mut rep, maxs);
                schedules += n;
                rep.add("schedules.executed", n);
                rep.add("schedules.violating", bad);
            }
            rep.add("program_sets.explored", mine);
            let _ = schedules;
            let _ = RandCh(Rng::new(0));
        }
    }
    rep.finish(&out);
}
