//! C07: serializer output is a function of the logical content alone, and load/save is a fixed
//! point after the first save. Each process also exports (case, format) -> output hash so the
//! driver can compare several processes (other hash seeds) offline.

use std::collections::BTreeMap;

use crate::canon;
use crate::expect::XmlMode;
use crate::gen_dom::{DomGen, Fmt};
use crate::report::{catch, panic_sig, Report};
use crate::rng::Rng;
use crate::spec::{self, BuildMode, TreeSpec, ALL_BUILD_MODES, PV};
use crate::Args;
use rbx_binary::CompressionType;
use rbx_dom_weak::types::*;
use serde_json::{json, Value as J};

const FORMATS: &[&str] = &["bin-lz4", "bin-none", "bin-zstd", "xml"];

fn write(fmt: &str, dom: &rbx_dom_weak::WeakDom, roots: &[Ref]) -> Result<Vec<u8>, String> {
    match fmt {
        "bin-lz4" => crate::rt::write_binary(dom, roots, CompressionType::Lz4),
        "bin-none" => crate::rt::write_binary(dom, roots, CompressionType::None),
        "bin-zstd" => crate::rt::write_binary(dom, roots, CompressionType::Zstd),
        _ => crate::rt::write_xml(dom, roots, XmlMode::Unknown),
    }
}

struct FailAfter(usize);
impl std::io::Write for FailAfter {
    fn write(&mut self, b: &[u8]) -> std::io::Result<usize> {
        if self.0 == 0 {
            return Err(std::io::Error::new(std::io::ErrorKind::Other, "sink full"));
        }
        let n = b.len().min(self.0);
        self.0 -= n;
        Ok(n)
    }
    fn flush(&mut self) -> std::io::Result<()> {
        Ok(())
    }
}

fn write_into<W: std::io::Write>(fmt: &str, dom: &rbx_dom_weak::WeakDom, roots: &[Ref], w: W) -> Result<(), String> {
    match fmt {
        "bin-lz4" => rbx_binary::Serializer::new().compression_type(CompressionType::Lz4).serialize(w, dom, roots).map_err(|e| e.to_string()),
        "bin-none" => rbx_binary::Serializer::new().compression_type(CompressionType::None).serialize(w, dom, roots).map_err(|e| e.to_string()),
        "bin-zstd" => rbx_binary::Serializer::new().compression_type(CompressionType::Zstd).serialize(w, dom, roots).map_err(|e| e.to_string()),
        _ => rbx_xml::to_writer(w, dom, roots, crate::rt::xml_options(XmlMode::Unknown).0).map_err(|e| e.to_string()),
    }
}

fn read(fmt: &str, bytes: &[u8]) -> Result<rbx_dom_weak::WeakDom, String> {
    if fmt == "xml" {
        rbx_xml::from_reader(bytes, crate::rt::xml_options(XmlMode::Unknown).1).map_err(|e| e.to_string())
    } else {
        rbx_binary::from_reader(bytes).map_err(|e| e.to_string())
    }
}

/// Instances that carry several spellings of one logical property with different values: the
/// places where hash-container iteration order could reach the output.
fn multi_spelling_spec(r: &mut Rng) -> TreeSpec {
    let g = crate::gen_value::VGen::xml();
    let mut spec = TreeSpec::new("DataModel");
    let n = 1 + r.below(4);
    for i in 0..n {
        let (class, groups): (&str, Vec<Vec<(&str, VariantType)>>) = match r.below(6) {
            // two CANONICAL properties that share one serialized name (a database quirk, listed under C01): whatever the
            // writer does with them, it must do the same in every construction and process
            4 => ("Sound", vec![vec![("MaxDistance", VariantType::Float32), ("RollOffMaxDistance", VariantType::Float32), ("xmlRead_MaxDistance_3", VariantType::Float32)]]),
            5 => ("MaterialService", vec![vec![("Use2022Materials", VariantType::Bool), ("Use2022MaterialsXml", VariantType::Bool)]]),
            0 => ("Part", vec![vec![("Size", VariantType::Vector3), ("size", VariantType::Vector3)]]),
            1 => (
                "Part",
                vec![vec![("Color", VariantType::Color3), ("Color3uint8", VariantType::Color3uint8), ("BrickColor", VariantType::BrickColor), ("brickColor", VariantType::BrickColor)]],
            ),
            2 => ("Sound", vec![vec![("RollOffMinDistance", VariantType::Float32), ("EmitterSize", VariantType::Float32)]]),
            _ => ("Folder", vec![vec![("Tags", VariantType::Tags)], vec![("ZzA", VariantType::Int32), ("ZzB", VariantType::Int32), ("ZzC", VariantType::Int32)]]),
        };
        let id = spec.add(0, class, &format!("m{}", i));
        for grp in groups {
            // a random non-empty subset of the spellings, each with its own value
            let mut any = false;
            for (sp, ty) in &grp {
                if r.chance(2, 3) {
                    any = true;
                    spec.nodes[id].props.push(((*sp).to_owned(), PV::V(g.gen(r, *ty).unwrap())));
                }
            }
            if !any {
                let (sp, ty) = grp[0];
                spec.nodes[id].props.push((sp.to_owned(), PV::V(g.gen(r, ty).unwrap())));
            }
        }
        // plus many unknown properties so map iteration order has something to permute
        for k in 0..r.below(12) {
            spec.nodes[id].props.push((format!("Zz{}", k), PV::V(Variant::Int32(k as i32))));
        }
    }
    spec
}

/// (class, [database names that collide once letter case is ignored], a type one of them carries): Humanoid
/// MaxHealth / maxHealth, IntConstrainedValue value / Value, TrussPart style / Style ... An instance of such a class
/// that carries a THIRD spelling (one the database does not know) is the place where a forgiving, case-blind lookup
/// would have to choose between two entries of a hash map.
fn case_collisions() -> &'static Vec<(String, Vec<String>, Option<VariantType>)> {
    static L: std::sync::OnceLock<Vec<(String, Vec<String>, Option<VariantType>)>> = std::sync::OnceLock::new();
    L.get_or_init(|| {
        let db = crate::dbwalk::db();
        let mut out = vec![];
        for cname in crate::dbwalk::sorted_class_names(db) {
            let mut by_fold: BTreeMap<String, Vec<String>> = BTreeMap::new();
            for k in db.classes[cname].properties.keys() {
                by_fold.entry(k.to_lowercase()).or_default().push(k.to_string());
            }
            for (_, mut names) in by_fold {
                if names.len() < 2 {
                    continue;
                }
                names.sort();
                let ty = names.iter().filter_map(|n| crate::dbwalk::travel(db, cname, n)).map(|t| t.declared_ty).find(|t| {
                    crate::gen_dom::type_ok(Fmt::Xml, *t) && !matches!(t, VariantType::Ref | VariantType::UniqueId | VariantType::SharedString | VariantType::Enum)
                });
                // all entries of the group must agree on that type, or the known spellings are left out of the tree
                let all_same = names.iter().filter_map(|n| crate::dbwalk::travel(db, cname, n)).all(|t| Some(t.declared_ty) == ty && t.wire_ty == t.declared_ty);
                out.push((cname.to_owned(), names, if all_same { ty } else { None }));
            }
        }
        out
    })
}

fn case_collision_spec(r: &mut Rng) -> TreeSpec {
    let g = crate::gen_value::VGen::xml();
    let mut spec = TreeSpec::new("DataModel");
    let list = case_collisions();
    for i in 0..1 + r.below(3) {
        let (class, names, ty) = r.pick(list).clone();
        let id = spec.add(0, &class, &format!("cc{}", i));
        let flip: String = names[0].chars().map(|c| if c.is_ascii_lowercase() { c.to_ascii_uppercase() } else { c.to_ascii_lowercase() }).collect();
        let mut spellings = vec![names[0].to_uppercase(), names[0].to_lowercase(), flip];
        spellings.retain(|s| !names.contains(s));
        spellings.dedup();
        // the unknown spelling, sometimes next to one or both of the known ones
        let sp = r.pick(&spellings).clone();
        let unknown_value = match ty {
            Some(t) => g.gen(r, t).unwrap_or(Variant::Int32(7)),
            None => Variant::Int32(r.below(1000) as i32),
        };
        spec.nodes[id].props.push((sp, PV::V(unknown_value)));
        if let Some(t) = ty {
            for n in &names {
                if r.chance(1, 4) {
                    if let Some(v) = g.gen(r, t) {
                        spec.nodes[id].props.push((n.clone(), PV::V(v)));
                    }
                }
            }
        }
        for k in 0..r.below(6) {
            spec.nodes[id].props.push((format!("Zz{}", k), PV::V(Variant::Int32(k as i32))));
        }
    }
    spec
}

/// (class, property, type) triples for which the database records NO default although the property serializes
/// (Player, BasePart, GuiObject ... at the pinned version): the binary writer has to invent the value it fills
/// the gaps of a column with, and whatever it invents must not depend on the process.
fn no_default_props() -> &'static Vec<(String, String, VariantType)> {
    static L: std::sync::OnceLock<Vec<(String, String, VariantType)>> = std::sync::OnceLock::new();
    L.get_or_init(|| {
        let db = crate::dbwalk::db();
        let mut out = vec![];
        for cname in crate::dbwalk::sorted_class_names(db) {
            let mut names: Vec<&str> = db.classes[cname].properties.keys().map(|k| k.as_ref()).collect();
            names.sort();
            for pn in names {
                if pn == "Name" {
                    continue;
                }
                if let Some(t) = crate::dbwalk::travel(db, cname, pn) {
                    if t.back_name == pn && crate::dbwalk::default_for(db, cname, pn).is_none() && crate::gen_dom::type_ok(Fmt::Xml, t.declared_ty) && crate::gen_dom::type_ok(Fmt::Xml, t.wire_ty)
                        && !matches!(t.declared_ty, VariantType::Ref | VariantType::UniqueId | VariantType::SharedString)
                    {
                        out.push((cname.to_owned(), pn.to_owned(), t.declared_ty));
                    }
                }
            }
        }
        out
    })
}

fn no_default_spec(r: &mut Rng) -> TreeSpec {
    let g = crate::gen_value::VGen::xml();
    let mut spec = TreeSpec::new("DataModel");
    let list = no_default_props();
    let (class, _, _) = r.pick(list).clone();
    let props: Vec<&(String, String, VariantType)> = list.iter().filter(|(c, _, _)| *c == class).collect();
    let n = 2 + r.below(3);
    for i in 0..n {
        let id = spec.add(0, &class, &format!("nd{}", i));
        for (_, pn, ty) in &props {
            // the first instance carries everything (so every column exists), the others random subsets
            if i == 0 || r.chance(1, 3) {
                let v = match ty {
                    VariantType::Enum => Variant::Enum(Enum::from_u32(r.below(4) as u32)),
                    t => match g.gen(r, *t) {
                        Some(v) => v,
                        None => continue,
                    },
                };
                spec.nodes[id].props.push((pn.clone(), PV::V(v)));
            }
        }
    }
    spec
}

fn case(rep: &mut Report, seed: u64, index: u64, table: &mut BTreeMap<String, String>) {
    let mut r = Rng::derive(seed, "c07", index);
    let multi = index % 3 == 0;
    let spec = if index % 8 == 5 && !no_default_props().is_empty() {
        rep.count("cases.class-without-database-defaults");
        no_default_spec(&mut r)
    } else if index % 12 == 9 && !case_collisions().is_empty() {
        rep.count("cases.unknown-spelling-between-two-case-variants");
        case_collision_spec(&mut r)
    } else if multi {
        multi_spelling_spec(&mut r)
    } else {
        let mut gen = DomGen::xml();
        gen.max_nodes = 12;
        let mut s = gen.tree(&mut r);
        if r.chance(1, 3) {
            // several instances of one class whose Content property names different instances: the binary
            // reader and writer carry the object referents of a column in a side list, one entry per such instance
            let k = 2 + r.below(3);
            let n0 = s.nodes.len();
            let (class, prop) = *r.pick(&[("ImageLabel", "ImageContent"), ("MeshPart", "MeshContent"), ("Decal", "TextureContent")]);
            for i in 0..k {
                let id = s.add(0, class, &format!("obj{}", i));
                let t = if r.chance(1, 5) { spec::RefT::Null } else { spec::RefT::Node(r.below(n0 + k)) };
                s.nodes[id].props.push((prop.to_owned(), PV::ContentObj(t)));
            }
        }
        s
    };
    // rbx_xml cannot write Content values that hold an object reference (known finding of C02)
    let spec_xml = {
        let mut s = spec.clone();
        for n in s.nodes.iter_mut() {
            n.props.retain(|(_, pv)| !matches!(pv, PV::ContentObj(_)));
        }
        s
    };
    let spec_bin = spec;
    let spec = &spec_bin;
    let sel: Vec<usize> = spec.nodes[0].children.clone();
    let replay = json!({"cmd": "c07", "seed": seed, "index": index});
    rep.evaluations += 1;
    rep.count(if multi { "cases.multi-spelling" } else { "cases.generated" });
    let nprops: usize = spec.nodes.iter().map(|n| n.props.len()).sum();
    if spec.nodes.len() >= 3 || nprops >= 2 {
        rep.nontrivial(crate::rng::fnv64(format!("{:?}", spec.nodes.iter().map(|n| (&n.class, &n.name, n.props.len())).collect::<Vec<_>>()).as_bytes()) ^ index);
    }
    rep.sample(json!({"index": index, "nodes": spec.nodes.len(), "props": nprops, "multi_spelling": multi}));
    // if this build of rbx_xml does write object-valued Content (the pinned one panics: known finding of C02), its
    // output is subject to the same determinism rules as everything else
    static XML_WRITES_CONTENT_OBJECTS: std::sync::OnceLock<bool> = std::sync::OnceLock::new();
    let xml_objs = *XML_WRITES_CONTENT_OBJECTS.get_or_init(|| {
        let target = rbx_dom_weak::InstanceBuilder::new("Folder");
        let dom = rbx_dom_weak::WeakDom::new(
            rbx_dom_weak::InstanceBuilder::new("DataModel")
                .with_child(rbx_dom_weak::InstanceBuilder::new("ImageLabel").with_property("ImageContent", Content::from_referent(target.referent())))
                .with_child(target),
        );
        let roots = dom.root().children().to_vec();
        matches!(catch(|| write("xml", &dom, &roots)), Ok(Ok(_)))
    });
    for fmt in FORMATS {
        let spec = if *fmt == "xml" && !xml_objs { &spec_xml } else { &spec_bin };
        if spec.nodes.iter().any(|n| n.props.iter().any(|(_, pv)| matches!(pv, PV::ContentObj(_)))) {
            rep.count("cases.with-content-object-refs");
        }
        let mut first: Option<(BuildMode, Result<Vec<u8>, String>)> = None;
        for mode in ALL_BUILD_MODES {
            let mut br = Rng::derive(seed ^ 0x5eed, "c07-build", index * 16 + *mode as u64);
            let built = spec::build(spec, *mode, &mut br);
            let roots: Vec<Ref> = sel.iter().map(|i| built.refs[*i]).collect();
            rep.count(&format!("constructions.{:?}", mode));
            let out = match catch(|| write(fmt, &built.dom, &roots)) {
                Ok(o) => o,
                Err(p) => {
                    rep.violation(&format!("C07:{}", panic_sig(&p)), &format!("{} writer panicked: {}", fmt, p.msg), replay.clone(), J::Null);
                    Err("panic".into())
                }
            };
            match &first {
                None => first = Some((*mode, out)),
                Some((m0, o0)) => {
                    let same = match (o0, &out) {
                        (Ok(a), Ok(b)) => a == b,
                        (Err(_), Err(_)) => true,
                        _ => false,
                    };
                    if !same {
                        let kind = match (o0, &out) {
                            (Ok(_), Ok(_)) => "bytes-differ",
                            _ => "success-differs",
                        };
                        rep.violation(
                            &format!("C07:construction:{}:{}{}", kind, if *fmt == "xml" { "xml" } else { "binary" }, if multi { ":multi-spelling" } else { "" }),
                            &format!("{}: the same logical tree built as {:?} and as {:?} serializes differently ({})", fmt, m0, mode, kind),
                            replay.clone(),
                            J::Null,
                        );
                    }
                }
            }
        }
        let (_, out) = first.unwrap();
        // a serialization that FAILS (sink refuses after k bytes; a tree the writer rejects) must leave nothing behind:
        // the next save of the same tree on this thread gives the bytes it gave before
        if let Ok(b1) = &out {
            let mut br = Rng::derive(seed ^ 0x5eed, "c07-build", index * 16);
            let built = spec::build(spec, ALL_BUILD_MODES[0], &mut br);
            let roots: Vec<Ref> = sel.iter().map(|i| built.refs[*i]).collect();
            for k in [0usize, b1.len() / 3, b1.len().saturating_sub(1)] {
                let _ = catch(|| write_into(fmt, &built.dom, &roots, FailAfter(k)));
                let _ = catch(|| {
                    // a tree the binary writer rejects (wrong type for a known property), written and refused
                    let bad = rbx_dom_weak::WeakDom::new(rbx_dom_weak::InstanceBuilder::new("DataModel").with_child(
                        rbx_dom_weak::InstanceBuilder::new("Part").with_property("Name2", Variant::Int32(1)).with_property("Anchored", Variant::String("no".into())),
                    ));
                    let r = bad.root().children().to_vec();
                    write(fmt, &bad, &r)
                });
                rep.count("fault.failed-save-then-save");
                match catch(|| write(fmt, &built.dom, &roots)) {
                    Ok(Ok(again)) if &again == b1 => {}
                    Ok(Ok(again)) => {
                        rep.violation(
                            &format!("C07:state-left-by-failed-save:{}", if *fmt == "xml" { "xml" } else { "binary" }),
                            &format!("{}: after a save that failed at byte {} the same tree serializes to {} bytes that differ from the {} bytes written before", fmt, k, again.len(), b1.len()),
                            replay.clone(),
                            J::Null,
                        );
                        break;
                    }
                    _ => {
                        rep.violation(&format!("C07:save-fails-after-failed-save:{}", fmt), "a save fails after an earlier failed save", replay.clone(), J::Null);
                        break;
                    }
                }
            }
        }
        match &out {
            Ok(b1) => {
                table.insert(format!("{}/{}", index, fmt), format!("ok:{:016x}", crate::rng::fnv64(b1)));
                // load/save fixed point
                let fp = catch(|| -> Result<(Vec<u8>, Vec<u8>), String> {
                    let d1 = read(fmt, b1)?;
                    let r1: Vec<Ref> = d1.root().children().to_vec();
                    let b2 = write(fmt, &d1, &r1)?;
                    let d2 = read(fmt, &b2)?;
                    let r2: Vec<Ref> = d2.root().children().to_vec();
                    let b3 = write(fmt, &d2, &r2)?;
                    Ok((b2, b3))
                });
                rep.count(&format!("fixed_point.{}", fmt));
                match fp {
                    Ok(Ok((b2, b3))) => {
                        if b2 != b3 {
                            rep.violation(
                                &format!("C07:resave-not-fixed-point:{}", if *fmt == "xml" { "xml" } else { "binary" }),
                                &format!("{}: save(load(save(load(b1)))) differs from save(load(b1)) ({} vs {} bytes)", fmt, b3.len(), b2.len()),
                                replay.clone(),
                                J::Null,
                            );
                        }
                    }
                    Ok(Err(e)) => {
                        // the writer's own output must be readable and re-writable (C01/C02 own the details)
                        let ec: String = e.split(':').next().unwrap_or("").chars().take(40).collect();
                        rep.violation(&format!("C07:resave-error:{}:{}", fmt, ec), &format!("{}: re-saving a loaded file failed: {}", fmt, e), replay.clone(), J::Null);
                    }
                    Err(p) => rep.violation(&format!("C07:resave:{}", panic_sig(&p)), &format!("{}: {}", fmt, p.msg), replay.clone(), J::Null),
                }
            }
            Err(e) => {
                let ec: String = e.split(':').next().unwrap_or("").chars().take(40).collect();
                table.insert(format!("{}/{}", index, fmt), format!("err:{}", ec));
            }
        }
    }
}

pub fn main(a: &Args) {
    let seed = a.u64("seed", 1);
    let count = a.u64("count", 300);
    let shard = a.u64("shard", 0);
    let nshards = a.u64("nshards", 1);
    let out = a.str("out", "/dev/stdout");
    let mut rep = Report::new("C07");
    let mut table: BTreeMap<String, String> = BTreeMap::new();
    if let Some(only) = a.kv.get("index") {
        case(&mut rep, seed, only.parse().unwrap(), &mut table);
    } else {
        // every other process set runs the same cases in the opposite order: whatever a writer or reader
        // keeps between calls (caches, thread-locals, interned state) then differs at each case
        let mut idx: Vec<u64> = (0..count).filter(|i| i % nshards == shard).collect();
        if a.flag("reverse") {
            idx.reverse();
        }
        for i in idx {
            case(&mut rep, seed, i, &mut table);
        }
    }
    rep.extra.insert("hashes".into(), json!(table));
    let _ = canon::hex(&[]);
    let _ = Fmt::Xml;
    rep.finish(&out);
}
