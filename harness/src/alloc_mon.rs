//! Counting global allocator: remembers no addresses, only sizes. Requests above the refusal
//! threshold fail (null), which turns an absurd request into an attributable abort instead of
//! thrashing the machine (on this box a 48 GB Vec::with_capacity otherwise succeeds lazily).

use std::alloc::{GlobalAlloc, Layout, System};
use std::sync::atomic::{AtomicUsize, Ordering};

pub struct Mon;

pub static CURRENT: AtomicUsize = AtomicUsize::new(0);
pub static PEAK: AtomicUsize = AtomicUsize::new(0);
pub static MAX_SINGLE: AtomicUsize = AtomicUsize::new(0);
pub static REFUSE_ABOVE: AtomicUsize = AtomicUsize::new(usize::MAX);
pub static REFUSED: AtomicUsize = AtomicUsize::new(0);

thread_local! {
    static IN_HOOK: std::cell::Cell<bool> = const { std::cell::Cell::new(false) };
}

/// Called once for a refused request: name the innermost repository frame on stderr so the
/// supervisor can attribute the abort that follows.
#[cold]
fn report_oversize(size: usize) {
    let reenter = IN_HOOK.with(|h| h.replace(true));
    if reenter {
        return;
    }
    let bt = std::backtrace::Backtrace::force_capture().to_string();
    let mut sym = String::new();
    let mut frame = String::from("?");
    for line in bt.lines() {
        let l = line.trim();
        if let Some(path) = l.strip_prefix("at ") {
            if path.contains("/rbx_") && !path.starts_with("./") && !path.contains("/rustc/") && !path.contains(".cargo/registry") {
                let file = match path.find("rbx_") {
                    Some(i) => &path[i..],
                    None => path,
                };
                let file = file.split(':').next().unwrap_or(file);
                let mut s = sym.clone();
                if let Some(i) = s.find('<') {
                    if i > 0 {
                        s.truncate(i);
                    }
                }
                frame = format!("{}:{}", file, s);
                break;
            }
        } else if let Some(pos) = l.find(": ") {
            sym = l[pos + 2..].to_owned();
        }
    }
    eprintln!("OVERSIZE {} {}", size, frame);
    IN_HOOK.with(|h| h.set(false));
}

#[inline]
fn note(size: usize) -> bool {
    if IN_HOOK.with(|h| h.get()) {
        CURRENT.fetch_add(size, Ordering::Relaxed);
        return true;
    }
    if size > MAX_SINGLE.load(Ordering::Relaxed) {
        MAX_SINGLE.store(size, Ordering::Relaxed);
    }
    if size > REFUSE_ABOVE.load(Ordering::Relaxed) {
        REFUSED.store(size, Ordering::Relaxed);
        report_oversize(size);
        return false;
    }
    let cur = CURRENT.fetch_add(size, Ordering::Relaxed) + size;
    if cur > PEAK.load(Ordering::Relaxed) {
        PEAK.store(cur, Ordering::Relaxed);
    }
    true
}

unsafe impl GlobalAlloc for Mon {
    unsafe fn alloc(&self, l: Layout) -> *mut u8 {
        if !note(l.size()) {
            return std::ptr::null_mut();
        }
        System.alloc(l)
    }
    unsafe fn alloc_zeroed(&self, l: Layout) -> *mut u8 {
        if !note(l.size()) {
            return std::ptr::null_mut();
        }
        System.alloc_zeroed(l)
    }
    unsafe fn dealloc(&self, p: *mut u8, l: Layout) {
        CURRENT.fetch_sub(l.size(), Ordering::Relaxed);
        System.dealloc(p, l)
    }
    unsafe fn realloc(&self, p: *mut u8, l: Layout, new: usize) -> *mut u8 {
        if new > l.size() {
            if !note(new - l.size()) {
                return std::ptr::null_mut();
            }
            if new > MAX_SINGLE.load(Ordering::Relaxed) {
                MAX_SINGLE.store(new, Ordering::Relaxed);
            }
            if new > REFUSE_ABOVE.load(Ordering::Relaxed) {
                CURRENT.fetch_sub(new - l.size(), Ordering::Relaxed);
                REFUSED.store(new, Ordering::Relaxed);
                return std::ptr::null_mut();
            }
        } else {
            CURRENT.fetch_sub(l.size() - new, Ordering::Relaxed);
        }
        System.realloc(p, l, new)
    }
}

pub fn reset_case() {
    MAX_SINGLE.store(0, Ordering::Relaxed);
    PEAK.store(CURRENT.load(Ordering::Relaxed), Ordering::Relaxed);
}
