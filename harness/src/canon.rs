//! Canonical, bit-exact, referent-free dumps (see /verif/lib/FORMAT.md).
//! Everything here goes through the public WeakDom / Instance / rbx_types API only.

use std::collections::HashMap;

use rbx_dom_weak::types::*;
use rbx_dom_weak::WeakDom;
use serde_json::{json, Map, Value as J};

thread_local! {
    /// When set, every NaN is dumped as the canonical quiet NaN ("NaN compared as a class":
    /// decimal text formats cannot carry sign or payload of a NaN).
    static NAN_CLASS: std::cell::Cell<bool> = std::cell::Cell::new(false);
}
pub fn with_nan_class<T>(on: bool, f: impl FnOnce() -> T) -> T {
    let prev = NAN_CLASS.with(|c| c.replace(on));
    let r = f();
    NAN_CLASS.with(|c| c.set(prev));
    r
}
pub fn f32h(v: f32) -> J {
    let bits = if v.is_nan() && NAN_CLASS.with(|c| c.get()) { 0x7fc0_0000 } else { v.to_bits() };
    J::String(format!("{:08x}", bits))
}
pub fn f64h(v: f64) -> J {
    let bits = if v.is_nan() && NAN_CLASS.with(|c| c.get()) { 0x7ff8_0000_0000_0000 } else { v.to_bits() };
    J::String(format!("{:016x}", bits))
}
pub fn hex(b: &[u8]) -> String {
    let mut s = String::with_capacity(b.len() * 2);
    for x in b {
        s.push_str(&format!("{:02x}", x));
    }
    s
}
pub fn unhex(s: &str) -> Vec<u8> {
    (0..s.len() / 2)
        .map(|i| u8::from_str_radix(&s[2 * i..2 * i + 2], 16).unwrap())
        .collect()
}
fn v3(v: &Vector3) -> Vec<J> {
    vec![f32h(v.x), f32h(v.y), f32h(v.z)]
}
pub fn cframe(c: &CFrame) -> J {
    let o = &c.orientation;
    json!({
        "pos": v3(&c.position),
        "rot": [f32h(o.x.x), f32h(o.x.y), f32h(o.x.z), f32h(o.y.x), f32h(o.y.y), f32h(o.y.z), f32h(o.z.x), f32h(o.z.y), f32h(o.z.z)],
    })
}

pub fn tv(t: &str, v: J) -> J {
    json!({"t": t, "v": v})
}

/// All terrain materials in the order of docs/binary-strings.md; only used to make the
/// observational comparison of MaterialColors (sparse vs default-filled) explicit.
pub fn material_colors_hex(m: &MaterialColors) -> String {
    hex(&m.encode())
}

/// `refpath` maps a Ref to `null` / path array / "outside".
pub fn value(v: &Variant, refpath: &dyn Fn(Ref) -> J) -> J {
    match v {
        Variant::String(s) => tv("String", J::String(s.clone())),
        Variant::BinaryString(b) => {
            let bytes: &[u8] = b.as_ref();
            tv("BinaryString", J::String(hex(bytes)))
        }
        Variant::ContentId(c) => tv("ContentId", J::String(c.as_str().to_owned())),
        Variant::Content(c) => tv(
            "Content",
            match c.value() {
                ContentType::None => json!({"k": "None"}),
                ContentType::Uri(u) => json!({"k": "Uri", "uri": u}),
                ContentType::Object(r) => json!({"k": "Object", "ref": refpath(*r)}),
                _ => json!({"k": "?"}),
            },
        ),
        Variant::Bool(b) => tv("Bool", J::Bool(*b)),
        Variant::Int32(i) => tv("Int32", json!(*i)),
        Variant::Int64(i) => tv("Int64", json!(*i)),
        Variant::Float32(f) => tv("Float32", f32h(*f)),
        Variant::Float64(f) => tv("Float64", f64h(*f)),
        Variant::Enum(e) => tv("Enum", json!(e.to_u32())),
        Variant::EnumItem(e) => tv("EnumItem", json!({"ty": e.ty, "value": e.value})),
        Variant::BrickColor(b) => tv("BrickColor", json!(*b as u16)),
        Variant::Faces(f) => tv("Faces", json!(f.bits())),
        Variant::Axes(a) => tv("Axes", json!(a.bits())),
        Variant::Vector2(v) => tv("Vector2", json!([f32h(v.x), f32h(v.y)])),
        Variant::Vector3(v) => tv("Vector3", J::Array(v3(v))),
        Variant::Vector2int16(v) => tv("Vector2int16", json!([v.x, v.y])),
        Variant::Vector3int16(v) => tv("Vector3int16", json!([v.x, v.y, v.z])),
        Variant::CFrame(c) => tv("CFrame", cframe(c)),
        Variant::OptionalCFrame(c) => tv(
            "OptionalCFrame",
            match c {
                None => J::Null,
                Some(c) => cframe(c),
            },
        ),
        Variant::Color3(c) => tv("Color3", json!([f32h(c.r), f32h(c.g), f32h(c.b)])),
        Variant::Color3uint8(c) => tv("Color3uint8", json!([c.r, c.g, c.b])),
        Variant::UDim(u) => tv("UDim", json!([f32h(u.scale), u.offset])),
        Variant::UDim2(u) => tv(
            "UDim2",
            json!([[f32h(u.x.scale), u.x.offset], [f32h(u.y.scale), u.y.offset]]),
        ),
        Variant::Rect(r) => tv(
            "Rect",
            json!([f32h(r.min.x), f32h(r.min.y), f32h(r.max.x), f32h(r.max.y)]),
        ),
        Variant::Ray(r) => {
            let mut a = v3(&r.origin);
            a.extend(v3(&r.direction));
            tv("Ray", J::Array(a))
        }
        Variant::Region3(r) => {
            let mut a = v3(&r.min);
            a.extend(v3(&r.max));
            tv("Region3", J::Array(a))
        }
        Variant::Region3int16(r) => tv(
            "Region3int16",
            json!([r.min.x, r.min.y, r.min.z, r.max.x, r.max.y, r.max.z]),
        ),
        Variant::NumberRange(r) => tv("NumberRange", json!([f32h(r.min), f32h(r.max)])),
        Variant::NumberSequence(s) => tv(
            "NumberSequence",
            J::Array(
                s.keypoints
                    .iter()
                    .map(|k| json!([f32h(k.time), f32h(k.value), f32h(k.envelope)]))
                    .collect(),
            ),
        ),
        Variant::ColorSequence(s) => tv(
            "ColorSequence",
            J::Array(
                s.keypoints
                    .iter()
                    .map(|k| json!([f32h(k.time), f32h(k.color.r), f32h(k.color.g), f32h(k.color.b)]))
                    .collect(),
            ),
        ),
        Variant::PhysicalProperties(p) => tv(
            "PhysicalProperties",
            match p {
                PhysicalProperties::Default => J::Null,
                PhysicalProperties::Custom(c) => json!([
                    f32h(c.density),
                    f32h(c.friction),
                    f32h(c.elasticity),
                    f32h(c.friction_weight),
                    f32h(c.elasticity_weight)
                ]),
            },
        ),
        Variant::Ref(r) => tv("Ref", refpath(*r)),
        Variant::SharedString(s) => tv("SharedString", J::String(hex(s.data()))),
        Variant::Tags(t) => tv(
            "Tags",
            J::Array(t.iter().map(|s| J::String(s.to_owned())).collect()),
        ),
        Variant::Attributes(a) => tv("Attributes", attributes(a, refpath)),
        Variant::Font(f) => tv(
            "Font",
            json!({"family": f.family, "weight": f.weight.as_u16(), "style": f.style.as_u8(), "cached": f.cached_face_id}),
        ),
        Variant::UniqueId(u) => tv(
            "UniqueId",
            json!({"index": u.index(), "time": u.time(), "random": u.random()}),
        ),
        Variant::MaterialColors(m) => tv("MaterialColors", J::String(material_colors_hex(m))),
        Variant::SecurityCapabilities(s) => tv("SecurityCapabilities", json!(s.bits())),
        other => tv("?", J::String(format!("{:?}", other.ty()))),
    }
}

pub fn attributes(a: &Attributes, refpath: &dyn Fn(Ref) -> J) -> J {
    let mut m = Map::new();
    for (k, v) in a.iter() {
        m.insert(k.clone(), value(v, refpath));
    }
    J::Object(m)
}

pub fn no_refs(_: Ref) -> J {
    J::String("ref?".into())
}

/// Map every instance below `roots` to its path.
pub fn path_map(dom: &WeakDom, roots: &[Ref]) -> HashMap<Ref, Vec<usize>> {
    let mut map = HashMap::new();
    let mut stack: Vec<(Ref, Vec<usize>)> = roots
        .iter()
        .enumerate()
        .map(|(i, r)| (*r, vec![i]))
        .collect();
    while let Some((r, p)) = stack.pop() {
        if let Some(inst) = dom.get_by_ref(r) {
            for (i, c) in inst.children().iter().enumerate() {
                let mut cp = p.clone();
                cp.push(i);
                stack.push((*c, cp));
            }
            map.insert(r, p);
        }
    }
    map
}

pub fn path_json(p: &[usize]) -> J {
    J::Array(p.iter().map(|i| json!(*i)).collect())
}

/// Dump the forest made of the subtrees under `roots` (in that order).
pub fn dump_forest(dom: &WeakDom, roots: &[Ref]) -> J {
    let paths = path_map(dom, roots);
    let refpath = |r: Ref| -> J {
        if r.is_none() {
            J::Null
        } else if let Some(p) = paths.get(&r) {
            path_json(p)
        } else if dom.get_by_ref(r).is_some() {
            J::String("outside".into())
        } else {
            J::String("dangling".into())
        }
    };
    fn node(dom: &WeakDom, r: Ref, refpath: &dyn Fn(Ref) -> J) -> J {
        let inst = dom.get_by_ref(r).expect("dump: child ref missing");
        let mut props = Map::new();
        for (k, v) in &inst.properties {
            props.insert(k.to_string(), value(v, refpath));
        }
        let children: Vec<J> = inst
            .children()
            .iter()
            .map(|c| node(dom, *c, refpath))
            .collect();
        // built by moving the parts in: json!({.. "children": children}) would re-serialize (deep-copy) the whole
        // subtree at every level, which is quadratic in the depth of the tree
        let mut o = Map::new();
        o.insert("class".into(), J::String(inst.class.as_str().to_owned()));
        o.insert("name".into(), J::String(inst.name.clone()));
        o.insert("props".into(), J::Object(props));
        o.insert("children".into(), J::Array(children));
        J::Object(o)
    }
    // iterative for very deep trees is not needed for dumps used in oracles (depth <= ~2000);
    // callers that build deeper trees use dump_forest_iter.
    let mut top = Map::new();
    top.insert("roots".into(), J::Array(roots.iter().map(|r| node(dom, *r, &refpath)).collect::<Vec<_>>()));
    J::Object(top)
}

/// Dump of a decoded DOM: the children of its root.
/// Blank the value of every `UniqueId` property in a dump: WeakDom replaces a repeated id with `UniqueId::now()`
/// (C12), so two decodes of one file legitimately differ there.
pub fn mask_unique_id(v: &mut J) {
    match v {
        J::Object(o) => {
            if let Some(p) = o.get_mut("props").and_then(|p| p.as_object_mut()) {
                if let Some(u) = p.get_mut("UniqueId") {
                    if u["t"] == "UniqueId" {
                        *u = serde_json::json!({"t": "UniqueId"});
                    }
                }
            }
            for (_, x) in o.iter_mut() {
                mask_unique_id(x);
            }
        }
        J::Array(a) => a.iter_mut().for_each(mask_unique_id),
        _ => {}
    }
}

pub fn dump_decoded(dom: &WeakDom) -> J {
    let roots: Vec<Ref> = dom.root().children().to_vec();
    dump_forest(dom, &roots)
}

/// First difference between two JSON values as (path, expected, actual); None if equal.
pub fn diff(exp: &J, act: &J) -> Option<(String, String, String)> {
    fn go(path: &mut String, e: &J, a: &J) -> Option<(String, String, String)> {
        match (e, a) {
            (J::Object(eo), J::Object(ao)) => {
                for (k, ev) in eo {
                    match ao.get(k) {
                        None => return Some((format!("{}/{}", path, k), short(ev), "<absent>".into())),
                        Some(av) => {
                            let l = path.len();
                            path.push('/');
                            path.push_str(k);
                            if let Some(d) = go(path, ev, av) {
                                return Some(d);
                            }
                            path.truncate(l);
                        }
                    }
                }
                for (k, av) in ao {
                    if !eo.contains_key(k) {
                        return Some((format!("{}/{}", path, k), "<absent>".into(), short(av)));
                    }
                }
                None
            }
            (J::Array(ea), J::Array(aa)) => {
                if ea.len() != aa.len() {
                    return Some((
                        format!("{}/#len", path),
                        ea.len().to_string(),
                        aa.len().to_string(),
                    ));
                }
                for (i, (ev, av)) in ea.iter().zip(aa).enumerate() {
                    let l = path.len();
                    path.push_str(&format!("/{}", i));
                    if let Some(d) = go(path, ev, av) {
                        return Some(d);
                    }
                    path.truncate(l);
                }
                None
            }
            _ => {
                if e == a {
                    None
                } else {
                    Some((path.clone(), short(e), short(a)))
                }
            }
        }
    }
    fn short(v: &J) -> String {
        let s = v.to_string();
        if s.chars().count() > 300 {
            format!("{}…({} bytes)", s.chars().take(280).collect::<String>(), s.len())
        } else {
            s
        }
    }
    go(&mut String::new(), exp, act)
}

pub fn digest(v: &J) -> u64 {
    crate::rng::fnv64(v.to_string().as_bytes())
}
