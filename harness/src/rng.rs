//! Deterministic PRNG (xoshiro256** seeded through splitmix64); no external crates.

#[derive(Clone, Debug)]
pub struct Rng {
    s: [u64; 4],
}

pub fn splitmix64(x: &mut u64) -> u64 {
    *x = x.wrapping_add(0x9E3779B97F4A7C15);
    let mut z = *x;
    z = (z ^ (z >> 30)).wrapping_mul(0xBF58476D1CE4E5B9);
    z = (z ^ (z >> 27)).wrapping_mul(0x94D049BB133111EB);
    z ^ (z >> 31)
}

pub fn fnv64(bytes: &[u8]) -> u64 {
    let mut h: u64 = 0xcbf29ce484222325;
    for b in bytes {
        h ^= *b as u64;
        h = h.wrapping_mul(0x100000001b3);
    }
    h
}

impl Rng {
    pub fn new(seed: u64) -> Rng {
        let mut x = seed;
        let s = [
            splitmix64(&mut x),
            splitmix64(&mut x),
            splitmix64(&mut x),
            splitmix64(&mut x),
        ];
        Rng { s }
    }

    /// Derive a generator for (seed, label, index) so every case is replayable on its own.
    pub fn derive(seed: u64, label: &str, index: u64) -> Rng {
        let mut x = seed ^ fnv64(label.as_bytes()).rotate_left(17) ^ index.wrapping_mul(0xD6E8FEB86659FD93);
        let a = splitmix64(&mut x);
        Rng::new(a ^ index)
    }

    pub fn next_u64(&mut self) -> u64 {
        let result = self.s[1].wrapping_mul(5).rotate_left(7).wrapping_mul(9);
        let t = self.s[1] << 17;
        self.s[2] ^= self.s[0];
        self.s[3] ^= self.s[1];
        self.s[1] ^= self.s[2];
        self.s[0] ^= self.s[3];
        self.s[2] ^= t;
        self.s[3] = self.s[3].rotate_left(45);
        result
    }

    pub fn next_u32(&mut self) -> u32 {
        (self.next_u64() >> 32) as u32
    }

    /// uniform in 0..n (n > 0)
    pub fn below(&mut self, n: usize) -> usize {
        debug_assert!(n > 0);
        (self.next_u64() % (n as u64)) as usize
    }

    pub fn range(&mut self, lo: i64, hi_incl: i64) -> i64 {
        let span = (hi_incl - lo) as u64 + 1;
        lo + (self.next_u64() % span) as i64
    }

    pub fn chance(&mut self, num: u32, den: u32) -> bool {
        (self.next_u64() % den as u64) < num as u64
    }

    pub fn pick<'a, T>(&mut self, xs: &'a [T]) -> &'a T {
        &xs[self.below(xs.len())]
    }

    pub fn shuffle<T>(&mut self, xs: &mut [T]) {
        for i in (1..xs.len()).rev() {
            let j = self.below(i + 1);
            xs.swap(i, j);
        }
    }

    pub fn bytes(&mut self, n: usize) -> Vec<u8> {
        let mut v = Vec::with_capacity(n);
        while v.len() < n {
            let x = self.next_u64().to_le_bytes();
            let take = (n - v.len()).min(8);
            v.extend_from_slice(&x[..take]);
        }
        v
    }
}
