//! The 24 axis-aligned rotation bases, derived from the table in docs/binary.md ("CFrame"):
//! id -> Euler angles in degrees applied in the order Y -> X -> Z, i.e. R = Ry * Rx * Rz.
//! Nothing here is copied from rbx_types::Matrix3::from_basic_rotation_id.

use std::sync::OnceLock;

pub type M = [[f32; 3]; 3];

const DOC_TABLE: &[(u8, (i32, i32, i32))] = &[
    (0x02, (0, 0, 0)),
    (0x03, (90, 0, 0)),
    (0x05, (0, 180, 180)),
    (0x06, (-90, 0, 0)),
    (0x07, (0, 180, 90)),
    (0x09, (0, 90, 90)),
    (0x0a, (0, 0, 90)),
    (0x0c, (0, -90, 90)),
    (0x0d, (-90, -90, 0)),
    (0x0e, (0, -90, 0)),
    (0x10, (90, -90, 0)),
    (0x11, (0, 90, 180)),
    (0x14, (0, 180, 0)),
    (0x15, (-90, -180, 0)),
    (0x17, (0, 0, 180)),
    (0x18, (90, 180, 0)),
    (0x19, (0, 0, -90)),
    (0x1b, (0, -90, -90)),
    (0x1c, (0, -180, -90)),
    (0x1e, (0, 90, -90)),
    (0x1f, (90, 90, 0)),
    (0x20, (0, 90, 0)),
    (0x22, (-90, 90, 0)),
    (0x23, (0, -90, 180)),
];

fn sc(deg: i32) -> (i32, i32) {
    match deg.rem_euclid(360) {
        0 => (0, 1),
        90 => (1, 0),
        180 => (0, -1),
        270 => (-1, 0),
        _ => unreachable!(),
    }
}

fn mul(a: [[i32; 3]; 3], b: [[i32; 3]; 3]) -> [[i32; 3]; 3] {
    let mut o = [[0; 3]; 3];
    for i in 0..3 {
        for j in 0..3 {
            o[i][j] = (0..3).map(|k| a[i][k] * b[k][j]).sum();
        }
    }
    o
}

pub fn bases() -> &'static Vec<(u8, M)> {
    static B: OnceLock<Vec<(u8, M)>> = OnceLock::new();
    B.get_or_init(|| {
        let mut out = Vec::new();
        for (id, (x, y, z)) in DOC_TABLE {
            let (sx, cx) = sc(*x);
            let (sy, cy) = sc(*y);
            let (sz, cz) = sc(*z);
            let rx = [[1, 0, 0], [0, cx, -sx], [0, sx, cx]];
            let ry = [[cy, 0, sy], [0, 1, 0], [-sy, 0, cy]];
            let rz = [[cz, -sz, 0], [sz, cz, 0], [0, 0, 1]];
            let r = mul(mul(ry, rx), rz);
            let mut m = [[0.0f32; 3]; 3];
            for i in 0..3 {
                for j in 0..3 {
                    m[i][j] = r[i][j] as f32; // +0.0 for zero entries
                }
            }
            out.push((*id, m));
        }
        // sanity: 24 distinct proper rotations
        for (i, (_, a)) in out.iter().enumerate() {
            for (_, b) in out.iter().skip(i + 1) {
                assert!(a != b, "rotation table from the document has duplicates");
            }
        }
        out
    })
}

/// The statement's rule: a rotation whose nine entries are all within f32::EPSILON of one of
/// the 24 bases snaps to it; anything else keeps its bits.
pub fn snap(m: &M) -> Option<(u8, M)> {
    'outer: for (id, b) in bases() {
        for i in 0..3 {
            for j in 0..3 {
                let d = (m[i][j] - b[i][j]).abs();
                if !(d <= f32::EPSILON) {
                    continue 'outer;
                }
            }
        }
        return Some((*id, *b));
    }
    None
}

pub fn to_m(o: &rbx_dom_weak::types::Matrix3) -> M {
    [[o.x.x, o.x.y, o.x.z], [o.y.x, o.y.y, o.y.z], [o.z.x, o.z.y, o.z.z]]
}

pub fn from_m(a: &M) -> rbx_dom_weak::types::Matrix3 {
    use rbx_dom_weak::types::{Matrix3, Vector3};
    Matrix3::new(
        Vector3::new(a[0][0], a[0][1], a[0][2]),
        Vector3::new(a[1][0], a[1][1], a[1][2]),
        Vector3::new(a[2][0], a[2][1], a[2][2]),
    )
}
