//! C16: the bundled reflection database is coherent and closed under both codecs.
//! One exhaustive walk of the live structure through the public rbx_reflection types, then every
//! class's default instance through both codecs, then every (class, descriptor name) through
//! the codecs' lookup paths.

use std::collections::{BTreeMap, BTreeSet, HashSet};

use crate::canon;
use crate::dbwalk::{self, Ser};
use crate::expect::{self, XmlMode};
use crate::gen_dom::{type_ok, Fmt};
use crate::report::{catch, panic_sig, Report};
use crate::rng::Rng;
use crate::spec::{TreeSpec, PV};
use crate::Args;
use rbx_dom_weak::types::*;
use rbx_dom_weak::{InstanceBuilder, WeakDom};
use rbx_reflection::{DataType, PropertyKind, PropertySerialization};
use serde_json::{json, Value as J};

fn structural(rep: &mut Report) {
    let db = dbwalk::db();
    let mut n_classes = 0u64;
    let mut n_desc = 0u64;
    let mut n_defaults = 0u64;
    let mut shared_wire: BTreeMap<String, Vec<String>> = BTreeMap::new();
    for cname in dbwalk::sorted_class_names(db) {
        let c = &db.classes[cname];
        n_classes += 1;
        rep.evaluations += 1;
        if c.name != cname {
            rep.violation("C16:class-key-name", &format!("class keyed {} is named {}", cname, c.name), json!({"class": cname}), J::Null);
        }
        // superclass chain
        let mut seen = HashSet::new();
        let mut cur = Some(c);
        while let Some(k) = cur {
            if !seen.insert(k.name.to_string()) {
                rep.violation("C16:superclass-cycle", &format!("superclass chain of {} revisits {}", cname, k.name), json!({"class": cname}), J::Null);
                break;
            }
            cur = match &k.superclass {
                None => None,
                Some(s) => match db.classes.get(s.as_ref()) {
                    Some(x) => Some(x),
                    None => {
                        rep.violation("C16:superclass-dangling", &format!("{}: superclass {} of {} does not exist", cname, s, k.name), json!({"class": cname}), J::Null);
                        None
                    }
                },
            };
        }
        let mut wire_users: BTreeMap<String, BTreeSet<String>> = BTreeMap::new();
        let mut pnames: Vec<&str> = c.properties.keys().map(|k| k.as_ref()).collect();
        pnames.sort();
        for pn in pnames {
            let d = &c.properties[pn];
            n_desc += 1;
            rep.evaluations += 1;
            if d.name != pn {
                rep.violation("C16:descriptor-key-name", &format!("{}.{} is named {}", cname, pn, d.name), json!({"class": cname, "prop": pn}), J::Null);
            }
            if let DataType::Enum(e) = &d.data_type {
                if !db.enums.contains_key(e.as_ref()) {
                    rep.violation("C16:enum-dangling", &format!("{}.{} refers to enum {} which does not exist", cname, pn, e), json!({"class": cname, "prop": pn}), J::Null);
                }
            }
            match &d.kind {
                PropertyKind::Alias { alias_for } => match c.properties.get(alias_for.as_ref()) {
                    None => rep.violation("C16:alias-dangling", &format!("{}.{} is an alias for {} which is not a property of the same class", cname, pn, alias_for), json!({"class": cname, "prop": pn}), J::Null),
                    Some(t) => {
                        if !matches!(t.kind, PropertyKind::Canonical { .. }) {
                            rep.violation("C16:alias-of-non-canonical", &format!("{}.{} is an alias for {} which is not canonical", cname, pn, alias_for), json!({"class": cname, "prop": pn}), J::Null);
                        }
                    }
                },
                PropertyKind::Canonical { serialization } => match serialization {
                    PropertySerialization::SerializesAs(t) => {
                        match c.properties.get(t.as_ref()) {
                            None => rep.violation("C16:serializes-as-dangling", &format!("{}.{} serializes as {} which is not a property of the same class", cname, pn, t), json!({"class": cname, "prop": pn}), J::Null),
                            Some(td) => {
                                if dbwalk::vtype(td).is_none() {
                                    rep.violation("C16:serializes-as-untyped", &format!("{}.{} serializes as {} whose type is unknown", cname, pn, t), json!({"class": cname, "prop": pn}), J::Null);
                                }
                                // the wire name must lead back to a serializing property
                                match dbwalk::resolve(db, cname, t.as_ref()) {
                                    Some(r) if matches!(r.ser, Ser::As(_)) => {}
                                    _ => rep.violation("C16:serializes-as-not-serializable", &format!("{}.{} serializes as {} which does not resolve to a serializing property", cname, pn, t), json!({"class": cname, "prop": pn}), J::Null),
                                }
                                wire_users.entry(t.to_string()).or_default().insert(pn.to_owned());
                            }
                        }
                    }
                    PropertySerialization::Serializes => {
                        wire_users.entry(pn.to_owned()).or_default().insert(pn.to_owned());
                    }
                    PropertySerialization::Migrate(m) => match dbwalk::travel(db, cname, &m.new_property_name) {
                        Some(_) => {}
                        None => rep.violation("C16:migration-target", &format!("{}.{} migrates to {} which does not resolve to a serializable property", cname, pn, m.new_property_name), json!({"class": cname, "prop": pn}), J::Null),
                    },
                    PropertySerialization::DoesNotSerialize => {}
                    _ => rep.violation("C16:unknown-serialization-kind", &format!("{}.{}", cname, pn), json!({"class": cname, "prop": pn}), J::Null),
                },
                _ => rep.violation("C16:unknown-kind", &format!("{}.{}", cname, pn), json!({"class": cname, "prop": pn}), J::Null),
            }
        }
        for (w, users) in wire_users {
            if users.len() > 1 {
                shared_wire.insert(format!("{}.{}", cname, w), users.into_iter().collect());
            }
        }
        // defaults
        let mut dnames: Vec<&str> = c.default_properties.keys().map(|k| k.as_ref()).collect();
        dnames.sort();
        for dn in dnames {
            n_defaults += 1;
            rep.evaluations += 1;
            let v = &c.default_properties[dn];
            match dbwalk::resolve(db, cname, dn) {
                None => rep.violation("C16:default-unknown-property", &format!("{} has a default for {} which is not a property reachable from the class", cname, dn), json!({"class": cname, "prop": dn}), J::Null),
                Some(r) => {
                    let declared = dbwalk::vtype(r.canonical);
                    let wire = match r.ser {
                        Ser::As(s) => dbwalk::vtype(s),
                        _ => None,
                    };
                    let t = v.ty();
                    let ok = Some(t) == declared
                        || Some(t) == wire
                        || (declared == Some(VariantType::Enum) && matches!(t, VariantType::Enum | VariantType::EnumItem))
                        // coercions both codecs document (docs/compatibility.md, issue #301): narrower numerics widen
                        || (declared == Some(VariantType::Int64) && t == VariantType::Int32)
                        || (declared == Some(VariantType::Float64) && t == VariantType::Float32);
                    rep.count(&format!("default_type.{:?}", t));
                    if !ok {
                        rep.violation(
                            &format!("C16:default-type:{:?}", t),
                            &format!("default of {}.{} is a {:?}; the property is declared {:?} (serialized {:?})", cname, dn, t, declared, wire),
                            json!({"class": cname, "prop": dn}),
                            J::Null,
                        );
                    }
                    if let (Variant::Enum(e), DataType::Enum(en)) = (v, &r.canonical.data_type) {
                        if let Some(ed) = db.enums.get(en.as_ref()) {
                            if !ed.items.values().any(|x| *x == e.to_u32()) {
                                rep.count("default_enum_value_not_an_item");
                            }
                        }
                    }
                }
            }
        }
    }
    for (ename, e) in &db.enums {
        rep.evaluations += 1;
        if e.name != *ename {
            rep.violation("C16:enum-key-name", &format!("enum keyed {} is named {}", ename, e.name), J::Null, J::Null);
        }
    }
    rep.add("classes", n_classes);
    rep.add("descriptors", n_desc);
    rep.add("defaults", n_defaults);
    rep.add("enums", db.enums.len() as u64);
    rep.extra.insert(
        "informational_shared_wire_names".into(),
        json!(shared_wire),
    );
}

/// Default instance of every class through both codecs.
fn default_instances(rep: &mut Report, shard: u64, nshards: u64) {
    let db = dbwalk::db();
    for (ci, cname) in dbwalk::sorted_class_names(db).into_iter().enumerate() {
        if ci as u64 % nshards != shard {
            continue;
        }
        // all defaults visible on the class (nearest class wins)
        let mut defaults: BTreeMap<String, &Variant> = BTreeMap::new();
        for c in dbwalk::class_chain(db, cname) {
            for (k, v) in &c.default_properties {
                defaults.entry(k.to_string()).or_insert(v);
            }
        }
        for fmt in [Fmt::Binary, Fmt::Xml] {
            let mut spec = TreeSpec::new("DataModel");
            let id = spec.add(0, cname, "default");
            for (k, v) in &defaults {
                if k == "Name" {
                    continue;
                }
                if dbwalk::travel(db, cname, k).is_none() || !type_ok(fmt, v.ty()) {
                    continue;
                }
                if let Variant::Ref(_) = v {
                    spec.nodes[id].props.push((k.clone(), PV::Ref(crate::spec::RefT::Null)));
                } else {
                    spec.nodes[id].props.push((k.clone(), PV::V((*v).clone())));
                }
            }
            let replay = json!({"cmd": "c16", "class": cname, "fmt": format!("{:?}", fmt)});
            rep.evaluations += 1;
            rep.count(&format!("default_instance.{:?}", fmt));
            rep.nontrivial(crate::rng::fnv64(cname.as_bytes()) ^ (fmt == Fmt::Xml) as u64);
            if ci < 2 {
                rep.sample(json!({"class": cname, "format": format!("{:?}", fmt), "default_properties_written": spec.nodes[id].props.len()}));
            }
            let nan = fmt == Fmt::Xml;
            let exp = canon::with_nan_class(nan, || expect::expect_roundtrip(&spec, &[id], fmt, XmlMode::Default));
            let mut rng = Rng::new(1);
            let built = crate::spec::build(&spec, crate::spec::BuildMode::Nested, &mut rng);
            let roots = vec![built.refs[id]];
            let res = catch(|| -> Result<J, String> {
                let bytes = if fmt == Fmt::Binary {
                    crate::rt::write_binary(&built.dom, &roots, rbx_binary::CompressionType::Lz4)?
                } else {
                    crate::rt::write_xml(&built.dom, &roots, XmlMode::Default)?
                };
                let dom = if fmt == Fmt::Binary {
                    rbx_binary::from_reader(&bytes[..]).map_err(|e| format!("read: {}", e))?
                } else {
                    rbx_xml::from_reader_default(&bytes[..]).map_err(|e| format!("read: {}", e))?
                };
                Ok(canon::with_nan_class(nan, || canon::dump_decoded(&dom)))
            });
            match res {
                Err(p) => rep.violation(&format!("C16:default-instance:{}", panic_sig(&p)), &format!("{} default instance ({:?}): {}", cname, fmt, p.msg), replay, J::Null),
                Ok(Err(e)) => {
                    let ec: String = e.split(':').take(2).collect::<Vec<_>>().join(":").chars().take(50).filter(|c| !c.is_ascii_digit()).collect();
                    rep.violation(&format!("C16:default-instance-error:{:?}:{}", fmt, ec), &format!("{} default instance: {}", cname, e), replay, J::Null)
                }
                Ok(Ok(dump)) => {
                    if let Some(m) = canon::with_nan_class(nan, || expect::compare(&exp, &dump, fmt == Fmt::Binary)) {
                        rep.violation(
                            &format!("C16:default-instance-changed:{:?}:{}:{}", fmt, m.kind, m.vtype),
                            &format!("{} default instance came back changed ({:?}): {}.{} expected {} got {}", cname, fmt, m.class, m.prop, m.expected, m.actual),
                            replay,
                            J::Null,
                        );
                    }
                }
            }
        }
    }
}

/// The defaults the binary writer fills gaps with are looked up per CLASS (nearest class in the superclass chain wins):
/// for every class, one instance sets every travelling default-carrying property to some other value and a second,
/// bare instance of the class must come back with exactly the database default visible on that class.
fn default_fill(rep: &mut Report, shard: u64, nshards: u64) {
    let db = dbwalk::db();
    let g = crate::gen_value::VGen::binary();
    let no = |_: Ref| J::Null;
    for (ci, cname) in dbwalk::sorted_class_names(db).into_iter().enumerate() {
        if ci as u64 % nshards != shard {
            continue;
        }
        let mut rng = Rng::derive(11, "c16-default-fill", ci as u64);
        let mut defaults: BTreeMap<String, &Variant> = BTreeMap::new();
        for c in dbwalk::class_chain(db, cname) {
            for (k, v) in &c.default_properties {
                defaults.entry(k.to_string()).or_insert(v);
            }
        }
        let mut donor = InstanceBuilder::new(cname).with_name("donor");
        let mut expected: Vec<(String, J)> = vec![];
        for (k, v) in &defaults {
            if k == "Name" || matches!(v, Variant::Ref(_) | Variant::UniqueId(_)) || !type_ok(Fmt::Binary, v.ty()) {
                continue;
            }
            match dbwalk::travel(db, cname, k) {
                Some(t) if &t.back_name == k && type_ok(Fmt::Binary, t.wire_ty) => {}
                _ => continue,
            }
            let other = match v.ty() {
                VariantType::Enum => Variant::Enum(Enum::from_u32(7)),
                t => match g.gen(&mut rng, t) {
                    Some(x) => x,
                    None => continue,
                },
            };
            donor.add_property(k.as_str(), other);
            expected.push((k.clone(), canon::value(v, &no)));
        }
        if expected.is_empty() {
            continue;
        }
        let dom = WeakDom::new(InstanceBuilder::new("DataModel").with_child(donor).with_child(InstanceBuilder::new(cname).with_name("bare")));
        let roots = dom.root().children().to_vec();
        let replay = json!({"cmd": "c16", "part": "default-fill", "class": cname});
        rep.evaluations += 1;
        rep.count("default_fill.classes");
        rep.add("default_fill.properties", expected.len() as u64);
        let res = catch(|| -> Result<J, String> {
            let bytes = crate::rt::write_binary(&dom, &roots, rbx_binary::CompressionType::None)?;
            let d = rbx_binary::from_reader(&bytes[..]).map_err(|e| format!("read: {}", e))?;
            Ok(canon::dump_decoded(&d))
        });
        match res {
            Err(p) => rep.violation(&format!("C16:default-fill:{}", panic_sig(&p)), &format!("{}: {}", cname, p.msg), replay, J::Null),
            Ok(Err(e)) => {
                let ec: String = e.split(':').take(2).collect::<Vec<_>>().join(":").chars().take(50).filter(|c| !c.is_ascii_digit()).collect();
                rep.violation(&format!("C16:default-fill-error:{}", ec), &format!("{}: {}", cname, e), replay, J::Null)
            }
            Ok(Ok(dump)) => {
                let bare = &dump["roots"][1]["props"];
                for (k, want) in &expected {
                    match bare.get(k) {
                        Some(got) if got == want => {}
                        Some(got) => rep.violation(
                            &format!("C16:class-default-not-used:{}", want["t"].as_str().unwrap_or("?")),
                            &format!("{}.{}: an instance lacking the property was written with {} although the default visible on the class is {}", cname, k, got, want),
                            replay.clone(),
                            J::Null,
                        ),
                        None => rep.violation("C16:default-fill-missing", &format!("{}.{}: the column exists but the bare instance has no value", cname, k), replay.clone(), J::Null),
                    }
                }
            }
        }
    }
}

/// "...and for any database regenerated by rbx_reflector": a copy of the bundled database with one more serializes-as pair
/// on Folder is handed to both codecs through their public options, in every order the option builders allow. The
/// codecs must use THAT database (wire name, canonical name on the way back, no "unknown property") and the order in
/// which options are chained must not matter.
fn custom_database(rep: &mut Report) {
    use rbx_reflection::{DataType as DT, PropertyDescriptor, PropertyKind as PK, PropertySerialization as PS};
    let mut db2 = rbx_reflection_database::get().clone();
    {
        let folder = db2.classes.get_mut("Folder").expect("Folder");
        let mut canon_d = PropertyDescriptor::new("VerifProp", DT::Value(VariantType::String));
        canon_d.kind = PK::Canonical { serialization: PS::SerializesAs("verif_prop_wire".into()) };
        let mut alias_d = PropertyDescriptor::new("verif_prop_wire", DT::Value(VariantType::String));
        alias_d.kind = PK::Alias { alias_for: "VerifProp".into() };
        folder.properties.insert("VerifProp".into(), canon_d);
        folder.properties.insert("verif_prop_wire".into(), alias_d);
        folder.default_properties.insert("VerifProp".into(), Variant::String("dflt".into()));
    }
    let dom = WeakDom::new(
        InstanceBuilder::new("DataModel")
            .with_child(InstanceBuilder::new("Folder").with_name("a").with_property("VerifProp", Variant::String("custom-db-value".into())))
            .with_child(InstanceBuilder::new("Folder").with_name("b")),
    );
    let roots = dom.root().children().to_vec();
    let replay = json!({"cmd": "c16", "part": "custom-database"});
    let mut bad = |rep: &mut Report, sig: &str, what: String| rep.violation(&format!("C16:custom-database:{}", sig), &what, replay.clone(), J::Null);
    let contains = |hay: &[u8], needle: &[u8]| hay.windows(needle.len()).any(|w| w == needle);
    // ---- binary, both chain orders x three compression types
    for c in [rbx_binary::CompressionType::None, rbx_binary::CompressionType::Lz4, rbx_binary::CompressionType::Zstd] {
        rep.evaluations += 1;
        rep.count("custom_database.binary_chains");
        let run = |first_db: bool| -> Result<Result<Vec<u8>, String>, crate::report::PanicInfo> {
            catch(|| {
                let s = if first_db { rbx_binary::Serializer::new().reflection_database(&db2).compression_type(c) } else { rbx_binary::Serializer::new().compression_type(c).reflection_database(&db2) };
                let mut v = vec![];
                s.serialize(&mut v, &dom, &roots).map_err(|e| e.to_string())?;
                Ok(v)
            })
        };
        match (run(true), run(false)) {
            (Ok(Ok(a)), Ok(Ok(b))) => {
                if a != b {
                    bad(rep, "binary:option-order", format!("Serializer: reflection_database().compression_type({:?}) gives {} bytes, the other order {} bytes", c, a.len(), b.len()));
                }
                if c == rbx_binary::CompressionType::None && (!contains(&a, b"verif_prop_wire") || !contains(&b, b"verif_prop_wire")) {
                    bad(rep, "binary:not-used", "the custom database's serialized name does not appear in the file: the writer fell back to another database".into());
                }
                let back = catch(|| rbx_binary::Deserializer::new().reflection_database(&db2).deserialize(&a[..]).map_err(|e| e.to_string()));
                match back {
                    Ok(Ok(d)) => {
                        let kids = d.root().children().to_vec();
                        let get = |i: usize| kids.get(i).and_then(|r| d.get_by_ref(*r)).and_then(|x| x.properties.get(&rbx_dom_weak::ustr("VerifProp")).cloned());
                        if get(0) != Some(Variant::String("custom-db-value".into())) || get(1) != Some(Variant::String("dflt".into())) {
                            bad(rep, "binary:read-back", format!("with the custom database on both sides VerifProp reads back as {:?} / {:?}", get(0), get(1)));
                        }
                    }
                    Ok(Err(e)) => bad(rep, "binary:read-error", e),
                    Err(p) => bad(rep, "binary:read-panic", p.msg),
                }
            }
            (x, y) => bad(rep, "binary:write", format!("{:?} / {:?}", x.map(|r| r.map(|v| v.len())).map_err(|p| p.msg), y.map(|r| r.map(|v| v.len())).map_err(|p| p.msg))),
        }
    }
    // ---- XML, both chain orders x the three behaviours
    use rbx_xml::{DecodeOptions, DecodePropertyBehavior as D, EncodeOptions, EncodePropertyBehavior as E};
    for (e, dmode) in [(E::ErrorOnUnknown, D::ErrorOnUnknown), (E::IgnoreUnknown, D::IgnoreUnknown), (E::WriteUnknown, D::ReadUnknown)] {
        rep.evaluations += 1;
        rep.count("custom_database.xml_chains");
        let run = |first_db: bool| -> Result<Result<Vec<u8>, String>, crate::report::PanicInfo> {
            catch(|| {
                let o = if first_db { EncodeOptions::new().reflection_database(&db2).property_behavior(e) } else { EncodeOptions::new().property_behavior(e).reflection_database(&db2) };
                let mut v = vec![];
                rbx_xml::to_writer(&mut v, &dom, &roots, o).map_err(|e| e.to_string())?;
                Ok(v)
            })
        };
        match (run(true), run(false)) {
            (Ok(Ok(a)), Ok(Ok(b))) => {
                if a != b {
                    bad(rep, "xml:option-order", format!("EncodeOptions: reflection_database().property_behavior({:?}) and the other order give different documents", e));
                }
                if !contains(&a, b"verif_prop_wire") || !contains(&b, b"verif_prop_wire") {
                    bad(rep, "xml:not-used", format!("the custom database's serialized name does not appear in the document ({:?}): the writer fell back to another database", e));
                }
                for first_db in [true, false] {
                    let o = if first_db { DecodeOptions::new().reflection_database(&db2).property_behavior(dmode) } else { DecodeOptions::new().property_behavior(dmode).reflection_database(&db2) };
                    match catch(|| rbx_xml::from_reader(&a[..], o).map_err(|e| e.to_string())) {
                        Ok(Ok(d)) => {
                            let kid = d.root().children().first().and_then(|r| d.get_by_ref(*r));
                            let got = kid.and_then(|x| x.properties.get(&rbx_dom_weak::ustr("VerifProp")).cloned());
                            if got != Some(Variant::String("custom-db-value".into())) {
                                bad(rep, "xml:read-back", format!("DecodeOptions (database first: {}) {:?}: VerifProp reads back as {:?}", first_db, dmode, got));
                            }
                        }
                        Ok(Err(er)) => bad(rep, "xml:read-error", format!("DecodeOptions (database first: {}) {:?}: {}", first_db, dmode, er)),
                        Err(p) => bad(rep, "xml:read-panic", p.msg),
                    }
                }
            }
            (x, y) => bad(rep, "xml:write", format!("{:?}: {:?} / {:?}", e, x.map(|r| r.map(|v| v.len())).map_err(|p| p.msg), y.map(|r| r.map(|v| v.len())).map_err(|p| p.msg))),
        }
    }
}

/// "...any database regenerated by rbx_reflector": the reflector writes a database through its Serialize impl as
/// MessagePack (`rmp_serde::to_vec`, or human-readable with struct maps) or JSON, and the codecs later load it through
/// Deserialize. The bundled database goes through each of the three encodings and back and must come out with exactly
/// the classes, superclasses, tags, descriptors (name, type, kind, tags), defaults and enums it went in with.
fn reserialize(rep: &mut Report) {
    use serde::Serialize;
    let db = dbwalk::db();
    let no = |_: Ref| J::Null;
    let describe = |d: &rbx_reflection::ReflectionDatabase| -> BTreeMap<String, String> {
        let mut m = BTreeMap::new();
        m.insert("#version".into(), format!("{:?}", d.version));
        for (cn, c) in &d.classes {
            let mut tags: Vec<String> = c.tags.iter().map(|t| format!("{:?}", t)).collect();
            tags.sort();
            m.insert(format!("class {}", cn), format!("name={} super={:?} tags={:?}", c.name, c.superclass, tags));
            for (pn, p) in &c.properties {
                let mut ptags: Vec<String> = p.tags.iter().map(|t| format!("{:?}", t)).collect();
                ptags.sort();
                m.insert(format!("prop {}.{}", cn, pn), format!("name={} type={:?} kind={:?} scriptability={:?} tags={:?}", p.name, p.data_type, p.kind, p.scriptability, ptags));
            }
            for (dn, dv) in &c.default_properties {
                m.insert(format!("default {}.{}", cn, dn), canon::value(dv, &no).to_string());
            }
        }
        for (en, e) in &d.enums {
            let mut items: Vec<(String, u32)> = e.items.iter().map(|(k, v)| (k.to_string(), *v)).collect();
            items.sort();
            m.insert(format!("enum {}", en), format!("name={} items={:?}", e.name, items));
        }
        m
    };
    let want = describe(db);
    let encodings: Vec<(&str, Box<dyn Fn() -> Result<rbx_reflection::ReflectionDatabase<'static>, String>>)> = vec![
        ("msgpack", Box::new(|| {
            let b = rmp_serde::to_vec(db).map_err(|e| e.to_string())?;
            rmp_serde::from_slice(&b).map_err(|e| e.to_string())
        })),
        ("msgpack-human-readable", Box::new(|| {
            let mut b = Vec::new();
            let mut ser = rmp_serde::Serializer::new(&mut b).with_human_readable().with_struct_map();
            db.serialize(&mut ser).map_err(|e| e.to_string())?;
            // read back the way it was written (a plain from_slice is not human-readable and expects other forms)
            let mut de = rmp_serde::Deserializer::new(&b[..]).with_human_readable();
            serde::Deserialize::deserialize(&mut de).map_err(|e| e.to_string())
        })),
    ];
    // the JSON form is written for the Lua side (rbx_dom_lua/src/database.json) and is never read back by the Rust
    // codecs: writing it must succeed and keep every class; its contents are cross-checked by lua_copy()
    rep.evaluations += 1;
    match catch(|| serde_json::to_value(db).map_err(|e| e.to_string())) {
        Ok(Ok(v)) => {
            let n = v["Classes"].as_object().map(|o| o.len()).unwrap_or(0);
            if n != db.classes.len() {
                rep.violation("C16:reserialize:json:classes", &format!("the JSON form holds {} classes, the database {}", n, db.classes.len()), json!({"cmd": "c16", "part": "reserialize"}), J::Null);
            }
            let props: usize = v["Classes"].as_object().map(|o| o.values().map(|c| c["Properties"].as_object().map(|p| p.len()).unwrap_or(0)).sum()).unwrap_or(0);
            let want_props: usize = db.classes.values().map(|c| c.properties.len()).sum();
            if props != want_props {
                rep.violation("C16:reserialize:json:descriptors", &format!("the JSON form holds {} property descriptors, the database {}", props, want_props), json!({"cmd": "c16", "part": "reserialize"}), J::Null);
            }
        }
        Ok(Err(e)) => rep.violation("C16:reserialize:json:error", &e, json!({"cmd": "c16", "part": "reserialize"}), J::Null),
        Err(p) => rep.violation("C16:reserialize:json:panic", &p.msg, json!({"cmd": "c16", "part": "reserialize"}), J::Null),
    }
    for (name, f) in encodings {
        rep.evaluations += 1;
        rep.count(&format!("reserialize.{}", name));
        let replay = json!({"cmd": "c16", "part": "reserialize", "encoding": name});
        match catch(|| f()) {
            Err(p) => rep.violation(&format!("C16:reserialize:{}:panic", name), &p.msg, replay, J::Null),
            Ok(Err(e)) => rep.violation(&format!("C16:reserialize:{}:error", name), &format!("the database does not survive its own {} encoding: {}", name, e), replay, J::Null),
            Ok(Ok(back)) => {
                let got = describe(&back);
                rep.add(&format!("reserialize.{}.facts_compared", name), want.len() as u64);
                let missing: Vec<&String> = want.keys().filter(|k| !got.contains_key(*k)).collect();
                let extra: Vec<&String> = got.keys().filter(|k| !want.contains_key(*k)).collect();
                let changed: Vec<&String> = want.iter().filter(|(k, v)| got.get(*k).map(|g| g != *v).unwrap_or(false)).map(|(k, _)| k).collect();
                if !missing.is_empty() || !extra.is_empty() || !changed.is_empty() {
                    rep.violation(
                        &format!("C16:reserialize:{}:differs", name),
                        &format!("a database regenerated through {} differs from the one it was written from: {} facts lost (e.g. {:?}), {} gained, {} changed (e.g. {:?})",
                                 name, missing.len(), missing.iter().take(3).collect::<Vec<_>>(), extra.len(), changed.len(), changed.iter().take(3).collect::<Vec<_>>()),
                        replay,
                        J::Null,
                    );
                }
            }
        }
    }
}

/// Every (class, own descriptor name) once through the writers' and readers' lookup paths.
fn lookups(rep: &mut Report, shard: u64, nshards: u64) {
    let db = dbwalk::db();
    let g = crate::gen_value::VGen::xml();
    let mut rng = Rng::new(7);
    for (ci, cname) in dbwalk::sorted_class_names(db).into_iter().enumerate() {
        if ci as u64 % nshards != shard {
            continue;
        }
        let c = &db.classes[cname];
        let mut pnames: Vec<&str> = c.properties.keys().map(|k| k.as_ref()).collect();
        pnames.sort();
        for pn in pnames {
            if pn == "Name" {
                continue;
            }
            let d = &c.properties[pn];
            let ty = dbwalk::vtype(d).unwrap_or(VariantType::Bool);
            let second = InstanceBuilder::new(cname);
            let second_ref = second.referent();
            let v = match ty {
                // a real reference (to the second instance of the file), so that the readers' deferred
                // referent resolution has to land under the right name too
                VariantType::Ref => Variant::Ref(second_ref),
                // an actual item of the property's enum (arbitrary numbers are C15's business)
                VariantType::Enum => {
                    let item = match &d.data_type {
                        DataType::Enum(en) => db.enums.get(en.as_ref()).and_then(|e| e.items.values().min().copied()),
                        _ => None,
                    };
                    Variant::Enum(Enum::from_u32(item.unwrap_or(0)))
                }
                t => g.gen(&mut rng, t).unwrap_or(Variant::Bool(true)),
            };
            rep.evaluations += 1;
            rep.count("lookups.descriptor_names");
            let replay = json!({"cmd": "c16", "class": cname, "prop": pn});
            // The way Studio writes a ContentId property (and the way rbx_reflector therefore meets it when it reads the
            // defaults place to regenerate the database): a <Content> element holding <null> or <url>. What the reader
            // stores must have the type the database declares, or the regenerated defaults are of the wrong type.
            if ty == VariantType::ContentId {
                if let Some(t) = dbwalk::travel(db, cname, pn) {
                    if t.declared_ty == VariantType::ContentId && t.wire_ty == VariantType::ContentId {
                        for (label, inner, want) in [("null", "<null></null>", ""), ("url", "<url>rbxassetid://3</url>", "rbxassetid://3")] {
                            rep.count("lookups.studio-style-contentid");
                            let doc = format!("<roblox version=\"4\"><Item class=\"{}\" referent=\"R0\"><Properties><string name=\"Name\">x</string><Content name=\"{}\">{}</Content></Properties></Item></roblox>", cname, t.wire_name, inner);
                            match catch(|| rbx_xml::from_str_default(&doc).map_err(|e| e.to_string())) {
                                Ok(Ok(d)) => {
                                    let got = d.root().children().first().and_then(|r| d.get_by_ref(*r)).and_then(|i| i.properties.get(&rbx_dom_weak::ustr(t.back_name.as_str())).cloned());
                                    if got != Some(Variant::ContentId(want.into())) {
                                        rep.violation(&format!("C16:studio-style-contentid:{}", label), &format!("{}.{} written as <Content>{}</Content> is read as {:?}; the database declares ContentId", cname, t.wire_name, inner, got), replay.clone(), J::Null);
                                    }
                                }
                                Ok(Err(e)) => rep.violation(&format!("C16:studio-style-contentid:read-error:{}", label), &format!("{}.{}: {}", cname, t.wire_name, e), replay.clone(), J::Null),
                                Err(p) => rep.violation(&format!("C16:studio-style-contentid:{}", panic_sig(&p)), &p.msg, replay.clone(), J::Null),
                            }
                        }
                    }
                }
            }
            // a second, bare instance of the class: the binary writer fills its gap from the database default,
            // looked up from whatever spelling the first instance used
            let dom = WeakDom::new(InstanceBuilder::new("DataModel").with_child(InstanceBuilder::new(cname).with_property(pn, v)).with_child(second));
            let roots = dom.root().children().to_vec();
            // what the database itself says about this name (independent walk): does it travel, and under which name does it come back
            let travels = dbwalk::travel(db, cname, pn).filter(|t| {
                let f = if true { Fmt::Binary } else { Fmt::Xml };
                let _ = f;
                type_ok(Fmt::Binary, ty) && type_ok(Fmt::Xml, ty) && type_ok(Fmt::Binary, t.wire_ty) && type_ok(Fmt::Xml, t.wire_ty) && t.back_name != "Name"
            });
            for fmt in ["bin", "xml"] {
                let res = catch(|| {
                    let bytes = if fmt == "bin" {
                        crate::rt::write_binary(&dom, &roots, rbx_binary::CompressionType::None)
                    } else {
                        crate::rt::write_xml(&dom, &roots, XmlMode::Default)
                    };
                    match bytes {
                        Ok(b) => {
                            let r = if fmt == "bin" { rbx_binary::from_reader(&b[..]).map_err(|e| e.to_string()) } else { rbx_xml::from_reader_default(&b[..]).map_err(|e| e.to_string()) };
                            let r = r.map(|d| {
                                // the codecs' own lookup must agree with the database: a travelling property comes back under its name
                                if let Some(t) = &travels {
                                    let first = d.root().children().first().and_then(|c| d.get_by_ref(*c));
                                    if let Some(inst) = first {
                                        if !inst.properties.contains_key(&rbx_dom_weak::ustr(&t.back_name)) {
                                            return Err(t.back_name.clone());
                                        }
                                        if ty == VariantType::Ref {
                                            let want = d.root().children().get(1).copied();
                                            match inst.properties.get(&rbx_dom_weak::ustr(&t.back_name)) {
                                                Some(Variant::Ref(r)) if Some(*r) == want => {}
                                                other => return Err(format!("REF:{} holds {:?} instead of the reference to the second instance", t.back_name, other)),
                                            }
                                            if inst.properties.len() > 1 + inst.properties.contains_key(&rbx_dom_weak::ustr("Name")) as usize && fmt == "xml" {
                                                let extra: Vec<String> = inst.properties.keys().map(|k| k.to_string()).filter(|k| k != &t.back_name && k != "Name").collect();
                                                if !extra.is_empty() {
                                                    return Err(format!("REF:{} came back together with stray properties {:?}", t.back_name, extra));
                                                }
                                            }
                                        }
                                    }
                                    let second = d.root().children().get(1).and_then(|c| d.get_by_ref(*c));
                                    if let (true, Some(inst), Some(def)) = (fmt == "bin", second, dbwalk::default_for(db, cname, &t.back_name)) {
                                        let no = |_: Ref| J::Null;
                                        let want = canon::value(def, &no);
                                        let got = inst.properties.get(&rbx_dom_weak::ustr(&t.back_name)).map(|v| canon::value(v, &no));
                                        if let Some(g) = got {
                                            if g != want && g["t"] != "UniqueId" && g["t"] != "Ref" {
                                                return Err(format!("DEFAULT:{} is {} on an instance that lacked it; the database default is {}", t.back_name, g, want));
                                            }
                                        }
                                    }
                                }
                                Ok(())
                            });
                            match r {
                                Ok(Ok(())) => (true, Ok(())),
                                Ok(Err(missing)) => (true, Err(format!("LOST:{}", missing))),
                                Err(e) => (true, Err(e)),
                            }
                        }
                        Err(e) => (false, Err(e)),
                    }
                });
                match res {
                    Err(p) => rep.violation(&format!("C16:lookup:{}:{}", fmt, panic_sig(&p)), &format!("{}.{} ({}): {}", cname, pn, fmt, p.msg), replay.clone(), J::Null),
                    Ok((true, Err(e))) if e.starts_with("LOST:REF:") => rep.violation(
                        &format!("C16:ref-lookup-lands-elsewhere:{}", fmt),
                        &format!("{}.{} ({}): {}", cname, pn, fmt, &e[9..]),
                        replay.clone(),
                        J::Null,
                    ),
                    Ok((true, Err(e))) if e.starts_with("LOST:DEFAULT:") => rep.violation(
                        &format!("C16:default-lookup-failed:{}.{}", cname, pn),
                        &format!("{}.{}: first met under this spelling, {}", cname, pn, &e[13..]),
                        replay.clone(),
                        J::Null,
                    ),
                    Ok((true, Err(e))) if e.starts_with("LOST:") => rep.violation(
                        &format!("C16:lookup-disagrees-with-database:{}", fmt),
                        &format!("{}.{}: the database says this property serializes and comes back as {}, but the {} codec's lookup drops it", cname, pn, &e[5..], fmt),
                        replay.clone(),
                        J::Null,
                    ),
                    Ok((true, Err(e))) => {
                        let ec: String = e.split(':').next().unwrap_or("").chars().take(40).filter(|c| !c.is_ascii_digit()).collect();
                        rep.violation(&format!("C16:lookup-own-output-rejected:{}:{}", fmt, ec), &format!("{}.{}: the {} reader rejects the writer's output: {}", cname, pn, fmt, e), replay.clone(), J::Null)
                    }
                    Ok((false, Err(_))) => rep.count(&format!("lookups.{}.write_refused", fmt)),
                    Ok(_) => rep.count(&format!("lookups.{}.ok", fmt)),
                }
            }
        }
    }
}

fn lua_copy(rep: &mut Report, repo: &str) {
    let path = format!("{}/rbx_dom_lua/src/database.json", repo);
    let text = match std::fs::read_to_string(&path) {
        Ok(t) => t,
        Err(e) => {
            rep.notes.push(format!("INCONCLUSIVE cannot read {}: {}", path, e));
            return;
        }
    };
    let j: J = match serde_json::from_str(&text) {
        Ok(j) => j,
        Err(e) => {
            rep.violation("C16:lua-copy-unparsable", &format!("{}", e), J::Null, J::Null);
            return;
        }
    };
    let db = dbwalk::db();
    rep.evaluations += 1;
    let v: Vec<u64> = j["Version"].as_array().map(|a| a.iter().filter_map(|x| x.as_u64()).collect()).unwrap_or_default();
    if v != db.version.iter().map(|x| *x as u64).collect::<Vec<_>>() {
        rep.violation("C16:lua-copy-version", &format!("database.json version {:?}, msgpack {:?}", v, db.version), J::Null, J::Null);
    }
    let lc = j["Classes"].as_object().cloned().unwrap_or_default();
    let a: BTreeSet<String> = lc.keys().cloned().collect();
    let b: BTreeSet<String> = db.classes.keys().map(|k| k.to_string()).collect();
    if a != b {
        rep.violation("C16:lua-copy-classes", &format!("class sets differ: only json {:?}, only msgpack {:?}", a.difference(&b).take(5).collect::<Vec<_>>(), b.difference(&a).take(5).collect::<Vec<_>>()), J::Null, J::Null);
    }
    let mut compared = 0u64;
    for (cn, c) in &db.classes {
        if let Some(lcl) = lc.get(cn.as_ref()) {
            let lp = lcl["Properties"].as_object().cloned().unwrap_or_default();
            let pa: BTreeSet<String> = lp.keys().cloned().collect();
            let pb: BTreeSet<String> = c.properties.keys().map(|k| k.to_string()).collect();
            if pa != pb {
                rep.violation("C16:lua-copy-properties", &format!("{}: property sets differ", cn), json!({"class": cn}), J::Null);
            }
            for (pn, d) in &c.properties {
                compared += 1;
                let kind = match &d.kind {
                    PropertyKind::Canonical { .. } => "Canonical",
                    PropertyKind::Alias { .. } => "Alias",
                    _ => "?",
                };
                if let Some(ld) = lp.get(pn.as_ref()) {
                    if ld["Kind"].get(kind).is_none() {
                        rep.violation("C16:lua-copy-kind", &format!("{}.{}: kind differs ({} vs {})", cn, pn, kind, ld["Kind"]), json!({"class": cn, "prop": pn}), J::Null);
                    }
                }
            }
        }
    }
    rep.add("lua_copy.descriptors_compared", compared);
}

/// A database "regenerated from a newer dump": for every migrating property of the bundled database, the descriptor of
/// the migration TARGET (and its default) is moved from the class that declares it to that class's superclass - what
/// the generator produces when Roblox hoists a property into a base class while patches/ stay as they are. The result is
/// coherent in the sense of C16 (targets resolve through the superclass chain), so with it on both sides a legacy value
/// must come out of each codec under the new name with the value it has with the bundled database.
fn hoisted_targets(rep: &mut Report) {
    use rbx_reflection::{PropertyKind as PK, PropertySerialization as PS};
    let db = rbx_reflection_database::get();
    let mut migs: Vec<(String, String, String)> = vec![];
    for cname in dbwalk::sorted_class_names(db) {
        let c = &db.classes[cname];
        let mut names: Vec<&str> = c.properties.keys().map(|k| k.as_ref()).collect();
        names.sort();
        for pn in names {
            if let PK::Canonical { serialization: PS::Migrate(m) } = &c.properties[pn].kind {
                migs.push((cname.to_owned(), pn.to_owned(), m.new_property_name.to_string()));
            }
        }
    }
    for (cname, legacy, target) in migs {
        let class = &db.classes[cname.as_str()];
        let sup = match &class.superclass {
            Some(s) => s.to_string(),
            None => continue,
        };
        if !class.properties.contains_key(target.as_str()) || db.classes[sup.as_str()].properties.contains_key(target.as_str()) {
            continue;
        }
        // the target travels with the descriptors that belong to it (its aliases, among them the name it serializes
        // as), or the copy would no longer be coherent
        let mut moved: Vec<String> = vec![target.clone()];
        for (k, d) in &class.properties {
            if let PK::Alias { alias_for } = &d.kind {
                if alias_for.as_ref() == target.as_str() {
                    moved.push(k.to_string());
                }
            }
        }
        if moved.iter().any(|k| db.classes[sup.as_str()].properties.contains_key(k.as_str())) {
            continue;
        }
        let mut db2 = db.clone();
        for k in &moved {
            let (tk, td) = db2.classes.get_mut(cname.as_str()).unwrap().properties.remove_entry(k.as_str()).unwrap();
            let dflt = db2.classes.get_mut(cname.as_str()).unwrap().default_properties.remove_entry(k.as_str());
            let s2 = db2.classes.get_mut(sup.as_str()).unwrap();
            s2.properties.insert(tk, td);
            if let Some((k, v)) = dflt {
                s2.default_properties.entry(k).or_insert(v);
            }
        }
        // an instantiable class at or below the declaring class
        let mut cands = vec![cname.clone()];
        cands.extend(dbwalk::sorted_class_names(db).into_iter().filter(|c| dbwalk::class_chain(db, c).iter().any(|k| k.name == cname)).map(|s| s.to_owned()));
        let inst_class = cands.into_iter().find(|c| !db.classes[c.as_str()].tags.contains(&rbx_reflection::ClassTag::NotCreatable)).unwrap_or(cname.clone());
        let lty = match dbwalk::vtype(&class.properties[legacy.as_str()]) {
            Some(t) => t,
            None => continue,
        };
        let values: Vec<Variant> = match lty {
            VariantType::BrickColor => vec![Variant::BrickColor(BrickColor::ReallyBlue), Variant::BrickColor(BrickColor::from_number(21).unwrap())],
            VariantType::Bool => vec![Variant::Bool(true), Variant::Bool(false)],
            VariantType::Enum => vec![Variant::Enum(Enum::from_u32(4)), Variant::Enum(Enum::from_u32(1))],
            VariantType::ContentId => vec![Variant::ContentId("rbxassetid://5".into()), Variant::ContentId("".into())],
            VariantType::Content => vec![Variant::Content(Content::from_uri("rbxassetid://5"))],
            _ => continue,
        };
        for lv in values {
            let dom = WeakDom::new(InstanceBuilder::new("DataModel").with_child(InstanceBuilder::new(inst_class.as_str()).with_name("x").with_property(legacy.as_str(), lv.clone())));
            let roots = dom.root().children().to_vec();
            let replay = json!({"cmd": "c16", "part": "hoisted-targets", "class": inst_class, "legacy": legacy});
            let no = |_: Ref| J::Null;
            let pick = |d: &WeakDom| -> Option<J> {
                let k = d.root().children().first().and_then(|r| d.get_by_ref(*r))?;
                k.properties.get(&rbx_dom_weak::ustr(target.as_str())).map(|v| canon::value(v, &no))
            };
            for fmt in ["binary", "xml"] {
                rep.evaluations += 1;
                rep.count(&format!("hoisted_targets.{}", fmt));
                let run = |dbx: &'static rbx_reflection::ReflectionDatabase<'static>| -> Result<Result<Option<J>, String>, crate::report::PanicInfo> {
                    let dom = &dom;
                    let roots = &roots;
                    let pick = &pick;
                    catch(move || {
                        let mut v = vec![];
                        if fmt == "binary" {
                            rbx_binary::Serializer::new().reflection_database(dbx).serialize(&mut v, dom, roots).map_err(|e| format!("write: {}", e))?;
                            let d = rbx_binary::Deserializer::new().reflection_database(dbx).deserialize(&v[..]).map_err(|e| format!("read: {}", e))?;
                            Ok(pick(&d))
                        } else {
                            rbx_xml::to_writer(&mut v, dom, roots, rbx_xml::EncodeOptions::new().reflection_database(dbx)).map_err(|e| format!("write: {}", e))?;
                            let d = rbx_xml::from_reader(&v[..], rbx_xml::DecodeOptions::new().reflection_database(dbx)).map_err(|e| format!("read: {}", e))?;
                            Ok(pick(&d))
                        }
                    })
                };
                // the codecs want a 'static database: leak this handful of copies (a few MB per run)
                let leaked: &'static rbx_reflection::ReflectionDatabase<'static> = Box::leak(Box::new(db2.clone()));
                let base = run(db);
                let got = run(leaked);
                let show = |r: &Result<Result<Option<J>, String>, crate::report::PanicInfo>| match r {
                    Ok(Ok(v)) => format!("{:?}", v.as_ref().map(|j| j.to_string())),
                    Ok(Err(e)) => format!("error {}", e),
                    Err(p) => format!("panic {}", p.msg),
                };
                let same = match (&base, &got) {
                    (Ok(Ok(a)), Ok(Ok(b))) => a == b,
                    (Ok(Err(_)), Ok(Err(_))) => true,
                    _ => false,
                };
                if !same {
                    rep.violation(
                        &format!("C16:hoisted-target:{}:{}.{}", fmt, cname, legacy),
                        &format!("{} {}.{} = {:?}: with the bundled database {} is {}, with the target declared by {} instead it is {}", fmt, inst_class, legacy, lv, target, show(&base), sup, show(&got)),
                        replay.clone(),
                        J::Null,
                    );
                }
            }
        }
    }
}

/// A database that knows a migration the bundled one does not (the documented "Roblox added a migration, use an updated
/// database" situation): Folder gains `VerifOldId` (ContentId) migrating to `VerifNewContent` (Content), and the same pair
/// with names that sort the other way round. With that database on both sides, in both codecs: a legacy value alone comes
/// back migrated under the new name; next to an explicit new value the explicit one wins, whatever the insertion order.
pub fn added_migration(rep: &mut Report, prefix: &str) {
    use rbx_reflection::{DataType as DT, PropertyDescriptor, PropertyKind as PK, PropertySerialization as PS};
    let db = rbx_reflection_database::get();
    let template = match &db.classes["ImageLabel"].properties.get("Image").map(|d| d.kind.clone()) {
        Some(PK::Canonical { serialization: PS::Migrate(m) }) => m.clone(),
        _ => {
            rep.notes.push("added_migration: ImageLabel.Image is not a migration at this version; leg skipped".into());
            return;
        }
    };
    let mut db2 = db.clone();
    let pairs = [("VerifOldId", "VerifNewContent"), ("VerifZOldId", "VerifANewContent")];
    {
        let folder = db2.classes.get_mut("Folder").expect("Folder");
        for (old, new) in pairs {
            let mut m = template.clone();
            m.new_property_name = new.to_owned();
            let mut od = PropertyDescriptor::new(old, DT::Value(VariantType::ContentId));
            od.kind = PK::Canonical { serialization: PS::Migrate(m) };
            let mut nd = PropertyDescriptor::new(new, DT::Value(VariantType::Content));
            nd.kind = PK::Canonical { serialization: PS::Serializes };
            // ... and an alias of the LEGACY property (the spelling older files used), as patches/ keep them
            let alias_name: &'static str = if old == "VerifOldId" { "verifOldIdAlias" } else { "verifZOldIdAlias" };
            let mut ad = PropertyDescriptor::new(alias_name, DT::Value(VariantType::ContentId));
            ad.kind = PK::Alias { alias_for: old.into() };
            folder.properties.insert(alias_name.into(), ad);
            folder.properties.insert(old.into(), od);
            folder.properties.insert(new.into(), nd);
            folder.default_properties.insert(new.into(), Variant::Content(Content::none()));
        }
    }
    let db2: &'static rbx_reflection::ReflectionDatabase<'static> = Box::leak(Box::new(db2));
    let no = |_: Ref| J::Null;
    for (old, new) in pairs {
        for case in ["legacy-only", "explicit-first", "legacy-first", "legacy-alias-only", "legacy-alias-and-explicit"] {
            let alias_name = if old == "VerifOldId" { "verifOldIdAlias" } else { "verifZOldIdAlias" };
            let legacy = Variant::ContentId("rbxassetid://1".into());
            let explicit = Variant::Content(Content::from_uri("rbxassetid://2"));
            let mut b = InstanceBuilder::new("Folder").with_name("x");
            match case {
                "legacy-only" => b.add_property(old, legacy.clone()),
                "legacy-alias-only" => b.add_property(alias_name, legacy.clone()),
                "legacy-alias-and-explicit" => {
                    b.add_property(alias_name, legacy.clone());
                    b.add_property(new, explicit.clone());
                }
                "explicit-first" => {
                    b.add_property(new, explicit.clone());
                    b.add_property(old, legacy.clone());
                }
                _ => {
                    b.add_property(old, legacy.clone());
                    b.add_property(new, explicit.clone());
                }
            }
            let want = canon::value(&if case == "legacy-only" || case == "legacy-alias-only" { Variant::Content(Content::from_uri("rbxassetid://1")) } else { explicit.clone() }, &no);
            // a sibling that carries nothing, and one that carries the other combination, so that columns exist either way
            let dom = WeakDom::new(InstanceBuilder::new("DataModel").with_child(b).with_child(InstanceBuilder::new("Folder").with_name("bare")));
            let roots = dom.root().children().to_vec();
            let replay = json!({"cmd": "c16", "part": "added-migration", "pair": old, "case": case});
            for fmt in ["binary", "xml"] {
                rep.evaluations += 1;
                rep.count(&format!("added_migration.{}.{}", fmt, case));
                let res = catch(|| -> Result<(Option<J>, bool), String> {
                    let mut v = vec![];
                    let d = if fmt == "binary" {
                        rbx_binary::Serializer::new().reflection_database(db2).serialize(&mut v, &dom, &roots).map_err(|e| format!("write: {}", e))?;
                        rbx_binary::Deserializer::new().reflection_database(db2).deserialize(&v[..]).map_err(|e| format!("read: {}", e))?
                    } else {
                        rbx_xml::to_writer(&mut v, &dom, &roots, rbx_xml::EncodeOptions::new().reflection_database(db2)).map_err(|e| format!("write: {}", e))?;
                        rbx_xml::from_reader(&v[..], rbx_xml::DecodeOptions::new().reflection_database(db2)).map_err(|e| format!("read: {}", e))?
                    };
                    let k = d.root().children().first().and_then(|r| d.get_by_ref(*r)).ok_or("no instance")?;
                    Ok((k.properties.get(&rbx_dom_weak::ustr(new)).map(|v| canon::value(v, &no)), k.properties.contains_key(&rbx_dom_weak::ustr(old)) || k.properties.contains_key(&rbx_dom_weak::ustr(alias_name))))
                });
                let bad = match &res {
                    Ok(Ok((got, legacy_left))) => {
                        if got.as_ref() != Some(&want) {
                            Some(format!("{} reads back as {:?}, expected {}", new, got.as_ref().map(|j| j.to_string()), want))
                        } else if *legacy_left {
                            Some(format!("the legacy property {} is still there after the round trip", old))
                        } else {
                            None
                        }
                    }
                    Ok(Err(e)) => Some(e.clone()),
                    Err(p) => Some(format!("panic: {}", p.msg)),
                };
                if let Some(what) = bad {
                    rep.violation(&format!("{}:added-migration:{}:{}", prefix, fmt, case), &format!("{} Folder.{} -> {} ({}): {}", fmt, old, new, case, what), replay.clone(), J::Null);
                }
            }
        }
    }
}

pub fn main(a: &Args) {
    let shard = a.u64("shard", 0);
    let nshards = a.u64("nshards", 1);
    let out = a.str("out", "/dev/stdout");
    let repo = a.str("repo", "/repo");
    let mut rep = Report::new("C16");
    if shard == 0 {
        structural(&mut rep);
        lua_copy(&mut rep, &repo);
        custom_database(&mut rep);
        hoisted_targets(&mut rep);
        added_migration(&mut rep, "C16");
        reserialize(&mut rep);
    }
    default_instances(&mut rep, shard, nshards);
    default_fill(&mut rep, shard, nshards);
    lookups(&mut rep, shard, nshards);
    rep.finish(&out);
}
